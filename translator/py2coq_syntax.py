#!/usr/bin/env python3
"""Fourth T1 generator: the syntax layer behind property C09 -> coq/gen/SyntaxGen.v.

Translated (Python ast only; pacti is never imported):
  src/pacti/terms/polyhedra/syntax/data.py     the PolyhedralSyntax* dataclasses (records), the enum, the methods
                                               of PolyhedralSyntaxTermList / AbsoluteTerm / AbsoluteTermList,
                                               _combine_optional_floats, _combine_or_append,
                                               _generate_absolute_term_combinations, __post_init__ of the equality
                                               expression
  src/pacti/terms/polyhedra/syntax/grammar.py  the parse ACTIONS (_parse_*, _to_absolute_term_or_term) over
                                               dynamically typed tokens (base/PySyntax.v:tok); the pyparsing
                                               grammar objects are NOT translated (model/Grammar.v is hand-written)
  src/pacti/terms/polyhedra/serializer.py      _expression_to_polyhedral_terms and its helpers (not the printer,
                                               not validate_contract_dict)
proofs/SyntaxGen*.v prove every generated function equal to the hand model of model/Syntax.v.

Fail closed (py2coq.Unsupported; py2coq.main poisons gen/SyntaxGen.v only) on any construct outside the subset, on
a missing listed function, on an unexpected method / field / decorator in a translated class, on a module-level
redefinition of a name used, on an in-place update of an object that is not provably local, and when
PolyhedralSyntaxTermList.__repr__ / _factor_repr / PolyhedralSyntaxAbsoluteTerm.__repr__ differ from the text the
injectivity assumption was validated for.

Vocabulary: coq/base/PySyntax.v (+ PyDict.v, PyLoop.v).  Floats are exact rationals, ints are Z, Optional[float] is
option Q.  Functions are pure or monadic (M _) exactly as their body requires (d[k], l[i], `/`, assert, raise, a
token operation, a call of a monadic function).
"""
from __future__ import annotations

import ast
import hashlib
import os
import re
import sys
from typing import Dict, List, Optional, Tuple

_main = sys.modules.get("__main__")
if _main is not None and os.path.basename(getattr(_main, "__file__", "") or "") == "py2coq.py" \
        and hasattr(_main, "Unsupported"):
    P = _main            # py2coq.py run as a script: share ITS Unsupported class (guard() catches that one)
else:
    sys.path.insert(0, os.path.dirname(os.path.abspath(__file__)))
    import py2coq as P   # noqa: E402

Unsupported, fail, qlit, NeedMonad = P.Unsupported, P.fail, P.qlit, P.NeedMonad
COQ_KEYWORDS, strip_doc, class_def, n_imports, norm_dump = P.COQ_KEYWORDS, P.strip_doc, P.class_def, P.n_imports, P.norm_dump

DATA = "src/pacti/terms/polyhedra/syntax/data.py"
GRAMMAR = "src/pacti/terms/polyhedra/syntax/grammar.py"
SERIALIZER = "src/pacti/terms/polyhedra/serializer.py"
POLY = "src/pacti/terms/polyhedra/polyhedra.py"
ERRORS = "src/pacti/utils/errors.py"

# ---------------------------------------------------------------- what is translated
TAGS = {"PolyhedralSyntaxTermList": "STL", "PolyhedralSyntaxAbsoluteTerm": "ABS",
        "PolyhedralSyntaxAbsoluteTermList": "ATL", "PolyhedralSyntaxEqlExpression": "EQL",
        "PolyhedralSyntaxIneqExpression": "INEQ"}
CLS = {v: k for k, v in TAGS.items()}
ENUM = "PolyhedralSyntaxOperator"
EXPR = "PolyhedralSyntaxExpression"
EXPR_SUBS = ["PolyhedralSyntaxEqlExpression", "PolyhedralSyntaxIneqExpression"]
DATA_METHODS = {
    "PolyhedralSyntaxTermList": ["is_positive", "negate", "add", "to_polyhedral_term"],
    "PolyhedralSyntaxAbsoluteTerm": ["is_positive", "negate", "same_term_list", "to_term_list"],
    "PolyhedralSyntaxAbsoluteTermList": ["expand", "negate", "add", "is_constant"],
    "PolyhedralSyntaxEqlExpression": ["__post_init__"],
    "PolyhedralSyntaxIneqExpression": [],
}
DATA_SKIP = {"__repr__"}
DATA_FUNS = ["_combine_optional_floats", "_combine_or_append", "_generate_absolute_term_combinations"]
DATA_FUNS_SKIP = ["_factor_repr"]
GRAMMAR_FUNS = ["_parse_only_variable", "_parse_number_and_variable", "_parse_term", "_parse_first_term",
                "_parse_signed_term", "_parse_term_list", "_parse_paren_terms", "_parse_factor_paren_terms",
                "_parse_absolute_term", "_parse_signed_abs_term", "_parse_first_abs_term",
                "_to_absolute_term_or_term", "_parse_abs_or_term", "_parse_abs_or_terms", "_parse_paren_abs_or_terms",
                "_parse_first_or_addl_paren_abs_or_terms", "_parse_multi_paren_abs_or_terms",
                "_parse_equality_expression", "_parse_expression_sides", "_parse_leq_expression",
                "_parse_geq_expression", "_parse_expression", "_parse_arithmetic_chain"]
SERIALIZER_FUNS = ["_eql_expression_to_polyhedral_terms", "_check_absolute_terms",
                   "_leq_expression_to_polyhedral_terms", "_geq_expression_to_polyhedral_terms",
                   "_expression_to_polyhedral_terms"]
SERIALIZER_SKIP = ["validate_contract_dict", "_is_number", "_check_clause", "_number_to_string",
                   "_are_numbers_approximatively_equal", "_lhs_str", "_are_polyhedral_terms_opposite",
                   "polyhedral_term_list_to_strings", "polyhedral_termlist_from_string"]
# sha256 of norm_dump (comments, layout and docstrings do not matter) of the string-building code the
# injectivity assumption about __repr__ was validated for (harness/syngen_repr_check.py)
PINNED = {
    "_factor_repr": "fd5193f6ab432960cc0eac916b99ec387844f8550bf7458263952dc39ec53e27",
    "PolyhedralSyntaxTermList.__repr__": "3fba6e3c3eee4e720a7000f20e1ac968bf3e9ad957f15ed43793fecbceb12331",
    "PolyhedralSyntaxAbsoluteTerm.__repr__": "183171c75e5a116df7fcaa707af0c740bf8733737c594c0c633f1420072280e5",
}
ERRKIND = {"ValueError": "ValueErr", "PolyhedralSyntaxConvexException": "ConvexErr",
           "AssertionError": '(Escape "AssertionError")'}
MODPREFIX = {"data": "data", "grammar": "grammar", "serializer": "serializer"}

ANNOT = {
    "float": "F", "bool": "B", "str": "S", "int": "Z", "None": "U", "Dict[str, float]": "D", "Optional[float]": "OF",
    "Dict[Var, numeric]": "DV", "List[str]": "L:MSG", "PolyhedralTerm": "PT", "List[PolyhedralTerm]": "L:PT",
    "pp.ParseResults": "TOK", "PolyhedralSyntaxAbsoluteTermOrTerm": "TOK", EXPR: "EXPR", ENUM: "OP",
}
for _c, _t in TAGS.items():
    ANNOT[_c] = _t
    ANNOT[f"List[{_c}]"] = "L:" + _t
INJ = {"S": "TokStr", "F": "TokFloat", "STL": "TokTermList", "ABS": "TokAbsTerm", "ATL": "TokAbsTermList",
       "EXPR": "TokExpr"}
BASE_COQTY = {"F": "Q", "B": "bool", "Z": "Z", "S": "string", "V": "var", "D": "pvars", "DV": "pvars",
              "OF": "option Q", "EXPR": EXPR, "OP": ENUM, "PT": "pterm", "TOK": "token", "TOKA": "token",
              "MSG": "msg", "FR": "Q", "RK": "repr_key", "U": "unit"}
VOCAB = {
    "zlen", "py_index", "py_slice_from", "py_slice_range", "stride", "py_slice_step", "py_zip", "enumerate_z", "py_product",
    "py_product_z", "py_append", "py_map_m", "opt_or", "msg", "py_str", "float_repr", "float_repr_is", "chr_cmp",
    "str_cmp", "str_leb", "insert_name", "py_sorted", "insert_item", "sorted_items", "repr_key", "stl_repr_key",
    "items_eqb", "repr_key_eqb", "dict_len", "dict_eqb", "tok", "token", "TokStr", "TokFloat", "TokTermList",
    "TokAbsTerm", "TokAbsTermList", "TokExpr", "TokGroup", "str_chars", "tok_items", "tok_len", "tok_index",
    "tok_slice_step", "tok_as_list", "tok_eq_str", "tok_in_strs", "tok_arith", "tok_add", "tok_sub", "tok_mul",
    "tok_div", "tok_as_term_list", "Expr_Eql", "Expr_Ineq",
    "qzero", "qadd", "qsub", "qmul", "qdiv", "qneg", "qabs", "qle", "qlt", "qge", "qgt", "q_eqb", "q_neb", "py_div",
    "assoc", "has_key", "dict_set", "dict_pop", "keys", "dict_empty", "dict_keys", "dict_get", "dict_pop_m", "ctl",
    "Continue", "Break", "for_list", "for_list_m", "for_items", "for_items_m", "dict_comp", "dict_comp_m", "ret",
    "raise", "bind", "negb", "true", "false", "M", "Q", "Z", "bool", "list", "string", "option", "Some", "None",
    "unit", "tt", "nat", "S", "O", "map", "filter", "fst", "snd", "pair", "nil", "cons", "app", "var", "Var",
    "var_name", "enumerate", "pvars", "pterm", "mkT", "tvars", "tconst", "ValueErr", "ConvexErr", "SyntaxErr", "Escape",
    "err", "inl", "inr", "is_none", "len", "skipn", "combine", "andb", "orb", "eqb", "PolyhedralTerm_init",
}


def cid(name: str) -> str:
    """Coq identifier of a Python local"""
    if re.match(r"^[a-z]+_\d+$", name) or name.endswith("_") or name.startswith(("PolyhedralSyntax", "PolyhedralTerm_",
                                                                                 "data_", "grammar_", "serializer_",
                                                                                 "mk_", "_")):
        raise Unsupported(f"local name {name} collides with generated names")
    if name in COQ_KEYWORDS or name in VOCAB:
        return name + "_"
    return name


def coqty(t) -> str:
    t = rt(t)
    if isinstance(t, TV):
        raise Unsupported("the element type of an empty list literal could not be determined")
    if t in BASE_COQTY:
        return BASE_COQTY[t]
    if t in CLS:
        return CLS[t]
    if t.startswith("L:"):
        return f"list ({coqty(t[2:])})" if " " in coqty(t[2:]) else f"list {coqty(t[2:])}"
    raise Unsupported(f"no Coq type for {t}")


def coqstr(s: str) -> str:
    if any(ord(ch) > 126 or ord(ch) < 32 for ch in s):
        raise Unsupported(f"string literal {s!r}")
    return '"' + s.replace('"', '""') + '"%string'


class TV:
    """type of an un-annotated empty list literal, fixed by its first typed use ("L:<elt>")"""

    def __init__(self):
        self.t = None


def rt(t):
    return t.t if isinstance(t, TV) and t.t else t


class Ctx:
    """what falling off the end / break mean where a block is translated; whether `return` is allowed;
    the names the continuation reads (accumulators of the enclosing loops, joined variables)"""

    def __init__(self, fall, brk=None, ret_ok=False, live=frozenset()):
        self.fall, self.brk, self.ret_ok, self.live = fall, brk, ret_ok, frozenset(live)


class Shell:
    """a translated test: binds, the two environments and how the two branch texts are assembled"""

    def __init__(self, pre, render, env_then, env_else):
        self.pre, self.render, self.env_then, self.env_else = pre, render, env_then, env_else


class World:
    """everything the functions of the three modules may refer to"""

    def __init__(self):
        self.fields: Dict[Tuple[str, str], Tuple[str, str]] = {}    # (tag, attr) -> (projection, type)
        self.setters: Dict[Tuple[str, str], str] = {}               # (tag, attr) -> record update function
        self.ctors: Dict[str, Tuple[str, list]] = {}                # class name -> (coq fn, [(param, type, default coq)])
        self.methods: Dict[Tuple[str, str], tuple] = {}             # (tag, method) -> (coq, monadic, params, rtype)
        self.funcs: Dict[str, tuple] = {}                           # module function -> (coq, monadic, params, rtype)
        self.enum: Dict[str, str] = {}                              # member -> constructor
        self.assumptions: List[str] = []


# ================================================================ one function
class SynFn:
    def __init__(self, world: World, fdef: ast.FunctionDef, where: str, module_names: set, parse_action: bool):
        self.w, self.f, self.where = world, fdef, where
        self.globals = module_names          # module-level names this function may refer to (checked imports)
        self.parse_action = parse_action
        self.monadic = False
        self.tmp = 0
        self.rtype = None

    # ---------------------------------------------------------------- helpers
    def note(self, text):
        if text not in self.w.assumptions:
            self.w.assumptions.append(text)

    def fresh(self, base="t"):
        self.tmp += 1
        return f"{base}_{self.tmp}"

    def ret(self, c):
        return f"ret {c}" if self.monadic else c

    def need_monad(self, what):
        if not self.monadic:
            raise NeedMonad(what)

    def emit_binds(self, pre, body, ind):
        out = ""
        for pat, m in pre:
            self.need_monad(m)
            out += f"{ind}{pat} <- {m} ;;\n"
        return out + body

    def inline_m(self, pre, c):
        self.need_monad(c)
        if pre and pre[-1][0] == c:
            return "".join(f"{n} <- {m} ;; " for n, m in pre[:-1]) + pre[-1][1]
        return "".join(f"{n} <- {m} ;; " for n, m in pre) + f"ret {c}"

    def sub(self, thunk):
        """translate a sub-block: pure if possible, otherwise monadic (only inside a monadic function)"""
        if not self.monadic:
            return thunk(), False
        saved_tmp, saved_ass = self.tmp, list(self.w.assumptions)
        self.monadic = False
        try:
            return thunk(), False
        except NeedMonad:
            self.tmp = saved_tmp
            self.w.assumptions[:] = saved_ass
            self.monadic = True
            return thunk(), True
        finally:
            self.monadic = True

    @staticmethod
    def owned(env):
        return env.get("%owned", frozenset())

    @staticmethod
    def with_owned(env, name, flag):
        env2 = dict(env)
        o = set(env.get("%owned", frozenset()))
        (o.add if flag else o.discard)(name)
        env2["%owned"] = frozenset(o)
        return env2

    @staticmethod
    def narrow(env):
        return dict(env.get("%narrow", ()))

    @staticmethod
    def with_narrow(env, path, val):
        env2 = dict(env)
        n = dict(env.get("%narrow", ()))
        if val is None:
            n.pop(path, None)
        else:
            n[path] = val
        env2["%narrow"] = tuple(sorted(n.items()))
        return env2

    def forget(self, env, name):
        """`name` (or something reachable from it) is rebound/updated: narrowings through it are stale"""
        n = {p: v for p, v in self.narrow(env).items() if p != name and not p.startswith(name + ".")}
        env2 = dict(env)
        env2["%narrow"] = tuple(sorted(n.items()))
        return env2

    def escaped(self, env, node):
        """env after evaluating node: names passed to a call / stored in a literal are no longer exclusively owned"""
        out = env
        for n in ast.walk(node):
            args = []
            if isinstance(n, ast.Call):
                args = list(n.args) + [k.value for k in n.keywords]
            elif isinstance(n, (ast.Tuple, ast.List, ast.Dict)):
                args = list(getattr(n, "elts", [])) + list(getattr(n, "values", []))
            for a in args:
                if isinstance(a, ast.Name) and a.id in self.owned(out):
                    out = self.with_owned(out, a.id, False)
        return out

    @staticmethod
    def is_fresh(value):
        if isinstance(value, (ast.List, ast.Dict, ast.ListComp, ast.DictComp)):
            return True
        if isinstance(value, ast.Call) and isinstance(value.func, ast.Attribute) and value.func.attr == "copy" \
                and not value.args and not value.keywords:
            return True
        return False

    def lookup(self, e, env):
        if e.id.startswith("%") or e.id not in env:
            fail(e, "unbound name")
        if env[e.id] == "DEAD":
            fail(e, f"`{e.id}` is bound with different types (or only on some paths) by the branches before this use")
        return cid(e.id), env[e.id]

    # ---------------------------------------------------------------- coercions
    def unify(self, t, want, node):
        if isinstance(t, TV) and t.t is None:
            if not want.startswith("L:"):
                fail(node, f"empty list literal used at type {want}")
            t.t = want
            return True
        return rt(t) == want

    def coerce(self, c, t, want, node, what):
        t = rt(t)
        if isinstance(t, TV):
            self.unify(t, want, node)
            return c
        if t == want:
            return c
        if t == "ZL":
            if want == "F":
                return qlit(int(c))
            if want == "Z":
                return f"({c})%Z"
            if want == "OF":
                return f"(Some {qlit(int(c))})"
        if want == "OF":
            if t == "NONE":
                return "None"
            if t == "F":
                return f"(Some {c})"
        if want == "EXPR" and t in ("EQL", "INEQ"):
            return f"({'Expr_Eql' if t == 'EQL' else 'Expr_Ineq'} {c})"
        if want in ("TOK", "TOKA"):
            if t in ("EQL", "INEQ"):
                return f"(TokExpr {self.coerce(c, t, 'EXPR', node, what)})"
            if t in INJ:
                return f"({INJ[t]} {c})"
        if want == "MSG" and t == "S":
            return "tt"
        if want.startswith("L:") and t.startswith("L:") and isinstance(rt(want), str):
            if t[2:] == want[2:]:
                return c
        fail(node, f"{what}: expected {want}, got {t}")

    def lub(self, types, node, what):
        ts = [rt(t) for t in types]
        if any(isinstance(t, TV) for t in ts):
            known = [t for t in ts if not isinstance(t, TV)]
            if not known:
                fail(node, f"{what}: undetermined list type")
            for t in types:
                if isinstance(rt(t), TV):
                    self.unify(t, known[0], node)
            ts = [rt(t) for t in types]
        s = set(ts)
        if len(s) == 1:
            t = ts[0]
            return "Z" if t == "ZL" else t
        if s <= {"ZL", "F"}:
            return "F"
        if s <= {"ZL", "Z"}:
            return "Z"
        if s <= {"NONE", "F", "OF", "ZL"}:
            return "OF"
        if s <= {"EQL", "INEQ", "EXPR"}:
            return "EXPR"
        if s <= set(INJ) | {"TOK", "EQL", "INEQ"} and "TOK" in s:
            return "TOK"
        fail(node, f"{what}: incompatible types {sorted(s)}")

    # ---------------------------------------------------------------- paths  NAME.a.b
    def path_of(self, e):
        """(root name, [attrs]) of NAME.a.b, or None"""
        attrs = []
        while isinstance(e, ast.Attribute):
            attrs.append(e.attr)
            e = e.value
        if isinstance(e, ast.Name):
            return e.id, list(reversed(attrs))
        return None

    def rebuild(self, root_c, root_t, attrs, newval, node):
        if not attrs:
            return newval
        a = attrs[0]
        if (root_t, a) not in self.w.fields:
            fail(node, f"attribute {a} of type {root_t}")
        proj, ty = self.w.fields[(root_t, a)]
        inner = self.rebuild(f"({proj} {root_c})", ty, attrs[1:], newval, node)
        return f"({self.w.setters[(root_t, a)]} {root_c} {inner})"

    # ---------------------------------------------------------------- expressions -> (prebinds, coq, type)
    def tx(self, e, env):
        if isinstance(e, ast.Name):
            if e.id in env and not e.id.startswith("%"):
                c, t = self.lookup(e, env)
                return [], c, t
            fail(e, "unbound name")
        if isinstance(e, ast.Constant):
            v = e.value
            if v is True:
                return [], "true", "B"
            if v is False:
                return [], "false", "B"
            if v is None:
                return [], "None", "NONE"
            if isinstance(v, int):
                return [], str(v), "ZL"
            if isinstance(v, float):
                return [], qlit(v), "F"
            if isinstance(v, str):
                return [], coqstr(v), "S"
            fail(e, "constant")
        if isinstance(e, ast.JoinedStr):
            if len(e.values) == 1 and isinstance(e.values[0], ast.FormattedValue) and e.values[0].conversion == -1 \
                    and e.values[0].format_spec is None:
                p, c, t = self.tx(e.values[0].value, env)
                if rt(t) == "F":
                    self.note("f\"{x}\" of a float is the abstract value float_repr x; it can only be compared with the "
                              "canonical repr of a float constant c, and the comparison is x == c (repr of floats is "
                              "injective; 0.0 and -0.0 are one rational)")
                    return p, f"(float_repr {c})", "FR"
                if rt(t) == "STL":
                    return p, f"({CLS['STL']}_repr_key {c})", "RK"
            fail(e, "f-string (only f\"{x}\" of a float or of a PolyhedralSyntaxTermList is a value)")
        if isinstance(e, ast.Dict):
            pre, c = [], "dict_empty"
            for k, v in zip(e.keys, e.values):
                if k is None:
                    fail(e, "** in a dict literal")
                pk, ck, tk = self.tx(k, env)
                pv, cv, tv = self.tx(v, env)
                if rt(tk) != "S":
                    fail(e, f"dict key of type {rt(tk)}")
                pre += pk + pv
                c = f"(dict_set {c} {ck} {self.coerce(cv, tv, 'F', e, 'dict value')})"
            return pre, c, "D"
        if isinstance(e, ast.List):
            if not e.elts:
                return [], "[]", TV()
            parts = [self.tx(x, env) for x in e.elts]
            t = self.lub([t for _, _, t in parts], e, "list literal")
            cs = [self.coerce(c, tt, t, e, "list element") for _, c, tt in parts]
            return [b for p, _, _ in parts for b in p], "[" + "; ".join(cs) + "]", "L:" + t
        if isinstance(e, ast.Attribute):
            return self.tx_attr(e, env)
        if isinstance(e, ast.Subscript):
            return self.tx_subscript(e, env)
        if isinstance(e, ast.Call):
            return self.tx_call(e, env)
        if isinstance(e, ast.BinOp):
            return self.tx_binop(e, env)
        if isinstance(e, ast.UnaryOp):
            if isinstance(e.op, ast.USub) and isinstance(e.operand, ast.Constant) \
                    and isinstance(e.operand.value, (int, float)) and not isinstance(e.operand.value, bool):
                if isinstance(e.operand.value, int):
                    return [], str(-e.operand.value), "ZL"
                return [], qlit(-e.operand.value), "F"
            p, c, t = self.tx(e.operand, env)
            t = rt(t)
            if isinstance(e.op, ast.Not) and t == "B":
                return p, f"(negb {c})", "B"
            if isinstance(e.op, ast.USub) and t == "F":
                return p, f"(qneg {c})", "F"
            fail(e, f"unary operator on {t}")
        if isinstance(e, ast.BoolOp):
            return self.tx_boolop(e, env)
        if isinstance(e, ast.Compare):
            return self.tx_compare(e, env)
        if isinstance(e, ast.ListComp):
            return self.tx_listcomp(e, env)
        if isinstance(e, ast.DictComp):
            return self.tx_dictcomp(e, env)
        fail(e, "expression form")

    def tx_attr(self, e, env):
        key = ast.unparse(e)
        nar = self.narrow(env)
        if key in nar:
            return [], nar[key][0], nar[key][1]
        if isinstance(e.value, ast.Name) and e.value.id == ENUM and ENUM not in env:
            if e.attr not in self.w.enum:
                fail(e, f"member {e.attr} of {ENUM}")
            return [], self.w.enum[e.attr], "OP"
        p, c, t = self.tx(e.value, env)
        t = rt(t)
        if (t, e.attr) in self.w.fields:
            proj, ty = self.w.fields[(t, e.attr)]
            return p, f"({proj} {c})", ty
        fail(e, f"attribute {e.attr} of type {t}")

    def const_nat(self, node, what, minimum=0):
        if node is None:
            return None
        if isinstance(node, ast.Constant) and isinstance(node.value, int) and not isinstance(node.value, bool) \
                and node.value >= minimum:
            return node.value
        fail(node, f"{what} must be an int literal >= {minimum}")

    def tx_subscript(self, e, env):
        if not isinstance(e.ctx, ast.Load):
            fail(e, "subscript context")
        p1, c1, t1 = self.tx(e.value, env)
        t1 = rt(t1)
        if isinstance(e.slice, ast.Slice):
            if e.slice.upper is not None:
                # l[a:b] with int literals (possibly negative), no step
                def lit(n, default):
                    if n is None:
                        return default
                    if isinstance(n, ast.UnaryOp) and isinstance(n.op, ast.USub) and isinstance(n.operand, ast.Constant) \
                            and isinstance(n.operand.value, int) and not isinstance(n.operand.value, bool):
                        return -n.operand.value
                    if isinstance(n, ast.Constant) and isinstance(n.value, int) and not isinstance(n.value, bool):
                        return n.value
                    fail(n, "slice bound must be an int literal")
                if e.slice.step is not None or not (isinstance(t1, str) and t1.startswith("L:")):
                    fail(e, "slice form (x[a:b] on a list only, without step)")
                return p1, f"(py_slice_range {c1} ({lit(e.slice.lower, 0)})%Z ({lit(e.slice.upper, 0)})%Z)", t1
            lo = self.const_nat(e.slice.lower, "slice start")
            st = self.const_nat(e.slice.step, "slice step", 1)
            if lo is None:
                fail(e, "slice form (only x[n:], x[n::k], x[a:b])")
            if t1 in ("TOK",):
                tmp = self.fresh()
                return p1 + [(tmp, f"tok_slice_step {c1} {lo} {st or 1}")], tmp, "L:TOK"
            if isinstance(t1, str) and t1.startswith("L:"):
                if st is None:
                    return p1, f"(py_slice_from {c1} {lo})", t1
                return p1, f"(py_slice_step {c1} {lo} {st})", t1
            fail(e, f"slice of a value of type {t1}")
        p2, c2, t2 = self.tx(e.slice, env)
        t2 = rt(t2)
        if t1 in ("D", "DV") and t2 in ("S", "V"):
            tmp = self.fresh()
            return p1 + p2 + [(tmp, f"dict_get {c1} {c2}")], tmp, "F"
        if t2 in ("Z", "ZL"):
            ci = self.coerce(c2, t2, "Z", e, "index")
            if t1 == "TOK":
                tmp = self.fresh()
                return p1 + p2 + [(tmp, f"tok_index {c1} {ci}")], tmp, "TOK"
            if isinstance(t1, str) and t1.startswith("L:"):
                tmp = self.fresh()
                return p1 + p2 + [(tmp, f"py_index {c1} {ci}")], tmp, t1[2:]
        fail(e, f"subscript {t1}[{t2}]")

    def tx_binop(self, e, env):
        (p1, c1, t1), (p2, c2, t2) = self.tx(e.left, env), self.tx(e.right, env)
        t1, t2 = rt(t1), rt(t2)
        pre = p1 + p2
        num = {"F", "ZL"}
        if t1 in num and t2 in num and "F" in (t1, t2):
            a, b = self.coerce(c1, t1, "F", e, "operand"), self.coerce(c2, t2, "F", e, "operand")
            op = {ast.Add: "qadd", ast.Sub: "qsub", ast.Mult: "qmul"}.get(type(e.op))
            if op:
                return pre, f"({op} {a} {b})", "F"
            if isinstance(e.op, ast.Div):
                tmp = self.fresh()
                return pre + [(tmp, f"py_div {a} {b}")], tmp, "F"
        if t1 in {"Z", "ZL"} and t2 in {"Z", "ZL"} and "Z" in (t1, t2):
            a, b = self.coerce(c1, t1, "Z", e, "operand"), self.coerce(c2, t2, "Z", e, "operand")
            op = {ast.Add: "+", ast.Sub: "-", ast.Mult: "*"}.get(type(e.op))
            if op:
                return pre, f"({a} {op} {b})%Z", "Z"
        if t1 == "B" and t2 == "B" and isinstance(e.op, (ast.BitAnd, ast.BitOr)):
            return pre, f"({c1} {'&&' if isinstance(e.op, ast.BitAnd) else '||'} {c2})", "B"
        if "TOK" in (t1, t2) and t1 in ("TOK", "F") and t2 in ("TOK", "F"):
            prim = {ast.Add: "tok_add", ast.Sub: "tok_sub", ast.Mult: "tok_mul", ast.Div: "tok_div"}.get(type(e.op))
            if prim:
                self.note("dynamic arithmetic on tokens is defined on two floats; on any other pair of token kinds it is "
                          "rendered as Escape \"TypeError\" (Python would concatenate two str or two ParseResults under +; "
                          "the grammar hands floats to these parse actions)")
                a, b = self.coerce(c1, t1, "TOK", e, "operand"), self.coerce(c2, t2, "TOK", e, "operand")
                tmp = self.fresh()
                return pre + [(tmp, f"{prim} {a} {b}")], tmp, "TOK"
        fail(e, f"binary operator {type(e.op).__name__} on {t1},{t2}")

    def tx_boolop(self, e, env):
        parts = [self.tx(v, env) for v in e.values]
        tys = [rt(t) for _, _, t in parts]
        is_and = isinstance(e.op, ast.And)
        if not is_and and len(parts) == 2 and tys[0] == "OF" and tys[1] in ("F", "ZL") and not parts[1][0]:
            # `x or d` on an Optional[float]: None and 0.0 are falsy
            return parts[0][0], f"(opt_or {parts[0][1]} {self.coerce(parts[1][1], tys[1], 'F', e, 'default')})", "F"
        for t in tys:
            if t != "B":
                fail(e, f"and/or on a value of type {t}")
        if not any(p for p, _, _ in parts[1:]):
            op = "&&" if is_and else "||"
            return parts[0][0], "(" + f" {op} ".join(c for _, c, _ in parts) + ")", "B"
        pn, cn, _ = parts[-1]
        acc = self.inline_m(pn, cn)
        for p, c, _ in reversed(parts[1:-1]):
            inner = f"if {c} then ({acc}) else ret false" if is_and else f"if {c} then ret true else ({acc})"
            acc = "".join(f"{n} <- {m} ;; " for n, m in p) + inner
        p0, c0, _ = parts[0]
        tmp = self.fresh("b")
        expr = f"(if {c0} then ({acc}) else ret false)" if is_and else f"(if {c0} then ret true else ({acc}))"
        return p0 + [(tmp, expr)], tmp, "B"

    def float_literal_of(self, node):
        """the float whose canonical repr the string literal is, as a Coq rational"""
        if not (isinstance(node, ast.Constant) and isinstance(node.value, str)):
            return None
        try:
            v = float(node.value)
        except ValueError:
            return None
        if v != v or v in (float("inf"), float("-inf")) or repr(v) != node.value:
            return None
        return qlit(v)

    def tx_compare(self, e, env):
        if len(e.ops) != 1:
            fail(e, "chained comparison")
        op = e.ops[0]
        l, r = e.left, e.comparators[0]
        neg = isinstance(op, (ast.NotIn, ast.NotEq, ast.IsNot))
        wrap = (lambda x: f"(negb {x})") if neg else (lambda x: x)
        # f"{x}" == "<repr of a float>"
        if isinstance(op, (ast.Eq, ast.NotEq)):
            for a, b in ((l, r), (r, l)):
                lit = self.float_literal_of(b)
                if lit is not None:
                    p, c, t = self.tx(a, env)
                    if rt(t) == "FR":
                        return p, wrap(f"(float_repr_is {c} {lit})"), "B"
        # x in {"a", "b"}
        if isinstance(op, (ast.In, ast.NotIn)) and isinstance(r, ast.Set) and r.elts \
                and all(isinstance(x, ast.Constant) and isinstance(x.value, str) for x in r.elts):
            p, c, t = self.tx(l, env)
            strs = "[" + "; ".join(coqstr(x.value) for x in r.elts) + "]"
            if rt(t) == "TOK":
                tmp = self.fresh("b")
                return p + [(tmp, f"tok_in_strs {c} {strs}")], wrap(tmp), "B"
            if rt(t) == "S":
                return p, wrap(f"(existsb (String.eqb {c}) {strs})"), "B"
            fail(e, f"`in` a set of str on {rt(t)}")
        (p1, c1, t1), (p2, c2, t2) = self.tx(l, env), self.tx(r, env)
        t1, t2 = rt(t1), rt(t2)
        pre = p1 + p2
        if isinstance(op, (ast.Is, ast.IsNot)):
            if t2 == "NONE" and t1 == "OF":
                return pre, wrap(f"(is_none {c1})"), "B"
            fail(e, f"`is` on {t1},{t2}")
        if isinstance(op, (ast.In, ast.NotIn)):
            if t1 in ("S", "V") and t2 in ("D", "DV"):
                return pre, wrap(f"(has_key {c1} {c2})"), "B"
            fail(e, f"`in` on {t1},{t2}")
        num = {"F", "ZL"}
        ints = {"Z", "ZL"}
        if isinstance(op, (ast.Eq, ast.NotEq)):
            if t1 in num and t2 in num and "F" in (t1, t2):
                a, b = self.coerce(c1, t1, "F", e, "operand"), self.coerce(c2, t2, "F", e, "operand")
                return pre, f"({'q_neb' if neg else 'q_eqb'} {a} {b})", "B"
            if t1 in ints and t2 in ints:
                a, b = self.coerce(c1, t1, "Z", e, "operand"), self.coerce(c2, t2, "Z", e, "operand")
                return pre, wrap(f"(Z.eqb {a} {b})"), "B"
            if t1 == t2 == "S":
                return pre, wrap(f"(String.eqb {c1} {c2})"), "B"
            if {t1, t2} == {"TOK", "S"}:
                a, b = (c1, c2) if t1 == "TOK" else (c2, c1)
                return pre, wrap(f"(tok_eq_str {a} {b})"), "B"
            if t1 == t2 == "B":
                return pre, wrap(f"(Bool.eqb {c1} {c2})"), "B"
            if t1 == t2 == "OP":
                return pre, wrap(f"({ENUM}_eqb {c1} {c2})"), "B"
            if t1 == t2 == "D":
                return pre, wrap(f"(dict_eqb {c1} {c2})"), "B"
            if t1 == t2 == "RK":
                return pre, wrap(f"(repr_key_eqb {c1} {c2})"), "B"
            fail(e, f"== on {t1},{t2}")
        prim = {ast.GtE: "qge", ast.LtE: "qle", ast.Gt: "qgt", ast.Lt: "qlt"}.get(type(op))
        if prim and t1 in num and t2 in num and "F" in (t1, t2):
            a, b = self.coerce(c1, t1, "F", e, "operand"), self.coerce(c2, t2, "F", e, "operand")
            return pre, f"({prim} {a} {b})", "B"
        if prim and t1 in ints and t2 in ints:
            a, b = self.coerce(c1, t1, "Z", e, "operand"), self.coerce(c2, t2, "Z", e, "operand")
            zp = {ast.GtE: f"({b} <=? {a})%Z", ast.LtE: f"({a} <=? {b})%Z", ast.Gt: f"({b} <? {a})%Z",
                  ast.Lt: f"({a} <? {b})%Z"}[type(op)]
            return pre, zp, "B"
        fail(e, f"comparison {type(op).__name__} on {t1},{t2}")

    def tx_listcomp(self, e, env):
        if len(e.generators) != 1:
            fail(e, "nested comprehension")
        g = e.generators[0]
        if g.is_async or not isinstance(g.target, ast.Name):
            fail(e, "comprehension target")
        pi, ci, ti = self.tx(g.iter, env)
        ti = rt(ti)
        if not (isinstance(ti, str) and ti.startswith("L:")):
            fail(e, f"comprehension over a value of type {ti}")
        if g.target.id in env:
            fail(e, f"comprehension variable {g.target.id} shadows a local")
        env2 = dict(env)
        env2[g.target.id] = ti[2:]
        x = cid(g.target.id)
        src = ci
        for cond in g.ifs:
            pc, cc, tc = self.tx(cond, env2)
            if pc or rt(tc) != "B":
                fail(cond, "comprehension condition must be a bool expression that cannot raise")
            src = f"(filter (fun {x} => {cc}) {src})"
        pe, ce, te = self.tx(e.elt, env2)
        te = rt(te)
        if isinstance(te, TV) or te in ("ZL", "NONE"):
            fail(e, f"comprehension element of type {te}")
        if pe:
            tmp = self.fresh("l")
            return pi + [(tmp, f"py_map_m (fun {x} => {self.inline_m(pe, ce)}) {src}")], tmp, "L:" + te
        return pi, f"(map (fun {x} => {ce}) {src})", "L:" + te

    def items_source(self, it, env):
        if isinstance(it, ast.Call) and isinstance(it.func, ast.Attribute) and it.func.attr == "items" \
                and not it.args and not it.keywords:
            p, c, t = self.tx(it.func.value, env)
            if rt(t) in ("D", "DV"):
                return p, c
        return None

    def tx_dictcomp(self, e, env):
        if len(e.generators) != 1:
            fail(e, "nested comprehension")
        g = e.generators[0]
        src = self.items_source(g.iter, env)
        if g.is_async or src is None:
            fail(e, "dict comprehension over something else than d.items()")
        pi, ci = src
        if not (isinstance(g.target, ast.Tuple) and len(g.target.elts) == 2
                and all(isinstance(x, ast.Name) for x in g.target.elts)):
            fail(e, "comprehension target")
        kn, vn = (x.id for x in g.target.elts)
        if kn in env or vn in env:
            fail(e, "comprehension variable shadows a local")
        env2 = dict(env)
        env2[kn], env2[vn] = "S", "F"
        lam = f"fun {cid(kn)} {cid(vn)} =>"
        conds = []
        for cond in g.ifs:
            pc, cc, tc = self.tx(cond, env2)
            if pc or rt(tc) != "B":
                fail(cond, "comprehension condition must be a bool expression that cannot raise")
            conds.append(cc)
        cond = " && ".join(conds) if conds else "true"
        pk, ck, tk = self.tx(e.key, env2)
        if pk or rt(tk) not in ("S", "V"):
            fail(e.key, "comprehension key must be a str/Var expression that cannot raise")
        pv, cv, tv = self.tx(e.value, env2)
        cv = self.coerce(cv, tv, "F", e, "comprehension value")
        rty = "DV" if rt(tk) == "V" else "D"
        if pv:
            tmp = self.fresh("d")
            return pi + [(tmp, f"dict_comp_m {ci} ({lam} {cond}) ({lam} {ck}) ({lam} {self.inline_m(pv, cv)})")], tmp, rty
        return pi, f"(dict_comp {ci} ({lam} {cond}) ({lam} {ck}) ({lam} {cv}))", rty

    # ---------------------------------------------------------------- calls
    def fill_args(self, node, what, params, parts, kparts):
        if len(parts) > len(params) or set(kparts) - {pn for pn, _, _ in params}:
            fail(node, f"arguments of {what}")
        full = []
        for i, (pn, pt, pd) in enumerate(params):
            if i < len(parts):
                if pn in kparts:
                    fail(node, f"argument {pn} given twice")
                _, c, t = parts[i]
            elif pn in kparts:
                _, c, t = kparts[pn]
            elif pd is not None:
                full.append(pd)
                continue
            else:
                fail(node, f"missing argument {pn} of {what}")
            if rt(t) in ("TOK", "TOKA") and pt not in ("TOK", "TOKA"):
                fail(node, f"argument {pn} of {what}: a dynamically typed token is passed where {pt} is annotated "
                           "(narrow it with isinstance first)")
            full.append(self.coerce(c, t, pt, node, f"argument {pn} of {what}"))
        return full

    def do_call(self, node, entry, recv, parts, kparts, pre):
        name, mon, params, rty = entry
        full = self.fill_args(node, name, params, parts, kparts)
        call = " ".join([name] + ([recv] if recv is not None else []) + full)
        if mon:
            tmp = self.fresh()
            return pre + [(tmp, call)], tmp, rty
        return pre, f"({call})", rty

    def is_global(self, name, env):
        return name not in env and name in self.globals

    def tx_call(self, e, env):
        f = e.func
        if any(k.arg is None for k in e.keywords) or any(isinstance(a, ast.Starred) for a in e.args):
            fail(e, "*args / **kwargs")
        # reduce(Class.method, iterable, initial)
        if isinstance(f, ast.Name) and f.id == "reduce" and self.is_global("reduce", env):
            return self.tx_reduce(e, env)
        parts = [self.tx(a, env) for a in e.args]
        kparts = {k.arg: self.tx(k.value, env) for k in e.keywords}
        pre = [b for p, _, _ in parts for b in p] + [b for p, _, _ in kparts.values() for b in p]
        tys = [rt(t) for _, _, t in parts]
        if isinstance(f, ast.Name):
            if f.id in env:
                fail(e, "call of a local")
            if f.id in self.w.ctors and self.is_global(f.id, env):
                name, params = self.w.ctors[f.id]
                full = self.fill_args(e, f.id, params, parts, kparts)
                return pre, "(" + " ".join([name] + full) + ")", TAGS[f.id]
            if f.id == "PolyhedralTerm" and self.is_global(f.id, env):
                params = [("variables", "DV", None), ("constant", "F", None)]
                full = self.fill_args(e, f.id, params, parts, kparts)
                return pre, f"(PolyhedralTerm_init {full[0]} {full[1]})", "PT"
            if f.id in self.w.funcs and self.is_global(f.id, env):
                return self.do_call(e, self.w.funcs[f.id], None, parts, kparts, pre)
            if kparts:
                fail(e, f"keyword arguments in a call of {f.id}")
            if f.id == "len" and len(parts) == 1:
                if isinstance(tys[0], str) and tys[0].startswith("L:"):
                    return pre, f"(zlen {parts[0][1]})", "Z"
                if tys[0] in ("D", "DV"):
                    return pre, f"(dict_len {parts[0][1]})", "Z"
                if tys[0] == "TOK":
                    tmp = self.fresh()
                    return pre + [(tmp, f"tok_len {parts[0][1]}")], tmp, "Z"
            if f.id == "sorted" and tys == ["D"]:
                return pre, f"(py_sorted (dict_keys {parts[0][1]}))", "L:S"
            if f.id == "Var" and tys == ["S"] and self.is_global("Var", env):
                return pre, f"(Var {parts[0][1]})", "V"
            if f.id == "str" and len(parts) == 1 and tys[0] in ("ABS", "STL"):
                self.note("str(x) of a syntax object is the opaque value tt (only collected into a list whose length "
                          "is tested, and put into exception messages); the __repr__ it runs is checked to be the "
                          "pinned, total one")
                return pre, f"(py_str {parts[0][1]})", "MSG"
            fail(e, f"call to {f.id} on {tys}")
        if not isinstance(f, ast.Attribute):
            fail(e, "call form")
        m = f.attr
        if isinstance(f.value, ast.Name) and f.value.id not in env:
            fail(e, f"call to {f.value.id}.{m}")
        p0, c0, t0 = self.tx(f.value, env)
        t0 = rt(t0)
        pre = p0 + pre
        if m == "copy" and not parts and not kparts and (t0 in ("D", "DV") or isinstance(t0, str) and t0.startswith("L:")):
            self.note("d.copy() / l.copy() is the identity (value model); the copy is an object of its own, which the "
                      "function may then update in place")
            return pre, c0, t0
        if m == "asList" and t0 == "TOK" and not parts and not kparts:
            self.note("tokens.asList(): nested ParseResults stay groups (Python converts them to lists); only "
                      "isinstance tests for dataclasses, str and float are allowed on its elements")
            tmp = self.fresh()
            return pre + [(tmp, f"tok_as_list {c0}")], tmp, "L:TOKA"
        if (t0, m) in self.w.methods:
            return self.do_call(e, self.w.methods[(t0, m)], c0, parts, kparts, pre)
        fail(e, f"method {m} on a value of type {t0}")

    def tx_reduce(self, e, env):
        if len(e.args) != 3 or e.keywords:
            fail(e, "reduce form (function, iterable, initial)")
        fn, it, init = e.args
        if not (isinstance(fn, ast.Attribute) and isinstance(fn.value, ast.Name) and fn.value.id in TAGS
                and self.is_global(fn.value.id, env) and (TAGS[fn.value.id], fn.attr) in self.w.methods):
            fail(e, "reduce over something else than a translated method Class.method")
        tag = TAGS[fn.value.id]
        name, mon, params, rty = self.w.methods[(tag, fn.attr)]
        if len(params) != 1 or params[0][1] != tag or rty != tag or tag != "STL":
            fail(e, f"reduce({fn.value.id}.{fn.attr}, ...) : unsupported signature")
        pi, ci, ti = self.tx(it, env)
        p0, c0, t0 = self.tx(init, env)
        if rt(t0) != tag:
            fail(e, f"initial value of type {rt(t0)}")
        pre = pi + p0
        if rt(ti) == "TOK":
            items = self.fresh()
            pre.append((items, f"tok_items {ci}"))
            self.note(f"reduce({fn.value.id}.{fn.attr}, group, init): an element of the group that is not a "
                      f"{fn.value.id} is rendered as Escape \"AttributeError\" at the call (checked on the real code: "
                      "str, float, ParseResults and the other dataclasses all raise AttributeError at the first "
                      "attribute access of the method, before any effect)")
            call = f"{name} acc_ x_"
            step = f"r_ <- {call} ;; ret (Continue r_)" if mon else f"ret (Continue ({call}))"
            tmp = self.fresh()
            pre.append((tmp, f"for_list_m {items} {c0} (fun acc_ x_ => x_ <- tok_as_term_list x_ ;; {step})"))
            return pre, tmp, tag
        if rt(ti) == "L:" + tag:
            call = f"{name} acc_ x_"
            if mon:
                tmp = self.fresh()
                pre.append((tmp, f"for_list_m {ci} {c0} (fun acc_ x_ => r_ <- {call} ;; ret (Continue r_))"))
                return pre, tmp, tag
            return pre, f"(for_list {ci} {c0} (fun acc_ x_ => Continue ({call})))", tag
        fail(e, f"reduce over a value of type {rt(ti)}")


    # ---------------------------------------------------------------- tests (if / assert)
    def inst(self, call, env):
        """isinstance(NAME, T) on a dynamically typed name -> (python name, coq name, constructor, narrowed type)"""
        if not (isinstance(call, ast.Call) and isinstance(call.func, ast.Name) and call.func.id == "isinstance"
                and "isinstance" not in env and len(call.args) == 2 and not call.keywords
                and isinstance(call.args[0], ast.Name)):
            return None
        name = call.args[0].id
        c, t = self.lookup(call.args[0], env)
        t = rt(t)
        cls = ast.unparse(call.args[1])
        if any(isinstance(n, ast.Name) and n.id in env for n in ast.walk(call.args[1])):
            fail(call, "isinstance against a local")
        if t in ("TOK", "TOKA"):
            table = {"str": ("TokStr", "S"), "float": ("TokFloat", "F"), EXPR: ("TokExpr", "EXPR")}
            for k, v in TAGS.items():
                if v in INJ:
                    table[k] = (INJ[v], v)
            if cls == "pp.ParseResults" and t == "TOK":
                return name, c, "TokGroup", None
            if cls in table and (cls in ("str", "float") or cls in self.globals):
                return name, c, table[cls][0], table[cls][1]
        elif t == "EXPR" and cls in EXPR_SUBS and cls in self.globals:
            return name, c, "Expr_Eql" if TAGS[cls] == "EQL" else "Expr_Ineq", TAGS[cls]
        fail(call, f"isinstance({name}: {t}, {cls})")

    def inst_shell(self, parts, env):
        env_then = env
        for name, c, ctor, new in parts:
            if new is not None:
                env_then = self.forget(dict(env_then), name)
                env_then[name] = new
                if self.parse_action and new in ("STL", "ABS", "ATL"):
                    self.note("parse actions: a token object (narrowed by isinstance) is referred to by nothing else "
                              "(pyparsing builds fresh results; no memoisation), so its in-place update by a parse "
                              "action is rendered as building the updated value")
                    env_then = self.with_owned(env_then, name, True)

        def render(a, b, ind, parts=parts):
            if not parts:
                return a
            (name, c, ctor, new), rest = parts[0], parts[1:]
            pat = f"{ctor} {c}" if new is not None else f"{ctor} _"
            inner = render(a, b, ind + "  ", rest) if rest else a
            return f"{ind}match {c} with\n{ind}| {pat} =>\n{inner}\n{ind}| _ =>\n{b}\n{ind}end"

        return Shell([], render, env_then, env)

    def shell_special(self, test, env):
        p = self.inst(test, env)
        if p is not None:
            return self.inst_shell([p], env)
        if (isinstance(test, ast.BinOp) and isinstance(test.op, ast.BitAnd)) or \
                (isinstance(test, ast.BoolOp) and isinstance(test.op, ast.And) and len(test.values) == 2):
            a, b = (test.left, test.right) if isinstance(test, ast.BinOp) else test.values
            pa = self.inst(a, env) if isinstance(a, ast.Call) and ast.unparse(a.func) == "isinstance" else None
            pb = self.inst(b, env) if isinstance(b, ast.Call) and ast.unparse(b.func) == "isinstance" else None
            if pa is not None and pb is not None:
                if pa[0] == pb[0]:
                    fail(test, "two isinstance tests on the same name")
                return self.inst_shell([pa, pb], env)
            if pa is not None or pb is not None:
                fail(test, "isinstance combined with another test")
        if isinstance(test, ast.Compare) and len(test.ops) == 1 and isinstance(test.ops[0], (ast.Is, ast.IsNot)) \
                and isinstance(test.comparators[0], ast.Constant) and test.comparators[0].value is None:
            x = test.left
            pre, c, t = self.tx(x, env)
            if rt(t) != "OF" or pre:
                fail(test, f"`is None` on a value of type {rt(t)}")
            key = ast.unparse(x)
            if isinstance(x, ast.Name):
                v = c
                env_some = self.forget(dict(env), x.id)
                env_some[x.id] = "F"
            elif self.path_of(x) is not None and self.path_of(x)[0] in env:
                v = self.fresh(x.attr)
                env_some = self.with_narrow(env, key, (v, "F"))
            else:
                fail(test, "`is None` on something else than a name or an attribute path")
            is_none = isinstance(test.ops[0], ast.Is)

            def render(a, b, ind):
                none_txt, some_txt = (a, b) if is_none else (b, a)
                return f"{ind}match {c} with\n{ind}| None =>\n{none_txt}\n{ind}| Some {v} =>\n{some_txt}\n{ind}end"

            return Shell([], render, env if is_none else env_some, env_some if is_none else env)
        return None

    def shell(self, test, env):
        if isinstance(test, ast.UnaryOp) and isinstance(test.op, ast.Not):
            inner = self.shell_special(test.operand, env)
            if inner is not None:
                return Shell(inner.pre, lambda a, b, ind: inner.render(b, a, ind), inner.env_else, inner.env_then)
        sp = self.shell_special(test, env)
        if sp is not None:
            return sp
        pre, c, t = self.tx(test, env)
        if rt(t) != "B" and isinstance(rt(t), str) and rt(t).startswith("L:") and isinstance(test, ast.Name):
            # `if l:` on a list is `if len(l) > 0:` -- rendered through that spelling, so both give the same text
            spelled = ast.copy_location(ast.Compare(left=ast.Call(func=ast.Name(id="len", ctx=ast.Load()), args=[test], keywords=[]),
                                                    ops=[ast.Gt()], comparators=[ast.Constant(value=0)]), test)
            ast.fix_missing_locations(spelled)
            pre, c, t = self.tx(spelled, env)
        if rt(t) != "B":
            fail(test, f"truthiness of a value of type {rt(t)}")
        env2 = self.escaped(env, test)
        return Shell(pre, lambda a, b, ind: f"{ind}if {c} then\n{a}\n{ind}else\n{b}", env2, env2)

    # ---------------------------------------------------------------- statements
    def msg_total(self, node, env):
        """an expression that only goes into a message / a log line must be built from total operations"""
        for n in ast.walk(node):
            if isinstance(n, ast.Call):
                if isinstance(n.func, ast.Name) and n.func.id in {"type", "str", "len", "repr"} and n.func.id not in env \
                        and not n.keywords:
                    continue
                fail(n, "call in a message not known to be total")
            if isinstance(n, (ast.Name, ast.Attribute, ast.Constant, ast.BinOp, ast.Tuple, ast.List, ast.Load, ast.Mod,
                              ast.Add, ast.JoinedStr, ast.FormattedValue)):
                continue
            fail(n, "construct in a message not known to be total")

    def is_dropped(self, s, env) -> bool:
        if isinstance(s, ast.Expr):
            v = s.value
            if isinstance(v, ast.Constant) and isinstance(v.value, str):
                return True
            if isinstance(v, ast.Call) and isinstance(v.func, ast.Attribute) and isinstance(v.func.value, ast.Name) \
                    and v.func.value.id == "logging" and self.is_global("logging", env) \
                    and v.func.attr in {"debug", "info", "warning", "error"}:
                for a in v.args:
                    self.msg_total(a, env)
                if v.keywords:
                    fail(s, "keyword argument of a logging call")
                return True
        return False

    def terminates(self, stmts) -> bool:
        if not stmts:
            return False
        s = stmts[-1]
        if isinstance(s, (ast.Raise, ast.Return, ast.Break)):
            return True
        if isinstance(s, ast.If):
            return bool(s.orelse) and self.terminates(s.body) and self.terminates(s.orelse)
        return False

    def assigned(self, stmts) -> List[str]:
        """local names (re)bound or updated in place by the statements, in order of first occurrence"""
        out: List[str] = []

        def add(n):
            if n not in out:
                out.append(n)

        def target(n):
            if isinstance(n, ast.Name):
                add(n.id)
            elif isinstance(n, ast.Tuple):
                for x in n.elts:
                    target(x)
            elif isinstance(n, (ast.Subscript, ast.Attribute)):
                base = n.value
                while isinstance(base, (ast.Attribute, ast.Subscript)):
                    base = base.value
                if isinstance(base, ast.Name):
                    add(base.id)
                else:
                    fail(n, "assignment target")
            else:
                fail(n, "assignment target")

        for s in stmts:
            if isinstance(s, ast.Assign):
                for t in s.targets:
                    target(t)
            elif isinstance(s, (ast.AugAssign, ast.AnnAssign)):
                target(s.target)
            elif isinstance(s, ast.Expr) and isinstance(s.value, ast.Call) and isinstance(s.value.func, ast.Attribute) \
                    and s.value.func.attr in {"append", "pop"}:
                target(ast.Attribute(value=s.value.func.value, attr="_", ctx=ast.Store()))
            elif isinstance(s, ast.If):
                for n in self.assigned(s.body) + self.assigned(s.orelse):
                    add(n)
            elif isinstance(s, ast.For):
                for n in self.assigned(s.body):
                    add(n)
            elif isinstance(s, (ast.While, ast.Try, ast.With, ast.Match, ast.FunctionDef, ast.ClassDef, ast.Delete,
                                ast.Global, ast.Nonlocal, ast.Import, ast.ImportFrom)):
                fail(s, "statement form")
        return out

    def definitely(self, stmts) -> set:
        """plain names assigned on every path through the statements"""
        out = set()
        for s in stmts:
            if isinstance(s, (ast.Assign, ast.AnnAssign)):
                for t in (s.targets if isinstance(s, ast.Assign) else [s.target]):
                    if isinstance(t, ast.Name) and (isinstance(s, ast.Assign) or s.value is not None):
                        out.add(t.id)
            elif isinstance(s, ast.If) and s.orelse:
                out |= self.definitely(s.body) & self.definitely(s.orelse)
        return out

    @staticmethod
    def used(stmts) -> set:
        return {n.id for s in stmts for n in ast.walk(s) if isinstance(n, ast.Name)}

    def block(self, stmts, env, ind, ctx: Ctx) -> str:
        if not stmts:
            return ctx.fall(env, ind)
        s, rest = stmts[0], list(stmts[1:])
        if self.is_dropped(s, env):
            return self.block(rest, env, ind, ctx)
        if isinstance(s, ast.Return):
            if rest:
                fail(s, "statements after return")
            if not ctx.ret_ok:
                fail(s, "return inside a loop or inside branches that are joined")
            if s.value is None:
                fail(s, "bare return")
            pre, c, t = self.tx(s.value, env)
            if self.parse_action and rt(t) == "TOK" and self.rtype == "F":
                raise Retype("TOK")
            c2 = self.coerce(c, t, self.rtype, s, "returned value")
            if pre and pre[-1][0] == c and c2 == c:
                self.need_monad(c)
                return self.emit_binds(pre[:-1], f"{ind}{pre[-1][1]}", ind)
            return self.emit_binds(pre, f"{ind}{self.ret(c2)}", ind)
        if isinstance(s, ast.Raise):
            if rest:
                fail(s, "statements after raise")
            return self.tr_raise(s, env, ind)
        if isinstance(s, ast.Break):
            if rest:
                fail(s, "statements after break")
            if ctx.brk is None:
                fail(s, "break outside a loop body (or inside joined branches)")
            return ctx.brk(env, ind)
        if isinstance(s, ast.Assert):
            if s.msg is not None:
                self.msg_total(s.msg, env)
            sh = self.shell(s.test, env)
            self.need_monad("assert")
            self.note("a failed `assert` is Escape \"AssertionError\" (python -O is not modelled)")
            then_txt = self.block(rest, sh.env_then, ind + "  ", ctx)
            else_txt = f'{ind}  raise (Escape "AssertionError")'
            return self.emit_binds(sh.pre, sh.render(then_txt, else_txt, ind), ind)
        if isinstance(s, ast.AnnAssign):
            if s.value is None:
                fail(s, "annotated assignment without a value")
            ann = ast.unparse(s.annotation)
            if ann not in ANNOT:
                fail(s, f"unknown annotation {ann}")
            return self.tr_assign(s.target, s.value, rest, env, ind, ctx, s, hint=ANNOT[ann])
        if isinstance(s, ast.Assign):
            if len(s.targets) != 1:
                fail(s, "multiple assignment targets")
            return self.tr_assign(s.targets[0], s.value, rest, env, ind, ctx, s)
        if isinstance(s, ast.AugAssign):
            return self.tr_augassign(s, rest, env, ind, ctx)
        if isinstance(s, ast.Expr):
            return self.tr_expr_stmt(s, rest, env, ind, ctx)
        if isinstance(s, ast.If):
            return self.tr_if(s, rest, env, ind, ctx)
        if isinstance(s, ast.For):
            return self.tr_for(s, rest, env, ind, ctx)
        fail(s, "statement form")

    def tr_raise(self, s, env, ind):
        exc = s.exc
        if s.cause is not None:
            fail(s, "raise ... from")
        if isinstance(exc, ast.Call) and isinstance(exc.func, ast.Name) and not exc.keywords:
            name = exc.func.id
            for a in exc.args:
                self.msg_total(a, env)
            if exc.args:
                self.note("exception messages are dropped (checked to be built from total operations: names, "
                          "attributes, f-strings, type(), str(), len()); the exception TYPE is kept")
        elif isinstance(exc, ast.Name):
            name = exc.id
        else:
            fail(s, "raise form")
        if name not in ERRKIND or name in env or (name not in ("ValueError", "AssertionError") and name not in self.globals):
            fail(s, f"exception class {name}")
        self.need_monad("raise")
        return f"{ind}raise {ERRKIND[name]}"

    def bind_value(self, name, pre, c, ind):
        if pre and pre[-1][0] == c:
            return self.emit_binds(pre[:-1], "", ind) + self.emit_binds([(name, pre[-1][1])], "", ind)
        return self.emit_binds(pre, f"{ind}let {name} := {c} in\n", ind)

    def require_owned(self, node, name, env, what):
        if name not in self.owned(env):
            fail(node, f"in-place {what} of `{name}`, which is not known to be an object of this function's own "
                       "(not built by a literal, a comprehension or .copy() here, or passed on / aliased since)")

    def store_target(self, tgt, env):
        """an attribute path NAME.a.b or NAME.a.b[k] / NAME[k] that is updated in place.
        Returns (root name, prebinds, reader of the current value or None, builder: new value -> new root value, type)."""
        if isinstance(tgt, ast.Attribute):
            po = self.path_of(tgt)
            if po is None or not po[1]:
                fail(tgt, "assignment target")
            root, attrs = po
            rc, rty = self.lookup(ast.Name(id=root, ctx=ast.Load()), env)
            self.require_owned(tgt, root, env, "attribute update")
            t = rt(rty)
            for a in attrs:
                if (t, a) not in self.w.fields:
                    fail(tgt, f"attribute {a} of type {t}")
                t = self.w.fields[(t, a)][1]
            return root, [], (lambda new: self.rebuild(rc, rt(rty), attrs, new, tgt)), t
        if isinstance(tgt, ast.Subscript):
            if isinstance(tgt.slice, ast.Slice):
                fail(tgt, "slice assignment")
            pk, ck, tk = self.tx(tgt.slice, env)
            if rt(tk) not in ("S", "V"):
                fail(tgt, f"dict key of type {rt(tk)}")
            base = tgt.value
            po = self.path_of(base)
            if po is None:
                fail(tgt, "subscript assignment target")
            root, attrs = po
            self.require_owned(tgt, root, env, "item update")
            pd, cd, td = self.tx(base, env)
            if pd or rt(td) not in ("D", "DV"):
                fail(tgt, f"item assignment on a value of type {rt(td)}")
            rc, rty = self.lookup(ast.Name(id=root, ctx=ast.Load()), env)
            return root, pk, (lambda newdict: self.rebuild(rc, rt(rty), attrs, newdict, tgt)), ("ITEM", cd, ck)
        fail(tgt, "assignment target")

    def tr_assign(self, tgt, value, rest, env, ind, ctx, node, hint=None):
        if isinstance(tgt, ast.Name):
            if tgt.id == "self" or tgt.id.startswith("%") or tgt.id in self.globals:
                fail(node, f"assignment to {tgt.id} (self or a module-level name)")
            pre, c, t = self.tx(value, env)
            if hint is not None:
                c = self.coerce(c, t, hint, node, f"annotated assignment to {tgt.id}")
                t = hint
            t0 = rt(t)
            if t0 in ("NONE", "ZL"):
                fail(node, f"assignment of a {t0} value without an annotation")
            env2 = self.forget(dict(env), tgt.id)
            env2[tgt.id] = t
            env2 = self.escaped(env2, value)
            env2 = self.with_owned(env2, tgt.id, self.is_fresh(value))
            if isinstance(value, ast.Name):
                env2 = self.with_owned(env2, value.id, False)       # a second name for the same object
            return self.bind_value(cid(tgt.id), pre, c, ind) + self.block(rest, env2, ind, ctx)
        if hint is not None:
            fail(node, "annotated assignment to something else than a name")
        pre, c, t = self.tx(value, env)
        root, pk, build, ty = self.store_target(tgt, env)
        if isinstance(ty, tuple):
            _, cd, ck = ty
            new = build(f"(dict_set {cd} {ck} {self.coerce(c, t, 'F', node, 'dict value')})")
        else:
            new = build(self.coerce(c, t, ty, node, "assigned attribute"))
        env2 = self.escaped(self.forget(env, root), value)
        return self.emit_binds(pre + pk, f"{ind}let {cid(root)} := {new} in\n", ind) + self.block(rest, env2, ind, ctx)

    def tr_augassign(self, s, rest, env, ind, ctx):
        tgt = s.target
        opn = {ast.Add: "qadd", ast.Sub: "qsub", ast.Mult: "qmul"}.get(type(s.op)) or fail(s, "augmented operator")
        if isinstance(tgt, ast.Name):
            cur, t = self.lookup(tgt, env)
            if rt(t) != "F":
                fail(s, f"augmented assignment to a name of type {rt(t)}")
            pre, c, tv = self.tx(s.value, env)
            c = self.coerce(c, tv, "F", s, "operand")
            return self.emit_binds(pre, f"{ind}let {cur} := ({opn} {cur} {c}) in\n", ind) + self.block(rest, env, ind, ctx)
        root, pk, build, ty = self.store_target(tgt, env)
        if isinstance(ty, tuple):
            # d[k] op= e : evaluates d, k, loads d[k] (KeyError if absent), then e, then stores
            _, cd, ck = ty
            old = self.fresh()
            pre, c, tv = self.tx(s.value, env)
            c = self.coerce(c, tv, "F", s, "operand")
            new = build(f"(dict_set {cd} {ck} ({opn} {old} {c}))")
            binds = pk + [(old, f"dict_get {cd} {ck}")] + pre
        else:
            load = ast.Attribute(value=tgt.value, attr=tgt.attr, ctx=ast.Load())
            ast.copy_location(load, tgt)
            p0, cur, tcur = self.tx(load, env)
            if rt(tcur) != "F" or ty not in ("F", "OF"):
                fail(s, f"augmented assignment to an attribute of type {rt(tcur)}")
            pre, c, tv = self.tx(s.value, env)
            c = self.coerce(c, tv, "F", s, "operand")
            new = build(self.coerce(f"({opn} {cur} {c})", "F", ty, s, "assigned attribute"))
            binds = p0 + pre
        env2 = self.forget(env, root)
        return self.emit_binds(binds, f"{ind}let {cid(root)} := {new} in\n", ind) + self.block(rest, env2, ind, ctx)

    def tr_expr_stmt(self, s, rest, env, ind, ctx):
        v = s.value
        if isinstance(v, ast.Call) and isinstance(v.func, ast.Attribute) and not v.keywords and len(v.args) == 1 \
                and isinstance(v.func.value, ast.Name) and v.func.value.id in env:
            m, base = v.func.attr, v.func.value
            cb, tb = self.lookup(base, env)
            if m == "append" and (isinstance(rt(tb), TV) or str(rt(tb)).startswith("L:")):
                self.require_owned(s, base.id, env, "append")
                pre, c, t = self.tx(v.args[0], env)
                if isinstance(rt(tb), TV):
                    if rt(t) in ("ZL", "NONE") or isinstance(rt(t), TV):
                        fail(s, f"append of a {rt(t)} value to a list of undetermined type")
                    self.unify(tb, "L:" + rt(t), s)
                c = self.coerce(c, t, rt(tb)[2:], s, "appended value")
                self.note("l.append(x) on a list built in the same function (checked: a literal, a comprehension or "
                          ".copy(); not aliased, not passed on) is the rebinding l := l ++ [x]")
                env2 = self.escaped(env, v.args[0])
                return self.emit_binds(pre, f"{ind}let {cb} := py_append {cb} {c} in\n", ind) \
                    + self.block(rest, env2, ind, ctx)
            if m == "pop" and rt(tb) in ("D", "DV"):
                self.require_owned(s, base.id, env, "pop")
                pk, ck, tk = self.tx(v.args[0], env)
                if rt(tk) not in ("S", "V"):
                    fail(s, f"dict key of type {rt(tk)}")
                tmp = self.fresh("d")
                return self.emit_binds(pk + [(tmp, f"dict_pop_m {cb} {ck}")], f"{ind}let {cb} := {tmp} in\n", ind) \
                    + self.block(rest, env, ind, ctx)
        if isinstance(v, ast.Call) and isinstance(v.func, ast.Name) and v.func.id in self.w.funcs \
                and self.is_global(v.func.id, env) and self.w.funcs[v.func.id][3] == "U":
            pre, c, t = self.tx(v, env)
            env2 = self.escaped(env, v)
            if pre and pre[-1][0] == c:
                return self.emit_binds(pre[:-1] + [("_", pre[-1][1])], "", ind) + self.block(rest, env2, ind, ctx)
            return self.emit_binds(pre, "", ind) + self.block(rest, env2, ind, ctx)
        fail(s, "expression statement")

    def join(self, s, names, pre, branch_texts, env, rest, ind, ctx, dead):
        """bind the joined names to the tuple the branches computed (two passes: types first, then the text)"""
        val = "tt" if not names else (cid(names[0]) if len(names) == 1 else "(" + ", ".join(cid(n) for n in names) + ")")
        pat = "_" if not names else (val if len(names) == 1 else "'" + val)
        state = {}

        def thunk():
            envs: List[dict] = []

            def run(jt):
                del envs[:]

                def fall(env2, i2):
                    envs.append(env2)
                    vals = []
                    for n in names:
                        c, t = self.lookup(ast.Name(id=n, ctx=ast.Load()), env2)
                        vals.append(self.coerce(c, t, jt[n], s, f"joined variable {n}") if jt else c)
                    v = "tt" if not vals else (vals[0] if len(vals) == 1 else "(" + ", ".join(vals) + ")")
                    return f"{i2}{self.ret(v)}"

                return branch_texts(Ctx(fall, None, False, ctx.live | set(names)))

            saved_tmp, saved_ass = self.tmp, list(self.w.assumptions)
            run(None)
            jt = {n: self.lub([e2[n] for e2 in envs], s, f"joined variable {n}") for n in names}
            self.tmp = saved_tmp
            self.w.assumptions[:] = saved_ass
            txt = run(jt)
            state["jt"], state["envs"] = jt, list(envs)
            return txt

        txt, mon = self.sub(thunk)
        env3 = dict(env)
        for n in names:
            env3 = self.forget(env3, n)
            env3[n] = state["jt"][n]
        for n in dead:
            env3 = self.forget(env3, n)
            env3[n] = "DEAD"
        own = self.owned(env)
        for e2 in state["envs"]:
            own = own & self.owned(e2)
        env3["%owned"] = own - set(dead)
        head = f"{ind}{pat} <-\n{txt} ;;\n" if mon else f"{ind}let {pat} :=\n{txt} in\n"
        return self.emit_binds(pre, head, ind) + self.block(rest, env3, ind, ctx)

    def tr_if(self, s, rest, env, ind, ctx):
        sh = self.shell(s.test, env)
        body, orelse = list(s.body), list(s.orelse)
        tb, te = self.terminates(body), self.terminates(orelse)
        ind2 = ind + "  "
        if tb and te and rest:
            fail(s, "unreachable code after if")
        if tb or te or not rest:
            then_txt = self.block(body + ([] if tb else rest), sh.env_then, ind2, ctx)
            else_txt = self.block(orelse + ([] if te else rest), sh.env_else, ind2, ctx)
            return self.emit_binds(sh.pre, sh.render(then_txt, else_txt, ind), ind)
        # both branches fall through and something follows: join on the names they assign that are needed later
        assigned = self.assigned(body + orelse)
        later = self.used(rest) | set(ctx.live)
        both = self.definitely(body) & self.definitely(orelse)
        names = [n for n in assigned if n in later and (n in env or n in both)]
        for n in assigned:
            if n in later and n not in names:
                fail(s, f"`{n}` is first bound inside one branch of an if and used afterwards")
        dead = [n for n in assigned if n not in names]
        ind3 = ind + "    "

        def branch_texts(jctx):
            then_txt = self.block(body, sh.env_then, ind3, jctx)
            else_txt = self.block(orelse, sh.env_else, ind3, jctx)
            return f"{ind}  (\n" + sh.render(then_txt, else_txt, ind + "   ") + ")"

        return self.join(s, names, sh.pre, branch_texts, env, rest, ind, ctx, dead)

    # ---------------------------------------------------------------- loops
    def loop_source(self, s, env):
        """-> (prebinds, coq list, binder pattern for the element, {loop variable: type})"""
        it, tgt = s.iter, s.target

        def two_names():
            if not (isinstance(tgt, ast.Tuple) and len(tgt.elts) == 2 and all(isinstance(x, ast.Name) for x in tgt.elts)):
                fail(s, "loop target (two names expected)")
            return tgt.elts[0].id, tgt.elts[1].id

        def elt(t, what):
            t = rt(t)
            if not (isinstance(t, str) and t.startswith("L:")):
                fail(s, f"{what}: iteration over a value of type {t}")
            return t[2:]

        src = self.items_source(it, env)
        if src is not None:
            a, b = two_names()
            return src[0], src[1], f"'({cid(a)}, {cid(b)})", {a: "S", b: "F"}
        if isinstance(it, ast.Call) and isinstance(it.func, ast.Name) and it.func.id not in env and not it.keywords:
            fn = it.func.id
            if fn == "enumerate" and len(it.args) == 1:
                a, b = two_names()
                p, c, t = self.tx(it.args[0], env)
                return p, f"(enumerate_z {c})", f"'({cid(a)}, {cid(b)})", {a: "Z", b: elt(t, "enumerate")}
            if fn == "zip" and len(it.args) == 2:
                a, b = two_names()
                (p1, c1, t1), (p2, c2, t2) = self.tx(it.args[0], env), self.tx(it.args[1], env)
                return p1 + p2, f"(py_zip {c1} {c2})", f"'({cid(a)}, {cid(b)})", {a: elt(t1, "zip"), b: elt(t2, "zip")}
        if isinstance(it, ast.Call) and isinstance(it.func, ast.Name) and it.func.id == "product" \
                and self.is_global("product", env) and len(it.args) == 1 and len(it.keywords) == 1 \
                and it.keywords[0].arg == "repeat" and isinstance(tgt, ast.Name):
            p1, c1, t1 = self.tx(it.args[0], env)
            p2, c2, t2 = self.tx(it.keywords[0].value, env)
            if rt(t1) != "L:B" or rt(t2) != "Z" or not (isinstance(it.keywords[0].value, ast.Call)
                                                      and ast.unparse(it.keywords[0].value.func) == "len"):
                fail(s, "itertools.product form (a list of bools, repeat=len(...))")
            return p1 + p2, f"(py_product_z {c1} {c2})", cid(tgt.id), {tgt.id: "L:B"}
        if not isinstance(tgt, ast.Name):
            fail(s, "loop target")
        p, c, t = self.tx(it, env)
        t = rt(t)
        if t in ("D", "DV"):
            return p, f"(dict_keys {c})", cid(tgt.id), {tgt.id: "S" if t == "D" else "V"}
        if t == "TOK":
            tmp = self.fresh()
            return p + [(tmp, f"tok_items {c}")], tmp, cid(tgt.id), {tgt.id: "TOK"}
        return p, c, cid(tgt.id), {tgt.id: elt(t, "for")}

    def value_update_loop(self, s, env):
        """`for k in E: E[k] op= e` : the body only replaces values at existing keys of the dict it iterates"""
        if not (isinstance(s.target, ast.Name) and len(s.body) == 1 and isinstance(s.body[0], (ast.AugAssign, ast.Assign))):
            return False
        st = s.body[0]
        tg = st.target if isinstance(st, ast.AugAssign) else (st.targets[0] if len(st.targets) == 1 else None)
        if not (isinstance(tg, ast.Subscript) and isinstance(tg.slice, ast.Name) and tg.slice.id == s.target.id
                and ast.unparse(tg.value) == ast.unparse(s.iter)):
            return False
        po = self.path_of(s.iter)
        if po is None:
            return False
        return not any(isinstance(n, ast.Name) and n.id == po[0] for n in ast.walk(st.value))

    def element_update_loop(self, s, rest, env, ind, ctx):
        """`for x in NAME.path: <assignments to attributes of x>` : the elements are updated in place"""
        po = self.path_of(s.iter)
        if po is None or not po[1] or not isinstance(s.target, ast.Name):
            return None
        x = s.target.id
        if self.assigned(list(s.body)) != [x] or any(isinstance(n, (ast.Break, ast.Return)) for st in s.body for n in ast.walk(st)):
            return None
        for n in ast.walk(ast.Module(body=list(s.body), type_ignores=[])):
            if isinstance(n, (ast.Assign, ast.AugAssign, ast.AnnAssign)):
                for t in (n.targets if isinstance(n, ast.Assign) else [n.target]):
                    if isinstance(t, ast.Name):
                        return None
            if isinstance(n, ast.Name) and n.id == po[0]:
                fail(s, "the body of an element-update loop refers to the object that holds the list")
        root, attrs = po
        pi, ci, ti = self.tx(s.iter, env)
        ti = rt(ti)
        if pi or not (isinstance(ti, str) and ti.startswith("L:") and ti[2:] in CLS):
            fail(s, f"element-update loop over a value of type {ti}")
        if x in env:
            fail(s, f"loop variable {x} shadows a local")
        self.require_owned(s, root, env, "update of the elements of a list")
        self.note("`for x in obj.lst: x.attr = e` (in-place update of the elements of a list held by an object this "
                  "function owns) is rendered as obj.lst := [updated x for x in obj.lst]")
        env2 = self.with_owned(dict(env), x, True)
        env2[x] = ti[2:]

        def thunk():
            def fall(e3, i3):
                if rt(e3.get(x)) != ti[2:]:
                    fail(s, "the loop variable changes type")
                return f"{i3}{self.ret(cid(x))}"
            return self.block(list(s.body), env2, ind + "    ", Ctx(fall, None, False, {x}))

        body, mon = self.sub(thunk)
        rc, rty = self.lookup(ast.Name(id=root, ctx=ast.Load()), env)
        tmp = self.fresh("l")
        new = self.rebuild(rc, rt(rty), attrs, tmp, s)
        if mon:
            txt = f"{ind}{tmp} <- py_map_m (fun {cid(x)} =>\n{body}) {ci} ;;\n"
        else:
            txt = f"{ind}let {tmp} := map (fun {cid(x)} =>\n{body}) {ci} in\n"
        env3 = self.forget(env, root)
        return txt + f"{ind}let {cid(root)} := {new} in\n" + self.block(rest, env3, ind, ctx)

    def tr_for(self, s, rest, env, ind, ctx):
        if s.orelse:
            fail(s, "for ... else")
        special = self.element_update_loop(s, rest, env, ind, ctx)
        if special is not None:
            return special
        pi, ci, pat_x, lvars = self.loop_source(s, env)
        env = self.escaped(env, s.iter)
        env2 = dict(env)
        for n, t in lvars.items():
            if n in env:
                fail(s, f"loop variable {n} shadows a local (it would stay bound after the loop)")
            env2[n] = t
        body_assigned = self.assigned(list(s.body))
        if set(body_assigned) & set(lvars):
            fail(s, "loop body rebinds the loop variable")
        if any(isinstance(n, ast.Return) for st in s.body for n in ast.walk(st)):
            fail(s, "return inside a loop")
        if not self.value_update_loop(s, env):
            for n in ast.walk(s.iter):
                if isinstance(n, ast.Name) and n.id in body_assigned:
                    fail(s, "loop body updates the object it iterates over")
        else:
            self.note("`for k in d: d[k] op= e` iterates the keys of d while replacing values at existing keys (no "
                      "insertion, no deletion: Python allows it); rendered as a loop over the keys read at loop entry")
        accs = [n for n in body_assigned if n in env]       # names first bound inside the body are local to it
        for n in body_assigned:
            if n not in env and n in (self.used(rest) | set(ctx.live)):
                fail(s, f"`{n}` is first bound inside a loop body and used after the loop")
        val = "tt" if not accs else (cid(accs[0]) if len(accs) == 1 else "(" + ", ".join(cid(n) for n in accs) + ")")
        pat = "_" if not accs else (val if len(accs) == 1 else "'" + val)
        envs: List[dict] = []

        def thunk():
            del envs[:]

            def leave(kind):
                def k(e3, i3):
                    envs.append(e3)
                    vals = []
                    for n in accs:
                        c, t = self.lookup(ast.Name(id=n, ctx=ast.Load()), e3)
                        vals.append(self.coerce(c, t, rt(env[n]), s, f"loop-carried variable {n}"))
                    v = "tt" if not vals else (vals[0] if len(vals) == 1 else "(" + ", ".join(vals) + ")")
                    return f"{i3}{self.ret(f'({kind} {v})')}"
                return k

            return self.block(list(s.body), env2, ind + "    ", Ctx(leave("Continue"), leave("Break"), False,
                                                                      set(ctx.live) | set(accs)))

        for n in accs:
            if isinstance(rt(env[n]), TV):
                # an empty list whose element type is fixed by the body: translate once to learn it
                saved_tmp, saved_ass, saved_mon = self.tmp, list(self.w.assumptions), self.monadic
                self.monadic = True
                try:
                    thunk()
                finally:
                    self.tmp, self.monadic = saved_tmp, saved_mon
                    self.w.assumptions[:] = saved_ass
                break
        body, mon = self.sub(thunk)
        env3 = dict(env)
        own = self.owned(env)
        for e3 in envs:
            own = own & self.owned(e3)
        env3["%owned"] = own
        for n in accs:
            env3 = self.forget(env3, n)
        prim = "for_list_m" if mon else "for_list"
        call = f"{prim} {ci} {val} (fun {pat} {pat_x} =>\n{body})"
        txt = f"{ind}{pat} <- {call} ;;\n" if mon else f"{ind}let {pat} := {call} in\n"
        return self.emit_binds(pi, txt, ind) + self.block(rest, env3, ind, ctx)

    # ---------------------------------------------------------------- whole function
    def translate(self, params, rtype, selfty=None) -> Tuple[str, bool, str]:
        env0 = {n: t for n, t, _ in params}
        env0["%owned"] = frozenset()
        if selfty is not None:
            env0["self"] = selfty

        def end(env, ind):
            if self.rtype == "U":
                return f"{ind}{self.ret('tt')}"
            fail(self.f, "function falls off the end (returns None)")

        def run(mon, rty):
            self.tmp, self.monadic, self.rtype = 0, mon, rty
            return self.block(list(self.f.body), dict(env0), "  ", Ctx(end, None, True))

        saved = list(self.w.assumptions)
        for _ in range(2):
            try:
                try:
                    return run(False, rtype), False, rtype
                except NeedMonad:
                    self.w.assumptions[:] = saved
                    return run(True, rtype), True, rtype
            except Retype as r:
                self.w.assumptions[:] = saved
                self.note(f"{self.where}: annotated `-> float` but returns the dynamically typed token it computed "
                          "(annotations are not enforced): the translated function returns a token")
                saved = list(self.w.assumptions)
                rtype = r.args[0]
        fail(self.f, "return type")


class Retype(Exception):
    pass



# ================================================================ modules
def annot_text(a) -> Optional[str]:
    if a is None:
        return None
    if isinstance(a, ast.Constant) and isinstance(a.value, str):
        return a.value
    return ast.unparse(a)


def pin(fdef) -> str:
    return hashlib.sha256(norm_dump(fdef).encode()).hexdigest()


def check_module(mod, path, imports_wanted, used_names, fun_names, class_names, allowed_assign=()):
    """module-level discipline: the names the translated functions rely on are what we think they are"""
    imported = n_imports(mod)
    for name, want in imports_wanted.items():
        if imported.get(name) != want:
            raise Unsupported(f"{path}: module-level name {name} is {imported.get(name)}, expected {want}")
    defs = [n.name for n in mod.body if isinstance(n, (ast.FunctionDef, ast.ClassDef))]
    for n in mod.body:
        if isinstance(n, (ast.AsyncFunctionDef, ast.Global, ast.Delete, ast.Try, ast.With, ast.For, ast.While, ast.If)):
            fail(n, f"{path}: module-level statement")
    for name in list(fun_names) + list(class_names):
        if defs.count(name) != 1:
            raise Unsupported(f"{path}: {name} defined {defs.count(name)} times")
    protected = set(used_names) | set(fun_names) | set(class_names) | set(imports_wanted)
    for name in protected:
        if name in defs and name not in fun_names and name not in class_names:
            raise Unsupported(f"{path}: module-level redefinition of {name}")
    for n in ast.walk(mod):
        # any binding of a protected name outside its one definition (assignment, loop target, import alias, ...)
        if isinstance(n, ast.Name) and isinstance(n.ctx, (ast.Store, ast.Del)) and n.id in protected:
            inside = any(n in list(ast.walk(f)) for f in mod.body if isinstance(f, (ast.FunctionDef, ast.ClassDef)))
            if not inside:
                raise Unsupported(f"{path}: module-level rebinding of {n.id}")
        if isinstance(n, ast.Call) and isinstance(n.func, ast.Name) and n.func.id in ("setattr", "exec", "eval", "globals"):
            raise Unsupported(f"{path}: call of {n.func.id}")
        if isinstance(n, (ast.Global, ast.Nonlocal)):
            raise Unsupported(f"{path}: global/nonlocal statement")
    for name, want in imported.items():
        if name in protected and name not in imports_wanted:
            raise Unsupported(f"{path}: {name} is imported ({want}) and shadows a name the translation relies on")
    for n in mod.body:
        if isinstance(n, (ast.Assign, ast.AnnAssign, ast.AugAssign)):
            for t in (n.targets if isinstance(n, ast.Assign) else [n.target]):
                for x in ast.walk(t):
                    if isinstance(x, ast.Attribute):
                        raise Unsupported(f"{path}: module-level attribute assignment {ast.unparse(n)[:80]}")
    return imported


def logging_name(mod) -> set:
    """{"logging"} when the module imports the standard logging module under that name and binds it nowhere else"""
    if n_imports(mod).get("logging") != "logging":
        return set()
    for n in ast.walk(mod):
        if isinstance(n, ast.Name) and n.id == "logging" and isinstance(n.ctx, (ast.Store, ast.Del)):
            return set()
        if isinstance(n, (ast.FunctionDef, ast.ClassDef)) and n.name == "logging":
            return set()
        if isinstance(n, ast.arg) and n.arg == "logging":
            return set()
    return {"logging"}


def signature(f: ast.FunctionDef, where: str, method: bool):
    a = f.args
    if a.vararg or a.kwarg or a.kwonlyargs or a.posonlyargs or a.defaults or a.kw_defaults:
        raise Unsupported(f"signature of {where} (defaults / *args / keyword-only are not supported)")
    args = list(a.args)
    if method:
        if not args or args[0].arg != "self":
            raise Unsupported(f"signature of {where}: first parameter must be self")
        args = args[1:]
    params = []
    for arg in args:
        ann = annot_text(arg.annotation)
        if ann not in ANNOT:
            fail(arg, f"annotation {ann} of parameter {arg.arg} of {where}")
        params.append((arg.arg, ANNOT[ann], None))
    rann = annot_text(f.returns)
    if rann not in ANNOT:
        fail(f, f"return annotation {rann} of {where}")
    if f.decorator_list:
        raise Unsupported(f"decorators of {where}")
    return params, ANNOT[rann]


def define(w: World, f: ast.FunctionDef, where: str, coqname: str, params, rtype, selfty, globals_, parse_action):
    strip_doc(f)
    body, mon, rty = P.with_fallback(f, lambda fd: SynFn(w, fd, where, globals_, parse_action).translate(params, rtype, selfty))
    ps = ([("self", selfty)] if selfty else []) + [(cid(n), t) for n, t, _ in params]
    sig = " ".join(f"({n} : {coqty(t)})" for n, t in ps)
    r = coqty(rty)
    r = f"({r})" if " " in r else r
    pysig = next(l for l in ast.unparse(f).split("\n") if l.startswith("def "))
    text = f"(* {pysig} *)\nDefinition {coqname} {sig} : {'M ' + r if mon else r} :=\n{body}.\n\n"
    return text, mon, rty


def gen_dataclasses(w: World, mod, order) -> str:
    out = ""
    # --- the enum
    en = class_def(mod, ENUM)
    if [ast.unparse(b) for b in en.bases] != ["Enum"] or en.decorator_list or en.keywords:
        raise Unsupported(f"{ENUM} is expected to be a plain Enum")
    members = []
    for n in en.body:
        if isinstance(n, ast.Expr) and isinstance(n.value, ast.Constant) and isinstance(n.value.value, str):
            continue
        if isinstance(n, ast.Assign) and len(n.targets) == 1 and isinstance(n.targets[0], ast.Name) \
                and isinstance(n.value, ast.Constant) and isinstance(n.value.value, int):
            members.append((n.targets[0].id, n.value.value))
        else:
            fail(n, f"class-level statement in {ENUM}")
    if len({v for _, v in members}) != len(members) or len({k for k, _ in members}) != len(members) or not members:
        raise Unsupported(f"{ENUM}: members must have distinct names and values (equal values would be aliases)")
    for k, _ in members:
        w.enum[k] = f"{ENUM}_{k}"
    out += f"(* class {ENUM}(Enum): {', '.join(f'{k} = {v}' for k, v in members)} *)\n"
    out += f"Inductive {ENUM} : Type := " + " | ".join(w.enum[k] for k, _ in members) + ".\n"
    out += (f"Definition {ENUM}_eqb (a b : {ENUM}) : bool :=\n  match a, b with\n"
            + "".join(f"  | {w.enum[k]}, {w.enum[k]} => true\n" for k, _ in members) + "  | _, _ => false\n  end.\n\n")
    # --- the base class of the expressions
    base = class_def(mod, EXPR)
    if base.bases or [ast.unparse(d) for d in base.decorator_list] != ["dataclasses.dataclass"] or any(
            not (isinstance(n, ast.Expr) and isinstance(n.value, ast.Constant)) for n in base.body):
        raise Unsupported(f"{EXPR} is expected to be an empty dataclass")
    # --- the records
    post = {}
    for cls in order:
        tag = TAGS[cls]
        c = class_def(mod, cls)
        want_bases = [EXPR] if cls in EXPR_SUBS else []
        if [ast.unparse(b) for b in c.bases] != want_bases or c.keywords \
                or [ast.unparse(d) for d in c.decorator_list] != ["dataclasses.dataclass"]:
            raise Unsupported(f"{cls}: expected `@dataclasses.dataclass class {cls}({', '.join(want_bases)})`")
        fields, ms = [], {}
        for n in c.body:
            if isinstance(n, ast.Expr) and isinstance(n.value, ast.Constant) and isinstance(n.value.value, str):
                continue
            if isinstance(n, ast.FunctionDef):
                if n.name in ms:
                    raise Unsupported(f"{cls}.{n.name} defined twice")
                ms[n.name] = n
                continue
            if isinstance(n, ast.AnnAssign) and isinstance(n.target, ast.Name) and n.simple:
                if ms:
                    raise Unsupported(f"{cls}: field {n.target.id} declared after a method")
                ann = annot_text(n.annotation)
                if ann not in ANNOT or ANNOT[ann] in ("TOK", "U", "S", "Z", "B", "L:MSG"):
                    fail(n, f"annotation {ann} of field {cls}.{n.target.id}")
                ty = ANNOT[ann]
                d = ast.unparse(n.value) if n.value is not None else None
                init, default = True, None
                if d is None:
                    pass
                elif d == "dataclasses.field(default_factory=dict)" and ty == "D":
                    default = "dict_empty"
                elif d == "dataclasses.field(default_factory=list)" and ty.startswith("L:"):
                    default = "[]"
                elif d == "dataclasses.field(default=None)" and ty == "OF":
                    default = "None"
                elif d == "dataclasses.field(init=False)":
                    init = False
                else:
                    fail(n, f"default of field {cls}.{n.target.id}")
                if fields and fields[-1][3] is not None and default is None and init:
                    fail(n, "a field without default after a field with a default")
                fields.append((n.target.id, ty, init, default))
                continue
            fail(n, f"class-level statement in {cls}")
        if not fields:
            raise Unsupported(f"{cls} has no fields")
        for m in DATA_METHODS[cls]:
            if m not in ms:
                raise Unsupported(f"{cls}.{m} missing")
        for m in ms:
            if m not in DATA_METHODS[cls] and m not in DATA_SKIP:
                raise Unsupported(f"unexpected method {cls}.{m} (neither translated nor in the skip list)")
        w.class_methods[cls] = ms
        rec = f"mk_{cls}"
        out += (f"(* @dataclasses.dataclass class {cls}: "
                + "; ".join(f"{n}: {t}" + ("" if i else " (init=False)") + (f" = {d}" if d else "") for n, t, i, d in fields)
                + " *)\n")
        out += (f"Record {cls} : Type := {rec} {{ "
                + "; ".join(f"{cls}_{n} : {coqty(t)}" for n, t, _, _ in fields) + " }.\n")
        for n, t, _, _ in fields:
            w.fields[(tag, n)] = (f"{cls}_{n}", t)
            w.setters[(tag, n)] = f"{cls}_with_{n}"
            args = " ".join("v_" if m == n else f"({cls}_{m} o_)" for m, _, _, _ in fields)
            out += f"Definition {cls}_with_{n} (o_ : {cls}) (v_ : {coqty(t)}) : {cls} := {rec} {args}.\n"
        noinit = [f for f in fields if not f[2]]
        if noinit:
            if "__post_init__" not in ms:
                raise Unsupported(f"{cls}: fields with init=False but no __post_init__")
            post[cls] = (fields, ms["__post_init__"])
        else:
            if "__post_init__" in ms:
                raise Unsupported(f"{cls}: __post_init__ without init=False fields")
            w.ctors[cls] = (rec, [(n, t, d) for n, t, _, d in fields])
        out += "\n"
    out += (f"(* class {EXPR}: an object annotated {EXPR} is an instance of one of its dataclass subclasses *)\n"
            f"Inductive {EXPR} : Type :=\n| Expr_Eql (e : {EXPR_SUBS[0]})\n| Expr_Ineq (e : {EXPR_SUBS[1]}).\n\n")
    w.assumptions.append(f"{EXPR} is the sum of its two dataclass subclasses {EXPR_SUBS[0]} and {EXPR_SUBS[1]} (checked: "
                         "the base class is an empty dataclass and is never instantiated by the translated code)")
    # --- constructors of the classes with __post_init__
    for cls, (fields, f) in post.items():
        strip_doc(f)
        a = f.args
        if [x.arg for x in a.args] != ["self"] or a.vararg or a.kwarg or a.kwonlyargs or a.defaults or f.decorator_list \
                or annot_text(f.returns) not in (None, "None"):
            raise Unsupported(f"signature of {cls}.__post_init__")
        vals = {}
        fn = SynFn(w, f, f"{cls}.__post_init__", {ENUM}, False)
        for st in f.body:
            if not (isinstance(st, ast.Assign) and len(st.targets) == 1 and isinstance(st.targets[0], ast.Attribute)
                    and isinstance(st.targets[0].value, ast.Name) and st.targets[0].value.id == "self"):
                fail(st, f"statement in {cls}.__post_init__ (only `self.<init=False field> = <expression>`)")
            fld = st.targets[0].attr
            spec = [x for x in fields if x[0] == fld and not x[2]]
            if not spec or fld in vals:
                fail(st, f"{cls}.__post_init__ assigns {fld}")
            pre, c, t = fn.tx(st.value, {})
            if pre:
                fail(st, "raising expression in __post_init__")
            vals[fld] = fn.coerce(c, t, spec[0][1], st, f"field {fld}")
        if set(vals) != {x[0] for x in fields if not x[2]}:
            raise Unsupported(f"{cls}.__post_init__ must assign every init=False field exactly once")
        ps = [(n, t, d) for n, t, i, d in fields if i]
        sig = " ".join(f"({cid(n)} : {coqty(t)})" for n, t, _ in ps)
        args = " ".join(cid(n) if i else vals[n] for n, _, i, _ in fields)
        out += (f"(* {cls}(...): the generated __init__ stores the init fields, then runs __post_init__ *)\n"
                f"Definition {cls}_new {sig} : {cls} := mk_{cls} {args}.\n\n")
        w.ctors[cls] = (f"{cls}_new", ps)
    return out


def gen_syntax(repo) -> Tuple[str, List[str]]:
    w = World()
    w.class_methods = {}
    srcs = {k: open(os.path.join(repo, k)).read() for k in (DATA, GRAMMAR, SERIALIZER, ERRORS)}
    dmod, gmod, smod, emod = (ast.parse(srcs[k]) for k in (DATA, GRAMMAR, SERIALIZER, ERRORS))
    builtins = ["len", "sorted", "enumerate", "zip", "str", "float", "isinstance", "type", "abs", "repr", "bool", "int",
                "list", "dict", "set", "reduce", "product", "ValueError", "AssertionError"]
    classes = list(TAGS) + [ENUM, EXPR]
    # ------------------------------------------------------------ data.py
    check_module(dmod, DATA,
                 {"dataclasses": "dataclasses", "Enum": "enum.Enum", "product": "itertools.product",
                  "PolyhedralTerm": "pacti.terms.polyhedra.polyhedra.PolyhedralTerm",
                  "Var": "pacti.terms.polyhedra.polyhedra.Var", "numeric": "pacti.terms.polyhedra.polyhedra.numeric"},
                 builtins, DATA_FUNS + DATA_FUNS_SKIP, classes)
    ddefs = [n for n in dmod.body if isinstance(n, (ast.FunctionDef, ast.ClassDef))]
    for n in ddefs:
        if n.name not in classes + DATA_FUNS + DATA_FUNS_SKIP:
            raise Unsupported(f"{DATA}: unexpected definition {n.name} (neither translated nor in the skip list)")
    for n in dmod.body:
        if isinstance(n, (ast.Assign, ast.AnnAssign, ast.AugAssign)):
            if ast.unparse(n) != "PolyhedralSyntaxAbsoluteTermOrTerm = Union[PolyhedralSyntaxAbsoluteTerm, PolyhedralSyntaxTermList]":
                raise Unsupported(f"{DATA}: module-level assignment {ast.unparse(n)[:80]}")
    w.assumptions.append("PolyhedralSyntaxAbsoluteTermOrTerm = Union[AbsoluteTerm, TermList] is rendered as the "
                         "dynamically typed token type (the callers test it with isinstance)")
    # the string-building code is not translated; it must be the one the assumption was validated for
    fr = next(n for n in dmod.body if isinstance(n, ast.FunctionDef) and n.name == "_factor_repr")
    stl_c, abs_c = class_def(dmod, "PolyhedralSyntaxTermList"), class_def(dmod, "PolyhedralSyntaxAbsoluteTerm")
    reprs = {"_factor_repr": fr}
    for c in (stl_c, abs_c):
        r = [n for n in c.body if isinstance(n, ast.FunctionDef) and n.name == "__repr__"]
        if len(r) != 1 or r[0].decorator_list:
            raise Unsupported(f"{c.name}.__repr__ is expected to be defined once")
        reprs[f"{c.name}.__repr__"] = r[0]
    for k, f in reprs.items():
        if pin(f) != PINNED[k]:
            raise Unsupported(f"{k} differs from the text the injectivity/totality assumption about __repr__ was "
                              f"validated for (sha256 of the normalised source {pin(f)}); re-validate with "
                              "harness/syngen_repr_check.py and update PINNED")
    w.assumptions.append(
        "ASSUMED (injectivity of __repr__): f\"{tl}\" of a PolyhedralSyntaxTermList is not translated; two such strings "
        "are equal iff the term lists have the same constant and the same (variable, factor) items after sorting by "
        "variable name, numbers compared as numbers (stl_repr_key / repr_key_eqb of base/PySyntax.v).  This holds for "
        "finite FLOAT constants and factors (and the int constant 0 of the parse actions, printed like 0.0) and "
        "grammar-valid variable names, up to the sign of a zero factor at the head of the string (\"0.0x\" vs "
        "\"-0.0x\"); it FAILS for a non-zero int constant (2 prints \"2\", 2.0 prints \"2.0\": never stored by the "
        "parse actions) and for inf/nan against variables named inf/nan (the constant inf of the literal 1e999 prints "
        "like the variable `inf`).  Pinned to the sha256 of _factor_repr and PolyhedralSyntaxTermList.__repr__; tested "
        "on the real code by harness/syngen_repr_check.py")
    dorder = [n.name for n in ddefs if n.name in TAGS]
    body = gen_dataclasses(w, dmod, dorder)
    body += f"(* pyparsing tokens (base/PySyntax.v) over these classes *)\nDefinition token : Type := tok {CLS['STL']} {CLS['ABS']} {CLS['ATL']} {EXPR}.\n\n"
    body += (f"(* f\"{{tl}}\" : what PolyhedralSyntaxTermList.__repr__ is ASSUMED to be an injective function of *)\n"
             f"Definition {CLS['STL']}_repr_key (self : {CLS['STL']}) : repr_key :=\n"
             f"  stl_repr_key ({CLS['STL']}_constant self) ({CLS['STL']}_factors self).\n\n")
    # PolyhedralTerm(variables=..., constant=...) is gen/TermGen.v:PolyhedralTerm_init
    tg, _ = P.gen_term(os.path.join(repo, POLY))
    if "\nDefinition PolyhedralTerm_init (variables : pvars) (constant : Q) : pterm :=" not in tg:
        raise Unsupported("gen/TermGen.v: PolyhedralTerm_init is expected to be pure with parameters (variables, constant)")
    w.assumptions.append("PolyhedralTerm(variables=d, constant=c) is gen/TermGen.v:PolyhedralTerm_init d c (the "
                         "translated __init__ of polyhedra.py); Var(k) is the identity on names")
    translated = []
    dglobals = set(classes) | set(DATA_FUNS) | {"product", "PolyhedralTerm", "Var"} | logging_name(dmod)
    for n in ddefs:
        if isinstance(n, ast.ClassDef) and n.name in TAGS:
            tag = TAGS[n.name]
            for m in [x.name for x in n.body if isinstance(x, ast.FunctionDef)]:
                if m in DATA_SKIP or m == "__post_init__":
                    continue
                f = w.class_methods[n.name][m]
                where = f"{n.name}.{m}"
                params, rty = signature(f, where, True)
                coq = f"{n.name}_{m}"
                text, mon, rty = define(w, f, where, coq, params, rty, tag, dglobals, False)
                body += text
                w.methods[(tag, m)] = (coq, mon, params, rty)
                translated.append(where)
        elif isinstance(n, ast.FunctionDef) and n.name in DATA_FUNS:
            params, rty = signature(n, n.name, False)
            coq = "data" + n.name
            text, mon, rty = define(w, n, f"data.{n.name}", coq, params, rty, None, dglobals, False)
            body += text
            w.funcs[n.name] = (coq, mon, params, rty)
            translated.append("data." + n.name)
    # ------------------------------------------------------------ grammar.py
    gimports = {"reduce": "functools.reduce", "pp": "pyparsing", "_combine_or_append":
                "pacti.terms.polyhedra.syntax.data._combine_or_append"}
    for c in list(TAGS) + [ENUM, EXPR, "PolyhedralSyntaxAbsoluteTermOrTerm"]:
        gimports[c] = f"pacti.terms.polyhedra.syntax.data.{c}"
    check_module(gmod, GRAMMAR, gimports, builtins, GRAMMAR_FUNS, [])
    for n in gmod.body:
        if isinstance(n, (ast.FunctionDef, ast.ClassDef)) and n.name not in GRAMMAR_FUNS:
            raise Unsupported(f"{GRAMMAR}: unexpected definition {n.name} (every module-level function is a parse action "
                              "and must be translated)")
    w.assumptions.append("grammar.py: only the parse ACTIONS are translated (plain Python over already parsed values); "
                         "the pyparsing grammar objects, which action is attached to which rule, and the two lambdas "
                         "float(t[0]) / t[0][0] are hand-modelled (model/Grammar.v, model/Syntax.v) and tied by T2")
    body += "(* ================= grammar.py : the parse actions ================= *)\n\n"
    gglobals = set(gimports) | set(GRAMMAR_FUNS) | logging_name(gmod)
    gfuncs_visible = {k: v for k, v in w.funcs.items() if k == "_combine_or_append"}
    all_funcs = w.funcs
    w.funcs = dict(gfuncs_visible)
    for n in gmod.body:
        if isinstance(n, ast.FunctionDef):
            params, rty = signature(n, n.name, False)
            coq = "grammar" + n.name
            pa = all(t == "TOK" for _, t, _ in params if t != "OP") and any(t == "TOK" for _, t, _ in params)
            text, mon, rty = define(w, n, f"grammar.{n.name}", coq, params, rty, None, gglobals, pa)
            body += text
            w.funcs[n.name] = (coq, mon, params, rty)
            translated.append("grammar." + n.name)
    # ------------------------------------------------------------ serializer.py
    simports = {"PolyhedralTerm": "pacti.terms.polyhedra.polyhedra.PolyhedralTerm",
                "PolyhedralSyntaxConvexException": "pacti.utils.errors.PolyhedralSyntaxConvexException"}
    for c in list(TAGS) + [ENUM, EXPR]:
        simports[c] = f"pacti.terms.polyhedra.syntax.data.{c}"
    check_module(smod, SERIALIZER, simports, builtins, SERIALIZER_FUNS + SERIALIZER_SKIP, [])
    for n in smod.body:
        if isinstance(n, (ast.FunctionDef, ast.ClassDef)) and n.name not in SERIALIZER_FUNS + SERIALIZER_SKIP:
            raise Unsupported(f"{SERIALIZER}: unexpected definition {n.name} (neither translated nor in the skip list)")
    cx = class_def(emod, "PolyhedralSyntaxConvexException")
    if [ast.unparse(d) for d in cx.decorator_list] != ["dataclasses.dataclass"] or any(
            isinstance(n, ast.FunctionDef) and n.name in ("__init__", "__post_init__", "__new__") for n in cx.body):
        raise Unsupported("PolyhedralSyntaxConvexException is expected to be a dataclass whose construction only stores "
                          "its fields")
    body += "(* ================= serializer.py ================= *)\n\n"
    sglobals = set(simports) | set(SERIALIZER_FUNS) | logging_name(smod)
    w.funcs = {}
    for n in smod.body:
        if isinstance(n, ast.FunctionDef) and n.name in SERIALIZER_FUNS:
            params, rty = signature(n, n.name, False)
            coq = "serializer" + n.name
            text, mon, rty = define(w, n, f"serializer.{n.name}", coq, params, rty, None, sglobals, False)
            body += text
            w.funcs[n.name] = (coq, mon, params, rty)
            translated.append("serializer." + n.name)
    w.assumptions.append("syntax layer: NOT translated: __repr__ of the three list classes and _factor_repr (string "
                         "building; see the injectivity assumption), the pyparsing grammar objects of grammar.py, and of "
                         "serializer.py: " + ", ".join(SERIALIZER_SKIP) + " (printer: model/Printer.v; entry point: "
                         "model/ParseAll.v)")
    w.assumptions.append("syntax layer: int and float are one numeric type (exact rationals; NaN/inf/rounding/signed "
                         "zero not modelled); Python ints used as lengths and indices are Z; Optional[float] is option Q")
    assumptions = sorted(set("syntax: " + a if not a.startswith("syntax") else a for a in w.assumptions))
    sha = hashlib.sha256("".join(srcs[k] for k in (DATA, GRAMMAR, SERIALIZER)).encode()).hexdigest()
    head = ("(* GENERATED by /verif/translator/py2coq_syntax.py (hooked into py2coq.py) — do not edit.\n"
            f"   from {DATA}, {GRAMMAR} (parse actions only), {SERIALIZER} (_expression_to_polyhedral_terms and helpers)\n"
            f"   sha256 of the three sources: {sha}\n"
            f"   translated: {', '.join(translated)}\n"
            "   vocabulary: base/PySyntax.v, base/PyDict.v, base/PyLoop.v.  Pure or monadic (M _) exactly as the body requires.\n"
            "   Approximations (each is also an `assumption:` line of the translator):\n"
            + "".join("   - " + "\n     ".join(wrap(a.replace("*)", "* )"))) + "\n" for a in assumptions)
            + "*)\n"
            "From Coq Require Import List String Bool QArith ZArith.\nImport ListNotations.\n"
            "Require Import Py Sem PyDict PyLoop PySyntax TermGen.\nOpen Scope py_scope.\nLocal Open Scope Q_scope.\n\n")
    return head + body, assumptions


def wrap(text, width=112):
    import textwrap
    return textwrap.wrap(text, width) or [""]


if __name__ == "__main__":
    txt, ass = gen_syntax(sys.argv[1])
    if len(sys.argv) > 2:
        with open(sys.argv[2], "w") as fh:
            fh.write(txt)
    else:
        sys.stdout.write(txt)
    for a_ in ass:
        print("assumption:", a_, file=sys.stderr)
