#!/usr/bin/env python3
"""Fourth T1 generator: the pure-Python part of pacti.terms.polyhedra.polyhedra.PolyhedralTermList
(the glue around the LP / sympy / numpy calls) -> coq/gen/TermListGen.v, over the vocabularies of
coq/base/PyDict.v, PyLoop.v and PyTermList.v.  proofs/TermListGen*.v prove every generated function EQUAL to the
hand models of model/Term.v (evaluate, contains_behavior) and model/Tactics.v.

Translated (class PolyhedralTermList): __init__, evaluate, contains_behavior, lacks_constraints,
_get_kaykobad_context, _tactic_1, _tactic_2, _tactic_3, _tactic_4 (explicit fuel), _tactic_5, _tactic_trivial,
the class-level dict TACTICS, _transform_term, _transform, elim_vars_by_refining, elim_vars_by_relaxing; and the
methods inherited from pacti.iocontract.iocontract.TermList that these call: vars, copy, get_terms_with_vars, __or__.
NOT translated (abstract parameters, class TLPrims of PyTermList.v): simplify, _context_reduction,
termlist_to_polytope, scipy's linprog and the two fields of its result that are read.

The module lives next to py2coq.py and uses its helpers and the statement/expression machinery of class NFn
(subclassed: TLFn).  Fail closed: anything outside the subset raises Unsupported, and py2coq.main poisons
gen/TermListGen.v only.
"""
from __future__ import annotations

import ast
import hashlib
import os
import re
import sys
from typing import Dict, List, Optional, Tuple

# py2coq.py is usually run as a script: use THAT module object (same Unsupported class, same tables)
_main = sys.modules.get("__main__")
if _main is not None and os.path.basename(getattr(_main, "__file__", "") or "") == "py2coq.py" and hasattr(_main, "NFn"):
    P = _main
else:                                                                        # pragma: no cover
    import py2coq as P

Unsupported, fail, check_message_total, qlit, strip_doc, class_def = \
    P.Unsupported, P.fail, P.check_message_total, P.qlit, P.strip_doc, P.class_def
NFn, NCtx, World, COQ_KEYWORDS, ERRKIND, LIST_FUNS = P.NFn, P.NCtx, P.World, P.COQ_KEYWORDS, P.ERRKIND, P.LIST_FUNS

PTL, PT = "PolyhedralTermList", "PolyhedralTerm"

# ---------------------------------------------------------------- types
# V var, LV list var, F Q, LF list Q, N nat, LN list nat, Z, B bool, T term, OT optional term, LT python list of
# terms, TL PolyhedralTermList object (= its list of terms), D dict Var->float, KV dict key view, TIME wall clock
# (erased), MAT / VEC numpy arrays, RES linprog result, OF optional float, S str literal (only inside Var(...))
T_COQTY = {
    "V": "var", "LV": "list var", "F": "Q", "LF": "list Q", "N": "nat", "LN": "list nat", "Z": "Z", "B": "bool",
    "T": "pterm", "OT": "option pterm", "LT": "list pterm", "TL": "list pterm", "OTL": "option (list pterm)",
    "OLT": "option (list pterm)", "OLN": "option (list nat)", "D": "pvars", "KV": "list var", "TIME": "time_t",
    "MAT": "matrix", "VEC": "vector", "RES": "lp_result", "OF": "option Q", "LST": "stats",
}
T_ELEM = {"LV": "V", "LF": "F", "LN": "N", "LT": "T", "TL": None, "KV": "V", "LST": "Z*TIME*Z"}
T_LISTOF = {"V": "LV", "F": "LF", "N": "LN", "T": "LT", "Z*TIME*Z": "LST"}
T_OPT = {"OT": "T", "OTL": "TL", "OLT": "LT", "OLN": "LN", "OF": "F"}
T_ANNOT = {
    "PolyhedralTermList": "TL", "TermList_t": "TL", "bool": "B", "Optional[List[int]]": "OLN",
    "Dict[Var, numeric]": "D", "PolyhedralTerm": "T", "List[Var]": "LV", "Optional[List[PolyhedralTerm]]": "OLT",
    "int": "N", "Optional[PolyhedralTermList]": "OTL", "List[PolyhedralTerm]": "LT", "TacticStatistics": "LST",
    "object": "TL",
}
T_ANNOT_BY_NAME = {("list", "vars_to_elim"): "LV"}
T_RANNOT = {
    "PolyhedralTermList": "TL", "TermList_t": "TL", "bool": "B", "List[Var]": "LV",
    "Tuple[PolyhedralTermList, TacticStatistics]": "TL*LST",
    "Tuple[List[PolyhedralTerm], List[Var]]": "LT*LV",
    "Tuple[Optional[PolyhedralTerm], int]": "OT*N",
    "Tuple[PolyhedralTerm, int, float, int]": "T*Z*TIME*Z",
}
T_VOCAB = {
    "var", "pterm", "pvars", "stats", "matrix", "vector", "lp_result", "time_t", "py_time", "tvars", "tconst", "mkT",
    "ret", "raise", "bind", "fuel", "TACTICS", "self_terms",
    "qzero", "qadd", "qsub", "qmul", "qdiv", "qneg", "qabs", "qle", "qlt", "qge", "qgt", "q_eqb", "q_neb", "py_float",
    "py_div", "assoc", "has_key", "dict_set", "dict_pop", "keys", "dict_empty", "dict_keys", "py_list", "dict_get",
    "set_variables", "set_constant", "Continue", "Break", "for_list", "for_list_m", "for_items", "for_items_m",
    "Next", "Stop", "Return", "Done", "Returned", "for_ret", "for_ret_m", "enumerate", "Var", "var_name",
    "map_m", "filter_m", "py_in_m", "list_intersection_m", "list_diff_m", "list_union_m", "list_remove_m",
    "list_get_m", "list_set_m", "py_range", "py_list_copy", "dict_of_list_m", "py_deref", "py_num", "try_except",
    "try_except_any", "p_simplify", "p_context_reduction", "p_termlist_to_polytope", "p_linprog", "p_res_status",
    "p_res_fun", "py_in", "py_eqb", "negb", "true", "false", "list_union", "list_diff", "list_intersection", "nonempty",
    "len", "map", "filter", "fst", "snd", "tt", "unit", "M", "Q", "Z", "bool", "list", "nat", "string", "option",
    "Some", "None", "ValueErr", "IncompatibleArgs", "Escape", "inl", "inr", "app", "nil", "cons", "is_none",
    "opt_list", "S", "O", "pair", "TACTICS_ORDER_polyhedra", "seq",
}


class NumTV:
    """type of an int literal (and of the names it is assigned to) until a typed use fixes it: F, N or Z"""

    def __init__(self):
        self.t = None

    def find(self):
        x = self
        while isinstance(x.t, NumTV):
            x = x.t
        return x


class TupleT:
    """type of a tuple display whose components may still be open"""

    def __init__(self, parts):
        self.parts = parts


def rt(t):
    """resolve type variables (list TV of py2coq and NumTV)"""
    if isinstance(t, TupleT):
        rs = [rt(p) for p in t.parts]
        return "*".join(rs) if all(isinstance(r, str) for r in rs) else t
    if isinstance(t, P.TV):
        return t.t if t.t else t
    if isinstance(t, NumTV):
        r = t.find()
        return r.t if r.t else r
    return t


def is_num_open(t):
    return isinstance(rt(t), NumTV)


def tl_cid(name: str) -> str:
    if re.match(r"^[a-z]_\d+$", name) or name.endswith("_") or name.startswith((PTL + "_", PT + "_", "p_")):
        raise Unsupported(f"local name {name} collides with generated names")
    if name in COQ_KEYWORDS or name in T_VOCAB:
        return name + "_"
    return name


def split_tuple(t: str) -> List[str]:
    return t.split("*")


def coq_type(t) -> str:
    t = rt(t)
    if not isinstance(t, str):
        raise Unsupported("a value whose type was never fixed (empty list / int literal never used at a type)")
    if t in T_COQTY:
        return T_COQTY[t]
    parts = [coq_type(x) for x in split_tuple(t) if x != "TIME"]
    if len(parts) < 2:
        raise Unsupported(f"type {t}")
    return "(" + " * ".join(parts) + ")"


def is_tuple_type(t) -> bool:
    t = rt(t)
    return isinstance(t, str) and "*" in t and t not in T_LISTOF


LITMARK = "\x01"


def render_literals(text: str, lits) -> str:
    def repl(m):
        value, tv = lits[int(m.group(1))]
        t = rt(tv)
        if t == "F":
            return qlit(value) + "%Q"
        if t == "N":
            if value < 0:
                raise Unsupported(f"negative int literal {value} used as a count or an index")
            return f"{value}%nat" if value <= 5000 else fail(None, f"int literal {value}")
        if t == "Z":
            return f"({value})%Z"
        if t == "TIME":
            return "py_time"
        raise Unsupported(f"int literal {value} whose numeric type (float / count / signed) is never fixed by a use")
    return re.sub(LITMARK + r"(\d+)" + LITMARK, repl, text)


class TLFn(NFn):
    """Translate one method of PolyhedralTermList (or one inherited TermList method).  Reuses the block / context
    machinery of NFn (NCtx: fall, break, continue, return) and adds floats, dicts, indexed lists, Optional
    narrowing, int literals typed by use, try with a falling-through handler, recursion with fuel."""

    def __init__(self, world, fdef, monadic, rtype, assumptions, lits, fuel=False):
        super().__init__(world, fdef, monadic, rtype, assumptions)
        self.lits = lits
        self.fuel = fuel          # this function is self-recursive and carries a fuel parameter
        self.where = f"{world.cls}.{fdef.name}"

    # ---------------------------------------------------------------- helpers
    @staticmethod
    def cid(name):
        return name if name.startswith("self_") else tl_cid(name)

    def lit(self, value):
        tv = NumTV()
        self.lits.append((value, tv))
        return f"{LITMARK}{len(self.lits) - 1}{LITMARK}", tv

    def same(self, t1, t2, node, what="types"):
        """make two types equal; returns the (possibly still open) common type"""
        a, b = rt(t1), rt(t2)
        if isinstance(a, NumTV) and isinstance(b, NumTV):
            if a is not b:
                a.t = b
            return b
        if isinstance(a, NumTV):
            if b not in {"F", "N", "Z", "TIME"}:
                fail(node, f"{what}: an int literal used at type {b}")
            a.t = b
            return b
        if isinstance(b, NumTV):
            return self.same(t2, t1, node, what)
        if isinstance(a, P.TV) and isinstance(b, P.TV):
            fail(node, f"{what}: two empty list literals whose element type is unknown")
        if isinstance(a, P.TV):
            if b not in T_ELEM:
                fail(node, f"{what}: empty list literal used at type {b}")
            t1.t = b
            return b
        if isinstance(b, P.TV):
            return self.same(t2, t1, node, what)
        if a != b:
            fail(node, f"{what}: {a} vs {b}")
        return a

    def unify(self, t, want, node):
        r = rt(t)
        if isinstance(r, P.TV):
            if want not in T_ELEM:
                fail(node, f"empty list literal used at type {want}")
            t.t = want
            return True
        if isinstance(r, NumTV):
            self.same(t, want, node)
            return True
        return r == want

    def coerce(self, c, t, want, node, what):
        r = rt(t)
        want = rt(want)
        if isinstance(r, NumTV):
            if want == "OF":
                self.same(t, "F", node, what)
                return f"(Some {c})"
            self.same(t, want, node, what)
            return c
        if isinstance(r, P.TV):
            if want in T_OPT and T_OPT[want] in T_ELEM:
                self.unify(t, T_OPT[want], node)
                return f"(Some {c})"
            self.unify(t, want, node)
            return c
        if isinstance(want, (NumTV, P.TV)):
            self.same(want, r, node, what)
            return c
        if r == want:
            return c
        if want in T_OPT:
            if r == "NONE":
                return "None"
            if r == T_OPT[want]:
                return f"(Some {c})"
        if want == "Z" and r == "N":
            return f"(Z.of_nat {c})"
        fail(node, f"{what}: expected {want}, got {r}")

    def truth(self, c, t, node):
        t = rt(t)
        if t == "B":
            return c
        if t in T_ELEM or t == "D" or isinstance(t, P.TV):
            return f"(nonempty {c})"
        if t == "F":
            return f"(q_neb {c} (0 # 1)%Q)"
        fail(node, f"truthiness of a value of type {t}")

    def tupv(self, names, env):
        """(value, binder pattern, match pattern) of the joined names; wall-clock names are erased"""
        cn = [self.cid(n) for n in names if rt(env.get(n)) != "TIME"]
        if not cn:
            return "tt", "_", "_"
        if len(cn) == 1:
            return cn[0], cn[0], cn[0]
        t = "(" + ", ".join(cn) + ")"
        return t, "'" + t, t

    def deref(self, pre, c, t, node):
        """receiver of an attribute / method: None raises AttributeError"""
        t = rt(t)
        if t in ("OT", "OTL"):
            tmp = self.fresh("t")
            return pre + [(tmp, f"py_deref {c}")], tmp, T_OPT[t]
        return pre, c, t

    def is_fresh(self, value, env):
        """does the expression build a new object that nothing else refers to?"""
        if isinstance(value, (ast.List, ast.ListComp, ast.Dict, ast.DictComp)):
            return True
        if isinstance(value, ast.IfExp):
            return self.is_fresh(value.body, env) and self.is_fresh(value.orelse, env)
        if isinstance(value, ast.Call):
            f = value.func
            if isinstance(f, ast.Name) and f.id in (set(LIST_FUNS) | {"list", PT, PTL}):
                return True
            if isinstance(f, ast.Attribute) and f.attr == "copy":
                return True
            if isinstance(f, ast.Attribute) and f.attr in self.w.term_sigs and self.w.term_sigs[f.attr][3] == "T":
                return True          # every PolyhedralTerm method that returns a term builds it (checked by gen_term)
            if isinstance(f, ast.Attribute) and f.attr in self.w.fresh_results:
                return True
        if isinstance(value, ast.BinOp) and isinstance(value.op, ast.BitOr):
            return True
        return False

    # ---------------------------------------------------------------- expressions
    def tx(self, e, env):
        if isinstance(e, ast.Name):
            if e.id in env and not e.id.startswith("%"):
                if rt(env[e.id]) == "TIME":
                    return [], "py_time", "TIME"
                return [], self.cid(e.id), env[e.id]
            if e.id in self.w.consts:
                return [], self.w.consts[e.id][0], self.w.consts[e.id][1]
            fail(e, "unbound name")
        if isinstance(e, ast.Constant):
            if e.value is True:
                return [], "true", "B"
            if e.value is False:
                return [], "false", "B"
            if e.value is None:
                return [], "None", "NONE"
            if isinstance(e.value, int):
                c, tv = self.lit(e.value)
                return [], c, tv
            if isinstance(e.value, float):
                return [], qlit(e.value) + "%Q", "F"
            fail(e, "constant")
        if isinstance(e, ast.List):
            if not e.elts:
                return [], "[]", P.TV()
            parts = [self.tx(v, env) for v in e.elts]
            ty = parts[0][2]
            for _, _, t in parts[1:]:
                ty = self.same(ty, t, e, "list literal")
            lt = T_LISTOF.get(rt(ty)) or fail(e, f"list literal of {rt(ty)}")
            return [b for p, _, _ in parts for b in p], "[" + "; ".join(c for _, c, _ in parts) + "]", lt
        if isinstance(e, ast.Set):
            if not e.elts or not all(isinstance(v, ast.Constant) and isinstance(v.value, int)
                                     and not isinstance(v.value, bool) and v.value >= 0 for v in e.elts):
                fail(e, "set literal other than a set of non-negative int constants")
            self.assumptions.append(f"{self.where}: a set literal of ints is a list (only `in` is applied to it)")
            return [], "[" + "; ".join(f"{v.value}%nat" for v in e.elts) + "]", "LN"
        if isinstance(e, ast.Dict):
            pre, c = [], "dict_empty"
            for k, v in zip(e.keys, e.values):
                if k is None:
                    fail(e, "** in a dict literal")
                pk, ck, tk = self.tx(k, env)
                pv, cv, tv = self.tx(v, env)
                if rt(tk) != "V":
                    fail(e, f"dict key of type {rt(tk)}")
                cv = self.coerce(cv, tv, "F", e, "dict value")
                pre += pk + pv
                c = f"(dict_set {c} {ck} {cv})"
            return pre, c, "D"
        if isinstance(e, ast.Attribute):
            return self.tx_attr(e, env)
        if isinstance(e, ast.Subscript):
            return self.tx_subscript(e, env)
        if isinstance(e, ast.Call):
            return self.tx_call(e, env)
        if isinstance(e, ast.BinOp):
            return self.tx_binop(e, env)
        if isinstance(e, ast.UnaryOp):
            if isinstance(e.op, ast.Not):
                p, c, t = self.tx(e.operand, env)
                return p, f"(negb {self.truth(c, t, e)})", "B"
            if isinstance(e.op, ast.USub):
                o = e.operand
                if isinstance(o, ast.Constant) and isinstance(o.value, (int, float)) and not isinstance(o.value, bool):
                    if isinstance(o.value, float):
                        return [], qlit(-o.value) + "%Q", "F"
                    c, tv = self.lit(-o.value)
                    return [], c, tv
                p, c, t = self.tx(o, env)
                c = self.coerce(c, t, "F", e, "operand of unary minus")
                return p, f"(qneg {c})", "F"
            fail(e, "unary operator")
        if isinstance(e, ast.BoolOp):
            parts = [self.tx(v, env) for v in e.values]
            return self.short_circuit(e, [(p, self.truth(c, t, e)) for p, c, t in parts], isinstance(e.op, ast.And))
        if isinstance(e, ast.Compare):
            return self.tx_compare(e, env)
        if isinstance(e, ast.IfExp):
            pt_, ct, tt_ = self.tx(e.test, env)
            (p1, c1, t1), (p2, c2, t2) = self.tx(e.body, env), self.tx(e.orelse, env)
            if p1 or p2:
                fail(e, "conditional expression whose branches may raise")
            ty = self.same(t1, t2, e, "branches of a conditional expression")
            return pt_, f"(if {self.truth(ct, tt_, e)} then {c1} else {c2})", ty
        if isinstance(e, ast.ListComp):
            return self.tx_listcomp(e, env)
        if isinstance(e, ast.DictComp):
            return self.tx_dictcomp(e, env)
        if isinstance(e, ast.Tuple) and isinstance(e.ctx, ast.Load):
            parts = [self.tx(v, env) for v in e.elts]
            return self.mk_tuple(parts)
        fail(e, "expression form")

    def mk_tuple(self, parts):
        pre = [b for p, _, _ in parts for b in p]
        kept = [c for _, c, t in parts if rt(t) != "TIME"]
        tys = []
        for _, _, t in parts:
            tys.append(t)
        c = "(" + ", ".join(kept) + ")" if len(kept) != 1 else kept[0]
        return pre, c, TupleT(tys)

    def tx_expect(self, e, env, want, what):
        """translate e where a value of type `want` is expected (componentwise for tuple displays)"""
        want = rt(want)
        if isinstance(e, ast.Tuple) and isinstance(want, str) and "*" in want and want not in T_LISTOF:
            ws = split_tuple(want)
            if len(ws) != len(e.elts):
                fail(e, f"{what}: tuple of {len(e.elts)} for {want}")
            parts = []
            for v, w in zip(e.elts, ws):
                p, c, t = self.tx(v, env)
                parts.append((p, self.coerce(c, t, w, e, what), w))
            pre, c, _ = self.mk_tuple(parts)
            return pre, c
        p, c, t = self.tx(e, env)
        return p, self.coerce_any(c, t, want, e, what)

    def coerce_any(self, c, t, want, node, what):
        t = rt(t)
        if isinstance(t, TupleT):
            ws = split_tuple(want) if isinstance(want, str) else []
            if len(ws) != len(t.parts):
                fail(node, f"{what}: expected {want}")
            for a, w in zip(t.parts, ws):
                if rt(a) != w and not (isinstance(rt(a), (NumTV, P.TV))):
                    fail(node, f"{what}: component {rt(a)} where {w} is expected")
                if isinstance(rt(a), (NumTV, P.TV)):
                    self.same(a, w, node, what)
            return c
        return self.coerce(c, t, want, node, what)

    def tx_attr(self, e, env):
        a = e.attr
        if isinstance(e.value, ast.Name) and e.value.id == "self" and self.f.name == "__init__":
            if "self_" + a in env:
                return [], "self_" + a, env["self_" + a]
            fail(e, "reading a field of self inside __init__ before it is assigned")
        p, c, t = self.tx(e.value, env)
        p, c, t = self.deref(p, c, t, e)
        if t == "TL":
            if a == "terms":
                return p, c, "LT"
            if a == "vars" and ("TL", "vars") in self.w.sigs:
                return p, f"({self.w.sigs[('TL', 'vars')][0]} {c})", "LV"
        if t == "T":
            if a == "vars":
                name, mon, _, rty = self.w.term_sigs["vars"]
                if mon or rty != "LV":
                    fail(e, "PolyhedralTerm.vars is expected to be pure")
                return p, f"({name} {c})", "LV"
            if a == "variables":
                return p, f"(tvars {c})", "D"
            if a == "constant":
                return p, f"(tconst {c})", "F"
        fail(e, f"attribute {a} of a value of type {t}")

    def index_nat(self, e, env):
        """an index expression: a non-negative int"""
        p, c, t = self.tx(e, env)
        c = self.coerce(c, t, "N", e, "list index")
        return p, c

    def tx_subscript(self, e, env):
        if not isinstance(e.ctx, ast.Load):
            fail(e, "subscript context")
        p, c, t = self.tx(e.value, env)
        t = rt(t)
        if t == "RES":
            if isinstance(e.slice, ast.Constant) and e.slice.value in ("status", "fun"):
                tmp = self.fresh("t")
                if e.slice.value == "status":
                    return p + [(tmp, f"p_res_status {c}")], tmp, "N"
                return p + [(tmp, f"p_res_fun {c}")], tmp, "OF"
            fail(e, "field of the linprog result other than status / fun")
        if isinstance(t, str) and "*" in t and t not in T_LISTOF:
            ws = split_tuple(t)
            if not (isinstance(e.slice, ast.Constant) and isinstance(e.slice.value, int)
                    and not isinstance(e.slice.value, bool) and 0 <= e.slice.value < len(ws)):
                fail(e, "tuple index")
            k = e.slice.value
            if ws[k] == "TIME":
                return p, "py_time", "TIME"
            pat = ", ".join(("x_" if i == k else "_") for i, w in enumerate(ws) if w != "TIME")
            return p, f"(let '({pat}) := {c} in x_)", ws[k]
        if t in ("LV", "LF", "LT", "LN"):
            pi, ci = self.index_nat(e.slice, env)
            tmp = self.fresh("t")
            return p + pi + [(tmp, f"list_get_m {c} {ci}")], tmp, T_ELEM[t]
        if t == "D":
            pk, ck, tk = self.tx(e.slice, env)
            if rt(tk) != "V":
                fail(e, f"dict key of type {rt(tk)}")
            tmp = self.fresh("t")
            return p + pk + [(tmp, f"dict_get {c} {ck}")], tmp, "F"
        fail(e, f"subscript on a value of type {t}")

    def tx_binop(self, e, env):
        (p1, c1, t1), (p2, c2, t2) = self.tx(e.left, env), self.tx(e.right, env)
        pre = p1 + p2
        if rt(t1) == "TL" and rt(t2) == "TL" and isinstance(e.op, ast.BitOr):
            return self.do_call(e, self.w.sigs[("TL", "__or__")], c1, [([], c2, "TL")], {}, pre)
        # arithmetic on a value that may be None raises TypeError
        if rt(t1) == "OF":
            tmp = self.fresh("t")
            pre, c1, t1 = pre + [(tmp, f"py_num {c1}")], tmp, "F"
        if rt(t2) == "OF":
            tmp = self.fresh("t")
            pre, c2, t2 = pre + [(tmp, f"py_num {c2}")], tmp, "F"
        a, b = rt(t1), rt(t2)
        if "TIME" in (a, b) and isinstance(e.op, ast.Sub):
            self.same(t1, "TIME", e)
            self.same(t2, "TIME", e)
            return pre, "py_time", "TIME"
        ok = lambda x: isinstance(x, NumTV) or x in {"F", "N", "Z"}  # noqa: E731
        if not (ok(a) and ok(b)):
            fail(e, f"binary operator on {a},{b}")
        if isinstance(e.op, ast.Div) or "F" in (a, b):
            self.same(t1, "F", e)
            self.same(t2, "F", e)
            op = {ast.Add: "qadd", ast.Sub: "qsub", ast.Mult: "qmul"}.get(type(e.op))
            if op:
                return pre, f"({op} {c1} {c2})", "F"
            if isinstance(e.op, ast.Div):
                tmp = self.fresh("t")
                return pre + [(tmp, f"py_div {c1} {c2}")], tmp, "F"
            fail(e, "float operator")
        if "N" in (a, b):
            self.same(t1, "N", e)
            self.same(t2, "N", e)
            op = {ast.Add: "Nat.add", ast.Mult: "Nat.mul"}.get(type(e.op)) \
                or fail(e, "operator on counts (only + and * are total on nat)")
            return pre, f"({op} {c1} {c2})", "N"
        fail(e, f"binary operator on {a},{b} (numeric type not determined)")

    def pair_compare(self, node, op, c1, t1, c2, t2):
        a, b = rt(t1), rt(t2)
        if isinstance(op, (ast.In, ast.NotIn)):
            neg = isinstance(op, ast.NotIn)
            if b == "D" and a == "V":
                r = f"(has_key {c1} {c2})"
                return [], f"(negb {r})" if neg else r
            if isinstance(b, P.TV):
                fail(node, "`in` on an empty list literal")
            el = T_ELEM.get(b)
            if el in {"V", "N"}:
                self.coerce(c1, t1, el, node, "`in`")
                r = f"(py_in {c1} {c2})"
                return [], f"(negb {r})" if neg else r
            if el == "T" and a == "T":
                tmp = self.fresh("b")
                return [(tmp, f"py_in_m {self.w.term_sigs['__eq__'][0]} {c1} {c2}")], f"(negb {tmp})" if neg else tmp
            fail(node, f"`in` on {a},{b}")
        if isinstance(op, (ast.Is, ast.IsNot)):
            if b == "NONE" and isinstance(a, str) and a in T_OPT:
                r = f"(is_none {c1})"
                return [], r if isinstance(op, ast.Is) else f"(negb {r})"
            fail(node, f"`is` on {a},{b}")
        num = lambda x: isinstance(x, NumTV) or x in {"F", "N", "Z"}  # noqa: E731
        if num(a) and num(b):
            ty = rt(self.same(t1, t2, node, "comparison"))
            if isinstance(ty, NumTV):
                fail(node, "comparison of two int literals")
            if ty == "F":
                prim = {ast.Eq: "q_eqb", ast.NotEq: "q_neb", ast.Lt: "qlt", ast.LtE: "qle", ast.Gt: "qgt",
                        ast.GtE: "qge"}.get(type(op)) or fail(node, "comparison")
                return [], f"({prim} {c1} {c2})"
            if ty == "N":
                r = {ast.Eq: f"(Nat.eqb {c1} {c2})", ast.NotEq: f"(negb (Nat.eqb {c1} {c2}))",
                     ast.Gt: f"(Nat.ltb {c2} {c1})", ast.Lt: f"(Nat.ltb {c1} {c2})",
                     ast.GtE: f"(Nat.leb {c2} {c1})", ast.LtE: f"(Nat.leb {c1} {c2})"}.get(type(op))
                return [], r or fail(node, "comparison")
            r = {ast.Eq: f"(Z.eqb {c1} {c2})", ast.NotEq: f"(negb (Z.eqb {c1} {c2}))"}.get(type(op))
            return [], r or fail(node, "comparison on signed ints")
        if isinstance(op, (ast.Eq, ast.NotEq)) and a == b:
            neg = isinstance(op, ast.NotEq)
            if a in {"V", "LV"}:
                r = f"(py_eqb {c1} {c2})"
                return [], f"(negb {r})" if neg else r
            if a == "B":
                r = f"(Bool.eqb {c1} {c2})"
                return [], f"(negb {r})" if neg else r
            if a == "T":
                name, mon, _, _ = self.w.term_sigs["__eq__"]
                tmp = self.fresh("b")
                return [(tmp, f"{name} {c1} {c2}" if mon else f"ret ({name} {c1} {c2})")], f"(negb {tmp})" if neg else tmp
        fail(node, f"comparison {type(op).__name__} on {a},{b}")

    def comp_iter(self, it, env, node):
        """iterable of a comprehension: a list-typed expression or range(n)"""
        pi, ci, ti = self.tx(it, env)
        ti = rt(ti)
        elty = T_ELEM.get(ti) if isinstance(ti, str) else None
        if elty is None:
            fail(node, f"comprehension / loop over a value of type {ti}")
        return pi, ci, ti, elty

    def tx_listcomp(self, e, env):
        if len(e.generators) != 1:
            fail(e, "nested comprehension")
        g = e.generators[0]
        if g.is_async or not isinstance(g.target, ast.Name):
            fail(e, "comprehension target")
        pi, src, ti, elty = self.comp_iter(g.iter, env, e)
        env2 = dict(env)        # a comprehension has its own scope in Python 3: shadowing is harmless
        env2[g.target.id] = elty
        env2 = self.with_owned(env2, g.target.id, False)
        x = self.cid(g.target.id)
        for cond in g.ifs:
            pc, cc, tc = self.tx(cond, env2)
            if pc:
                fail(cond, "comprehension condition that may raise")
            src = f"(filter (fun {x} => {self.truth(cc, tc, cond)}) {src})"
        pe, ce, te = self.tx(e.elt, env2)
        if is_num_open(te):
            fail(e, "comprehension of untyped int literals")
        te = rt(te)
        rty = T_LISTOF.get(te) or fail(e, f"comprehension of {te}")
        if pe:
            tmp = self.fresh("v")
            return pi + [(tmp, f"map_m (fun {x} => {self.inline_m(pe, ce)}) {src}")], tmp, rty
        if ce == x:
            return pi, src, rty
        return pi, f"(map (fun {x} => {ce}) {src})", rty

    def tx_dictcomp(self, e, env):
        if len(e.generators) != 1:
            fail(e, "nested comprehension")
        g = e.generators[0]
        if g.is_async or not isinstance(g.target, ast.Name) or g.ifs:
            fail(e, "dict comprehension form")
        pi, src, ti, elty = self.comp_iter(g.iter, env, e)
        if elty != "V" or not (isinstance(e.key, ast.Name) and e.key.id == g.target.id):
            fail(e, "dict comprehension other than {k: e for k in <list of Var>}")
        env2 = dict(env)
        env2[g.target.id] = "V"
        x = self.cid(g.target.id)
        pv, cv, tv = self.tx(e.value, env2)
        cv = self.coerce(cv, tv, "F", e, "dict comprehension value")
        saved, self.noraise = self.noraise, 0
        try:
            body = self.inline_m(pv, cv) if pv else f"ret {cv}"
        finally:
            self.noraise = saved
        tmp = self.fresh("d")
        return pi + [(tmp, f"dict_of_list_m {src} (fun {x} => {body})")], tmp, "D"

    # ---------------------------------------------------------------- calls
    def args_of(self, e, env):
        if any(k.arg is None for k in e.keywords) or any(isinstance(a, ast.Starred) for a in e.args):
            fail(e, "*args / **kwargs")
        parts = [self.tx(a, env) for a in e.args]
        kparts = {k.arg: self.tx(k.value, env) for k in e.keywords}
        pre = [b for p, _, _ in parts for b in p] + [b for p, _, _ in kparts.values() for b in p]
        return parts, kparts, pre

    def eq_name(self):
        name, mon, _, _ = self.w.term_sigs["__eq__"]
        if not mon:
            fail(self.f, "PolyhedralTerm.__eq__ is expected to be rendered as a function that may raise")
        return name

    def ctor(self, e, parts, kparts, pre):
        """PolyhedralTermList(...) / type(self)(...)"""
        if ("TL", "__init__") not in self.w.sigs:
            fail(e, "constructor used before __init__ is generated")
        return self.do_call(e, self.w.sigs[("TL", "__init__")], None, parts, kparts, pre)

    def tx_call(self, e, env):
        f = e.func
        # PolyhedralTermList.TACTICS[k](term, context, vars_to_elim, refine)
        if isinstance(f, ast.Subscript) and isinstance(f.value, ast.Attribute) and f.value.attr == "TACTICS" \
                and isinstance(f.value.value, ast.Name) and f.value.value.id == PTL and PTL not in env:
            if self.w.tactics_entry is None:
                fail(e, "the class-level dict TACTICS is called outside the dispatcher section")
            pk, ck, tk = self.tx(f.slice, env)
            ck = self.coerce(ck, tk, "N", e, "key of TACTICS")
            parts, kparts, pre = self.args_of(e, env)
            name, mon, params, rty = self.w.tactics_entry
            return self.do_call(e, (f"{name} {ck}", mon, params, rty), None, parts, kparts, pk + pre)
        # type(self)(...)
        if isinstance(f, ast.Call) and isinstance(f.func, ast.Name) and f.func.id == "type" and len(f.args) == 1 \
                and isinstance(f.args[0], ast.Name) and f.args[0].id == "self" and not f.keywords and "type" not in env:
            if rt(env.get("self")) != "TL":
                fail(e, "type(self)(...)")
            self.assumptions.append(f"{PTL}: type(self)(...) in the methods inherited from TermList is "
                                    f"{PTL}.__init__ (checked: the receiver class is {PTL} itself)")
            parts, kparts, pre = self.args_of(e, env)
            return self.ctor(e, parts, kparts, pre)
        if isinstance(f, ast.Name):
            if f.id in env:
                fail(e, "call of a local")
            if f.id == "linprog":
                return self.tx_linprog(e, env)
            if f.id == "Var" and len(e.args) == 1 and not e.keywords and isinstance(e.args[0], ast.Constant) \
                    and isinstance(e.args[0].value, str) and re.fullmatch(r"[A-Za-z0-9_]+", e.args[0].value):
                return [], f'(Var "{e.args[0].value}")', "V"
            parts, kparts, pre = self.args_of(e, env)
            tys = [rt(t) for _, _, t in parts]
            if f.id == PT:
                return self.do_call(e, self.w.term_sigs["__init__"], None, parts, kparts, pre)
            if f.id == PTL:
                return self.ctor(e, parts, kparts, pre)
            if kparts:
                fail(e, f"keyword arguments in a call of {f.id}")
            if f.id in LIST_FUNS and len(parts) == 2:
                ty = rt(self.same(parts[0][2], parts[1][2], e, f"arguments of {f.id}"))
                if ty in {"LV", "LN"}:
                    return pre, f"({f.id} {parts[0][1]} {parts[1][1]})", ty
                if ty == "LT":
                    tmp = self.fresh("v")
                    return pre + [(tmp, f"{f.id}_m {self.eq_name()} {parts[0][1]} {parts[1][1]}")], tmp, "LT"
                fail(e, f"{f.id} on {ty}")
            if f.id == "len" and len(parts) == 1 and (tys[0] in T_ELEM or isinstance(tys[0], P.TV)):
                return pre, f"(len {parts[0][1]})", "N"
            if f.id == "list" and len(parts) == 1:
                if tys[0] == "KV":
                    return pre, f"(py_list {parts[0][1]})", "LV"
                if tys[0] in {"LV", "LF", "LT", "LN"}:
                    return pre, f"(py_list_copy {parts[0][1]})", tys[0]
            if f.id == "float" and len(parts) == 1:
                c = self.coerce(parts[0][1], parts[0][2], "F", e, "argument of float()")
                return pre, f"(py_float {c})", "F"
            if f.id == "range" and len(parts) == 1:
                c = self.coerce(parts[0][1], parts[0][2], "N", e, "argument of range()")
                return pre, f"(py_range {c})", "LN"
            fail(e, f"call to {f.id} on {tys}")
        if not isinstance(f, ast.Attribute):
            fail(e, "call form")
        m = f.attr
        if isinstance(f.value, ast.Name) and f.value.id not in env:
            mod = f.value.id
            parts, kparts, pre = self.args_of(e, env)
            if mod == "np" and m == "abs" and len(parts) == 1 and not kparts:
                c = self.coerce(parts[0][1], parts[0][2], "F", e, "argument of np.abs")
                return pre, f"(qabs {c})", "F"
            if mod == "time" and m == "time" and not parts and not kparts:
                self.assumptions.append(f"{PTL}: time.time() and the timing field of the tactic statistics are erased "
                                        "(base/Py.v:stats has no time field; a literal 0 stored in a time slot is erased too)")
                return [], "py_time", "TIME"
            if mod == PTL:
                if m in self.w.static:
                    entry = self.w.static[m]
                    name, mon, params, rty, fuelled = entry
                    if fuelled:
                        if self.fuel and m == self.f.name:
                            return self.do_call(e, (name, mon, params, rty), "fuel", parts, kparts, pre)
                        fail(e, f"call of the fuelled function {m} outside its own body and outside TACTICS")
                    return self.do_call(e, (name, mon, params, rty), None, parts, kparts, pre)
                if m == "termlist_to_polytope":
                    return self.do_call(e, self.w.prims[m], None, parts, kparts, pre)
                if m == "_context_reduction":
                    return self.do_call(e, self.w.prims[m], None, parts, kparts, pre)
                fail(e, f"{PTL}.{m} is neither translated (or not generated yet) nor a declared primitive")
            fail(e, f"call to {mod}.{m}")
        p0, c0, t0 = self.tx(f.value, env)
        t0 = rt(t0)
        if m == "copy" and (t0 in {"LV", "LF", "LT", "LN"}) and not e.args and not e.keywords:
            return p0, c0, t0
        if t0 == "D" and m == "keys" and not e.args and not e.keywords:
            return p0, f"(dict_keys {c0})", "KV"
        p0, c0, t0 = self.deref(p0, c0, t0, e)
        parts, kparts, pre = self.args_of(e, env)
        pre = p0 + pre
        if t0 == "T":
            if m.startswith("__") or m == "vars" or m not in self.w.term_sigs:
                fail(e, f"method {m} of {PT}")
            return self.do_call(e, self.w.term_sigs[m], c0, parts, kparts, pre)
        if t0 == "TL":
            if m == "simplify":
                return self.do_call(e, self.w.prims["simplify"], c0, parts, kparts, pre)
            if (t0, m) in self.w.sigs and not m.startswith("__"):
                return self.do_call(e, self.w.sigs[(t0, m)], c0, parts, kparts, pre)
            fail(e, f"method {m} of {PTL} is not translated (or not generated yet)")
        fail(e, f"method {m} on a value of type {t0}")

    def tx_linprog(self, e, env):
        """linprog(c=objective, A_ub=mat, b_ub=cons, bounds=(None, None))"""
        kws = {k.arg: k.value for k in e.keywords}
        if e.args or set(kws) != {"c", "A_ub", "b_ub", "bounds"} or ast.unparse(kws["bounds"]) != "(None, None)":
            fail(e, "linprog call other than linprog(c=, A_ub=, b_ub=, bounds=(None, None))")
        pre, cs = [], []
        for name, want in (("c", "LF"), ("A_ub", "MAT"), ("b_ub", "VEC")):
            p, c, t = self.tx(kws[name], env)
            pre += p
            cs.append(self.coerce(c, t, want, e, f"argument {name} of linprog"))
        tmp = self.fresh("v")
        return pre + [(tmp, "p_linprog " + " ".join(cs))], tmp, "RES"

    def do_call(self, node, entry, recv, parts, kparts, pre):
        name, mon, params, rty = entry
        full = self.fill_args(node, name, params, parts, kparts)
        call = " ".join([name] + ([recv] if recv is not None else []) + full)
        if mon:
            tmp = self.fresh("v")
            return pre + [(tmp, call)], tmp, rty
        return pre, f"({call})", rty

    def fill_args(self, node, what, params, parts, kparts):
        if len(parts) > len(params) or set(kparts) - {pn for pn, _, _ in params}:
            fail(node, f"arguments of {what}")
        full = []
        for i, (pn, pt, pd) in enumerate(params):
            if i < len(parts):
                if pn in kparts:
                    fail(node, f"argument {pn} given twice")
                _, c, t = parts[i]
            elif pn in kparts:
                _, c, t = kparts[pn]
            elif pd is not None:
                if not (isinstance(pd, ast.Constant) and (pd.value is None or isinstance(pd.value, bool))):
                    fail(node, f"default value of {pn}")
                _, c, t = self.tx(pd, {})
            else:
                fail(node, f"missing argument {pn} of {what}")
            full.append(self.coerce_any(c, t, pt, node, f"argument {pn} of {what}"))
        return full

    # ---------------------------------------------------------------- statements
    def is_dropped(self, s, env) -> bool:
        if isinstance(s, ast.Expr):
            v = s.value
            if isinstance(v, ast.Constant) and isinstance(v.value, str):
                return True
            if isinstance(v, ast.Call) and isinstance(v.func, ast.Attribute) and isinstance(v.func.value, ast.Name) \
                    and v.func.value.id == "logging" and v.func.attr == "debug" and "logging" not in env:
                for a in v.args:
                    check_message_total(a)
                if v.keywords:
                    fail(s, "keyword argument of logging.debug")
                return True
        # for x in <pure list expression>: <only logging>   (the loop does nothing)
        if isinstance(s, ast.For) and not s.orelse and all(self.is_dropped(b, env) for b in s.body) \
                and isinstance(s.iter, ast.Name) and s.iter.id in env and rt(env[s.iter.id]) in T_ELEM:
            return True
        return False

    def assigned(self, stmts) -> List[str]:
        out: List[str] = []

        def add(n):
            if n not in out:
                out.append(n)

        def base_name(n):
            while isinstance(n, (ast.Attribute, ast.Subscript)):
                n = n.value
            return n

        def target(n):
            if isinstance(n, ast.Name):
                add(n.id)
            elif isinstance(n, ast.Tuple):
                for x in n.elts:
                    target(x)
            elif isinstance(n, (ast.Attribute, ast.Subscript)):
                b = base_name(n)
                if not isinstance(b, ast.Name):
                    fail(n, "assignment target")
                if b.id == "self" and isinstance(n, ast.Attribute):
                    add("self_" + n.attr)
                else:
                    add(b.id)
            else:
                fail(n, "assignment target")

        for s in stmts:
            if isinstance(s, ast.Assign):
                for t in s.targets:
                    target(t)
            elif isinstance(s, (ast.AugAssign, ast.AnnAssign)):
                target(s.target)
            elif isinstance(s, ast.Expr) and isinstance(s.value, ast.Call) and isinstance(s.value.func, ast.Attribute) \
                    and s.value.func.attr in {"append", "remove"}:
                target(s.value.func.value)
            elif isinstance(s, ast.If):
                for n in self.assigned(s.body) + self.assigned(s.orelse):
                    add(n)
            elif isinstance(s, ast.For):
                for n in self.assigned(s.body):
                    add(n)
            elif isinstance(s, ast.Try):
                for n in self.assigned(s.body) + [x for h in s.handlers for x in self.assigned(h.body)]:
                    add(n)
        return out

    def definitely_assigned(self, stmts):
        """names bound on every path that falls off the end of stmts"""
        out = set()
        for s in stmts:
            if isinstance(s, ast.If):
                a, b = self.definitely_assigned(s.body), self.definitely_assigned(s.orelse)
                if self.terminates(s.body):
                    out |= b
                elif self.terminates(s.orelse):
                    out |= a
                else:
                    out |= a & b
            elif isinstance(s, ast.Try):
                a = self.definitely_assigned(s.body)
                for h in s.handlers:
                    if not self.terminates(h.body):
                        a &= self.definitely_assigned(h.body)
                out |= a
            elif isinstance(s, ast.For):
                pass
            elif isinstance(s, (ast.Assign, ast.AnnAssign, ast.AugAssign)):
                out |= set(self.assigned([s]))
        return out

    def join_names(self, branches, env):
        """names to carry out of joined branches: those already defined, and those defined by every branch that
        falls through; other names first bound inside a branch are local to it"""
        names = []
        for b in branches:
            for n in self.assigned(b):
                if n not in names:
                    names.append(n)
        live = [b for b in branches if not self.terminates(b)]
        return [n for n in env if n in names and not n.startswith("%")] \
            + [n for n in names if n not in env and live and all(n in self.definitely_assigned(b) for b in live)]

    def block(self, stmts, env, ind, ctx: NCtx) -> str:
        if not stmts:
            return ctx.fall(env, ind)
        s, rest = stmts[0], list(stmts[1:])
        if self.is_dropped(s, env):
            return self.block(rest, env, ind, ctx)
        if isinstance(s, ast.Return):
            if rest:
                fail(s, "statements after return")
            if ctx.ret is None:
                fail(s, "return inside branches that are joined")
            if s.value is None:
                fail(s, "bare return")
            pre, c = self.tx_expect(s.value, env, self.rtype, "returned value")
            return self.emit_binds(pre, ctx.ret(env, ind, c), ind)
        if isinstance(s, ast.Raise):
            if rest:
                fail(s, "statements after raise")
            return self.tr_raise(s, env, ind)
        if isinstance(s, (ast.Break, ast.Continue)):
            if rest:
                fail(s, "statements after break/continue")
            k = ctx.brk if isinstance(s, ast.Break) else ctx.cont
            if k is None:
                fail(s, "break/continue outside a loop body (or inside branches that are joined)")
            return k(env, ind)
        if isinstance(s, ast.AnnAssign):
            if s.value is None:
                fail(s, "annotated assignment without a value")
            ann = ast.unparse(s.annotation)
            if ann not in T_ANNOT:
                fail(s, f"unknown annotation {ann}")
            return self.tr_assign(s.target, s.value, rest, env, ind, ctx, hint=T_ANNOT[ann], node=s)
        if isinstance(s, ast.Assign):
            if len(s.targets) != 1:
                fail(s, "multiple assignment targets")
            return self.tr_assign(s.targets[0], s.value, rest, env, ind, ctx, node=s)
        if isinstance(s, ast.AugAssign):
            return self.tr_augassign(s, rest, env, ind, ctx)
        if isinstance(s, ast.Expr):
            return self.tr_expr_stmt(s, rest, env, ind, ctx)
        if isinstance(s, ast.If):
            return self.tr_if(s, rest, env, ind, ctx)
        if isinstance(s, ast.For):
            return self.tr_for(s, rest, env, ind, ctx)
        if isinstance(s, ast.Try):
            return self.tr_try(s, rest, env, ind, ctx)
        fail(s, "statement form")

    def bind_value(self, name, pre, c, ind):
        if pre and pre[-1][0] == c:
            return self.emit_binds(pre[:-1], "", ind) + self.emit_binds([(name, pre[-1][1])], "", ind)
        return self.emit_binds(pre, f"{ind}let {name} := {c} in\n", ind)

    def need_owned(self, node, name, env, what):
        if name not in self.owned(env):
            fail(node, f"in-place {what} of `{name}`, which is not known to be an object built by this function and "
                       "referred to by no other name (another object would be mutated)")

    def tr_assign(self, tgt, value, rest, env, ind, ctx, hint=None, node=None):
        env2 = dict(env)
        if isinstance(tgt, ast.Name):
            tmp0 = self.tmp
            try:
                pre, c, t = self.tx(value, env)
            except Unsupported:
                self.tmp = tmp0          # the names handed out by the failed attempt are free again
                # `x = [E for v in IT if C1 if C2 ...]` whose conditions may raise has no direct rendering; it IS the loop
                #     x = [];  for v in IT:  if C1:  if C2:  x.append(E)
                # provided v is a plain name used nowhere else in the function (a comprehension does not leak its variable)
                g = value.generators[0] if isinstance(value, ast.ListComp) and len(value.generators) == 1 else None
                if g is None or g.is_async or not isinstance(g.target, ast.Name) or not g.ifs or hint is not None or tgt.id in env \
                        or g.target.id in env or g.target.id == tgt.id \
                        or sum(1 for n in ast.walk(self.f) if isinstance(n, ast.Name) and n.id == g.target.id
                               and not any(n is m for m in ast.walk(value))) > 0:
                    raise
                app = ast.Expr(value=ast.Call(func=ast.Attribute(value=ast.Name(id=tgt.id, ctx=ast.Load()), attr="append", ctx=ast.Load()),
                                              args=[value.elt], keywords=[]))
                inner = [app]
                for cnd in reversed(g.ifs):
                    inner = [ast.If(test=cnd, body=inner, orelse=[])]
                loop = ast.For(target=g.target, iter=g.iter, body=inner, orelse=[])
                init = ast.Assign(targets=[ast.Name(id=tgt.id, ctx=ast.Store())], value=ast.List(elts=[], ctx=ast.Load()))
                new = [ast.copy_location(init, node or value), ast.copy_location(loop, node or value)]
                for n in new:
                    ast.fix_missing_locations(n)
                return self.block(new + list(rest), env, ind, ctx)
            if hint is not None:
                c = self.coerce_any(c, t, hint, node, "annotated assignment")
                t = hint
            if rt(t) == "NONE":
                fail(node, "assignment of None")
            if tgt.id == "self" or tgt.id in self.w.consts or tgt.id == "_":
                fail(node, f"assignment to {tgt.id}")
            if tgt.id in env:
                t = self.same(env[tgt.id], t, node, f"{tgt.id} is re-assigned")
            env2[tgt.id] = t
            env2 = self.escaped(env2, value)
            env2 = self.with_owned(env2, tgt.id, self.is_fresh(value, env))
            if isinstance(value, ast.Name):
                env2 = self.with_owned(env2, value.id, False)      # a second name for the same object
            if rt(t) == "TIME":
                return self.emit_binds(pre, "", ind) + self.block(rest, env2, ind, ctx)
            return self.bind_value(self.cid(tgt.id), pre, c, ind) + self.block(rest, env2, ind, ctx)
        if isinstance(tgt, ast.Tuple) and all(isinstance(x, ast.Name) for x in tgt.elts):
            pre, c, t = self.tx(value, env)
            t = rt(t)
            if isinstance(t, TupleT):
                fail(node, "unpacking of a tuple display with untyped components")
            tys = split_tuple(t) if isinstance(t, str) and "*" in t else fail(node, f"unpacking a value of type {t}")
            if len(tys) != len(tgt.elts):
                fail(node, f"tuple arity vs type {t}")
            names = [x.id for x in tgt.elts]
            if len(set(names)) != len(names) or "self" in names or "_" in names:
                fail(node, "tuple target")
            fresh = isinstance(value, ast.Call) and isinstance(value.func, ast.Attribute) \
                and value.func.attr in self.w.fresh_results
            env2 = self.escaped(env2, value)
            for n, ty in zip(names, tys):
                if n in env:
                    self.same(env[n], ty, node, f"{n} is re-assigned")
                env2[n] = ty
                env2 = self.with_owned(env2, n, fresh and ty in {"TL", "T"})
            pat = "'(" + ", ".join(self.cid(n) for n, ty in zip(names, tys) if ty != "TIME") + ")"
            return self.bind_value(pat, pre, c, ind) + self.block(rest, env2, ind, ctx)
        if isinstance(tgt, ast.Attribute) and isinstance(tgt.value, ast.Name):
            obj, fld = tgt.value.id, tgt.attr
            if obj == "self":
                if self.f.name != "__init__" or fld != "terms":
                    fail(node, "assignment to a field of self (only self.terms inside __init__ is supported)")
                pre, c, t = self.tx(value, env)
                c = self.coerce(c, t, "LT", node, "self.terms")
                if not self.is_fresh(value, env):
                    fail(node, "self.terms must be assigned a list built by __init__ itself (e.g. a copy)")
                env2["self_terms"] = "LT"
                return self.bind_value("self_terms", pre, c, ind) + self.block(rest, env2, ind, ctx)
            if rt(env.get(obj)) == "TL" and fld == "terms":
                pre, c, t = self.tx(value, env)
                c = self.coerce(c, t, "LT", node, f"{obj}.terms")
                self.need_owned(node, obj, env, "update")
                return self.bind_value(self.cid(obj), pre, c, ind) + self.block(rest, self.escaped(env2, value), ind, ctx)
            fail(node, "attribute assignment")
        if isinstance(tgt, ast.Subscript):
            # Python evaluates the right-hand side first, then the container and the index
            pre, c, t = self.tx(value, env)
            name, container, ctype, rebuild = self.container_of(tgt.value, env, node)
            if ctype == "D":
                pk, ck, tk = self.tx(tgt.slice, env)
                if rt(tk) != "V":
                    fail(node, f"dict key of type {rt(tk)}")
                c = self.coerce(c, t, "F", node, "dict value")
                new = rebuild(f"(dict_set {container} {ck} {c})")
                return self.emit_binds(pre + pk, f"{ind}let {self.cid(name)} := {new} in\n", ind) \
                    + self.block(rest, self.escaped(env2, value), ind, ctx)
            pi, ci = self.index_nat(tgt.slice, env)
            c = self.coerce(c, t, T_ELEM[ctype], node, "list element")
            tmp = self.fresh("l")
            return self.emit_binds(pre + pi + [(tmp, f"list_set_m {container} {ci} {c}")],
                                   f"{ind}let {self.cid(name)} := {rebuild(tmp)} in\n", ind) \
                + self.block(rest, self.escaped(env2, value), ind, ctx)
        fail(node, "assignment target")

    def container_of(self, base, env, node):
        """the object updated by `base[...] = v`: a local list / dict, `obj.terms` or `obj.variables` of a local
        object.  Returns (local name, coq of the container, its type, rebuild: new container -> new value of the name)"""
        if isinstance(base, ast.Name) and base.id in env:
            t = rt(env[base.id])
            if t in {"LF", "LV", "LT", "LN", "D"}:
                self.need_owned(node, base.id, env, "update")
                return base.id, self.cid(base.id), t, (lambda x: x)
        if isinstance(base, ast.Attribute) and isinstance(base.value, ast.Name) and base.value.id in env \
                and base.value.id != "self":
            obj, t = base.value.id, rt(env[base.value.id])
            if t == "TL" and base.attr == "terms":
                self.need_owned(node, obj, env, "update")
                return obj, self.cid(obj), "LT", (lambda x: x)
            if t == "T" and base.attr == "variables":
                self.need_owned(node, obj, env, "update")
                n = self.cid(obj)
                return obj, f"(tvars {n})", "D", (lambda x: f"set_variables {n} {x}")
        fail(node, "subscript assignment target")

    def tr_augassign(self, s, rest, env, ind, ctx):
        tgt = s.target
        if isinstance(tgt, ast.Name):
            fake = ast.BinOp(left=ast.Name(id=tgt.id, ctx=ast.Load()), op=s.op, right=s.value)
            ast.copy_location(fake, s)
            ast.fix_missing_locations(fake)
            if tgt.id not in env:
                fail(s, "augmented assignment to an undefined name")
            pre, c, t = self.tx(fake, env)
            if rt(t) not in {"F", "N"}:
                fail(s, f"augmented assignment on {rt(t)}")
            return self.bind_value(self.cid(tgt.id), pre, c, ind) + self.block(rest, dict(env), ind, ctx)
        opn = {ast.Add: "qadd", ast.Sub: "qsub", ast.Mult: "qmul"}.get(type(s.op)) or fail(s, "augmented operator")
        if isinstance(tgt, ast.Subscript):
            # l[j] op= e : evaluates l, j, loads l[j] (IndexError), then e, then stores
            name, container, ctype, rebuild = self.container_of(tgt.value, env, s)
            if ctype != "LF":
                fail(s, f"augmented assignment to an element of {ctype}")
            pi, ci = self.index_nat(tgt.slice, env)
            old = self.fresh("t")
            pre, c, t = self.tx(s.value, env)
            c = self.coerce(c, t, "F", s, "augmented assignment")
            tmp = self.fresh("l")
            binds = pi + [(old, f"list_get_m {container} {ci}")] + pre + [(tmp, f"list_set_m {container} {ci} ({opn} {old} {c})")]
            return self.emit_binds(binds, f"{ind}let {self.cid(name)} := {rebuild(tmp)} in\n", ind) \
                + self.block(rest, env, ind, ctx)
        if isinstance(tgt, ast.Attribute) and isinstance(tgt.value, ast.Name) and tgt.attr == "constant" \
                and rt(env.get(tgt.value.id)) == "T" and tgt.value.id != "self":
            obj = tgt.value.id
            self.need_owned(s, obj, env, "update")
            pre, c, t = self.tx(s.value, env)
            c = self.coerce(c, t, "F", s, "augmented assignment")
            n = self.cid(obj)
            return self.emit_binds(pre, f"{ind}let {n} := set_constant {n} ({opn} (tconst {n}) {c}) in\n", ind) \
                + self.block(rest, env, ind, ctx)
        fail(s, "augmented assignment target")

    def tr_expr_stmt(self, s, rest, env, ind, ctx):
        v = s.value
        if isinstance(v, ast.Call) and isinstance(v.func, ast.Attribute) and not v.keywords and len(v.args) == 1 \
                and v.func.attr in {"append", "remove"}:
            m, base = v.func.attr, v.func.value
            if m == "append" and isinstance(base, ast.Name) and base.id in env:
                self.need_owned(s, base.id, env, "append")
                pre, c, t = self.tx(v.args[0], env)
                lt = env[base.id]
                if isinstance(rt(t), TupleT):
                    fail(s, "append of a tuple with untyped components")
                if is_num_open(t):
                    fail(s, "append of an untyped int literal")
                want = T_LISTOF.get(rt(t)) or fail(s, f"append of a value of type {rt(t)}")
                self.same(lt, want, s, "append")
                n = self.cid(base.id)
                return self.emit_binds(pre, f"{ind}let {n} := ({n} ++ [{c}])%list in\n", ind) \
                    + self.block(rest, self.escaped(env, v.args[0]), ind, ctx)
            if m == "remove" and isinstance(base, ast.Attribute) and base.attr == "terms" \
                    and isinstance(base.value, ast.Name) and rt(env.get(base.value.id)) == "TL" and base.value.id != "self":
                obj = base.value.id
                self.need_owned(s, obj, env, "remove")
                pre, c, t = self.tx(v.args[0], env)
                c = self.coerce(c, t, "T", s, "argument of remove")
                n = self.cid(obj)
                tmp = self.fresh("l")
                return self.emit_binds(pre + [(tmp, f"list_remove_m {self.eq_name()} {c} {n}")],
                                       f"{ind}let {n} := {tmp} in\n", ind) + self.block(rest, env, ind, ctx)
            fail(s, "append / remove on something else than a local list")
        if isinstance(v, ast.Call):
            # a call whose result is discarded
            pre, c, t = self.tx(v, env)
            if not pre:
                fail(s, "expression statement without effect")
            return self.emit_binds(pre, "", ind) + self.block(rest, self.escaped(env, v), ind, ctx)
        fail(s, "expression statement")

    NON_RETAINING = set(LIST_FUNS) | {"len", "list", "float", "range", "str", "enumerate"}

    def escaped(self, env, node, keep=()):
        """env after evaluating node: names passed to a call that may keep them / stored in a tuple or list are no
        longer exclusively owned (the list functions, len, list, ... build new objects and keep nothing)"""
        out = env
        for n in ast.walk(node):
            args = []
            if isinstance(n, ast.Call):
                if isinstance(n.func, ast.Name) and n.func.id in self.NON_RETAINING:
                    continue
                args = list(n.args) + [k.value for k in n.keywords]
            elif isinstance(n, (ast.Tuple, ast.List, ast.Return)):
                args = list(getattr(n, "elts", [])) + ([n.value] if isinstance(n, ast.Return) and n.value else [])
            for a in args:
                if isinstance(a, ast.Name) and a.id in self.owned(out) and a.id not in keep:
                    out = self.with_owned(out, a.id, False)
        return out

    def meet(self, env, envs, with_pre):
        own = None if not with_pre else self.owned(env)
        for e2 in envs:
            own = self.owned(e2) if own is None else own & self.owned(e2)
        env2 = dict(env)
        env2["%owned"] = own if own is not None else self.owned(env)
        return env2

    def narrowing(self, test, env):
        """`X is None` / `X is not None` on a local of Optional type -> (name, inner type, positive?)"""
        if isinstance(test, ast.Compare) and len(test.ops) == 1 and isinstance(test.ops[0], (ast.Is, ast.IsNot)) \
                and isinstance(test.left, ast.Name) and isinstance(test.comparators[0], ast.Constant) \
                and test.comparators[0].value is None and test.left.id in env:
            t = rt(env[test.left.id])
            if isinstance(t, str) and t in T_OPT:
                return test.left.id, T_OPT[t], isinstance(test.ops[0], ast.Is)
        return None

    def isinstance_all(self, test, env):
        """all(isinstance(t, PolyhedralTerm) for t in X) with X a list of terms in the typed model"""
        if isinstance(test, ast.Call) and isinstance(test.func, ast.Name) and test.func.id == "all" \
                and "all" not in env and len(test.args) == 1 and not test.keywords \
                and isinstance(test.args[0], ast.GeneratorExp) and len(test.args[0].generators) == 1:
            g = test.args[0].generators[0]
            el = test.args[0].elt
            if isinstance(g.target, ast.Name) and not g.ifs and isinstance(g.iter, ast.Name) \
                    and rt(env.get(g.iter.id)) in {"LT"} \
                    and ast.unparse(el) == f"isinstance({g.target.id}, {PT})":
                return True
        return False

    def none_default_idiom(self, s, env):
        """`if X is None: X = E` on an optional parameter"""
        if s.orelse or len(s.body) != 1 or not isinstance(s.body[0], ast.Assign):
            return None
        a = s.body[0]
        if len(a.targets) != 1 or not isinstance(a.targets[0], ast.Name):
            return None
        nar = self.narrowing(s.test, env)
        if nar is None or nar[0] != a.targets[0].id or not nar[2]:
            return None
        x, inner, _ = nar
        p, c, tv = self.tx(a.value, {k: v for k, v in env.items() if k != x})
        if p:
            fail(s, "default value that may raise")
        c = self.coerce(c, tv, inner, s, f"default of {x}")
        return x, inner, f"match {self.cid(x)} with None => {c} | Some v_ => v_ end"

    def tr_if(self, s, rest, env, ind, ctx):
        idiom = self.none_default_idiom(s, env)
        if idiom:
            x, inner, c = idiom
            env2 = dict(env)
            env2[x] = inner
            return f"{ind}let {self.cid(x)} := {c} in\n" + self.block(rest, env2, ind, ctx)
        body, orelse = list(s.body), list(s.orelse)
        if self.isinstance_all(s.test, env):
            if not (len(orelse) == 1 and isinstance(orelse[0], ast.Raise)):
                fail(s, "isinstance test whose else branch is not a single raise")
            self.assumptions.append(f"{self.where}: `all(isinstance(t, {PT}) for t in ...)` is True in the typed model "
                                    "(the list holds terms); the raising else-branch is dropped")
            return self.block(body + rest, env, ind, ctx)
        nar = self.narrowing(s.test, env)
        if nar is not None:
            x, inner, is_none_test = nar
            pre, cond = [], None
            env_some = dict(env)
            env_some[x] = inner
            env_then, env_else = (env, env_some) if is_none_test else (env_some, env)
        else:
            pre, c, t = self.tx(s.test, env)
            cond = self.truth(c, t, s.test)
            env = self.escaped(env, s.test)
            env_then = env_else = env
        tb, te = self.terminates(body), self.terminates(orelse)
        if tb and te and rest:
            fail(s, "unreachable code after if")

        def render(t_then, t_else, i, join):
            if cond is not None:
                if join:
                    return f"{i}  (if {cond} then\n{t_then}\n{i}   else\n{t_else})"
                return f"{i}if {cond} then\n{t_then}\n{i}else\n{t_else}"
            t_none, t_some = (t_then, t_else) if is_none_test else (t_else, t_then)
            j = i + "  " if join else i
            txt = (f"{j}{'(' if join else ''}match {self.cid(x)} with\n{j}| None =>\n{t_none}\n"
                   f"{j}| Some {self.cid(x)} =>\n{t_some}\n{j}end{')' if join else ''}")
            return txt

        ind2 = ind + "  "
        if tb or te or not rest:
            then_txt = self.block(body + ([] if tb else rest), env_then, ind2, ctx)
            else_txt = self.block(orelse + ([] if te else rest), env_else, ind2, ctx)
            return self.emit_binds(pre, render(then_txt, else_txt, ind, False), ind)
        # both branches fall through and something follows: join
        names = self.join_names([body, orelse], env)
        envs = []
        fall = self.join_fall(names, envs)
        jctx = NCtx(fall)
        ind3 = ind + "    "
        t_body = self.block(body, env_then, ind3, jctx)
        t_else = self.block(orelse, env_else, ind3, jctx)
        env3 = self.join_env(names, env, envs, s)
        t_body, t_else = self.join_fill(t_body, names, envs), self.join_fill(t_else, names, envs)
        _, pat, _ = self.tupv(names, env3)
        txt = render(t_body, t_else, ind, True)
        head = f"{ind}{pat} <-\n{txt} ;;\n" if self.monadic else f"{ind}let {pat} :=\n{txt} in\n"
        return self.emit_binds(pre, head, ind) + self.block(rest, env3, ind, ctx)

    def join_fall(self, names, envs):
        """fall-through of a joined branch: the tuple of joined names, rendered once the join has fixed their types
        (a name whose type turns out to be a wall-clock value is erased)"""
        def fall(env2, i2):
            envs.append(env2)
            return f"{i2}{self.mret(chr(2) + str(id(envs)) + ':' + str(len(envs) - 1) + chr(2))}"
        return fall

    def join_fill(self, text, names, envs):
        def repl(m):
            return self.tupv(names, envs[int(m.group(1))])[0]
        return re.sub(chr(2) + str(id(envs)) + r":(\d+)" + chr(2), repl, text)

    def join_env(self, names, env, envs, node):
        env3 = dict(env)
        for n in names:
            ty = None
            for e2 in envs:
                if n not in e2:
                    fail(node, f"joined variable {n} is not defined on every path")
                ty = e2[n] if ty is None else self.same(ty, e2[n], node, f"joined variable {n}")
            if ty is None:
                ty = env.get(n) or fail(node, f"joined variable {n}")
            if n in env:
                ty = self.same(env[n], ty, node, f"joined variable {n}")
            env3[n] = ty
        return self.meet(env3, envs, with_pre=False)

    def tr_for(self, s, rest, env, ind, ctx):
        if s.orelse:
            fail(s, "for ... else")
        env2 = dict(env)
        it = s.iter
        prim_items = False
        if isinstance(it, ast.Call) and isinstance(it.func, ast.Name) and it.func.id == "enumerate" \
                and "enumerate" not in env and len(it.args) == 1 and not it.keywords:
            pi, ci, ti, elty = self.comp_iter(it.args[0], env, s)
            if not (isinstance(s.target, ast.Tuple) and len(s.target.elts) == 2
                    and all(isinstance(x, ast.Name) for x in s.target.elts)):
                fail(s, "target of a loop over enumerate(...)")
            targets = [x.id for x in s.target.elts]
            env2[targets[0]], env2[targets[1]] = "N", elty
            ci = f"(enumerate {ci})"
            loopvars = f"'({self.cid(targets[0])}, {self.cid(targets[1])})"
        elif isinstance(it, ast.Call) and isinstance(it.func, ast.Attribute) and it.func.attr == "items" \
                and not it.args and not it.keywords:
            pi, ci, ti = self.tx(it.func.value, env)
            if rt(ti) != "D":
                fail(s, f".items() of a value of type {rt(ti)}")
            if not (isinstance(s.target, ast.Tuple) and len(s.target.elts) == 2
                    and all(isinstance(x, ast.Name) for x in s.target.elts)):
                fail(s, "target of a loop over d.items()")
            targets = [x.id for x in s.target.elts]
            env2[targets[0]], env2[targets[1]] = "V", "F"
            loopvars = f"{self.cid(targets[0])} {self.cid(targets[1])}"
            prim_items = True
        else:
            pi, ci, ti, elty = self.comp_iter(it, env, s)
            if not isinstance(s.target, ast.Name):
                fail(s, "loop target")
            targets = [s.target.id]
            env2[s.target.id] = elty
            loopvars = self.cid(s.target.id)
        if len(set(targets)) != len(targets):
            fail(s, "loop targets")
        env, env2 = self.escaped(env, s.iter), self.escaped(env2, s.iter)
        for t_ in targets:
            env2 = self.with_owned(env2, t_, False)
        body_assigned = self.assigned(list(s.body))
        if set(body_assigned) & set(targets):
            fail(s, "loop body rebinds the loop variable")
        for t_ in targets:
            if t_ in env:
                fail(s, f"loop variable {t_} shadows a local (it would stay bound after the loop)")
        # the iterated object must not be updated by the body (a call builds a new list: that is fine)
        alias = it
        while isinstance(alias, ast.Attribute):
            alias = alias.value
        if isinstance(alias, ast.Call) and isinstance(alias.func, ast.Name) and alias.func.id == "enumerate":
            alias = alias.args[0]
            while isinstance(alias, ast.Attribute):
                alias = alias.value
        if isinstance(alias, ast.Call) and isinstance(alias.func, ast.Attribute) and alias.func.attr == "items":
            alias = alias.func.value
        if isinstance(alias, ast.Name) and alias.id in body_assigned:
            fail(s, "loop body updates the object it iterates over")
        # names bound first inside the body are local to it; the others are carried, in the order in which the
        # function first bound them (stable under reordering of the statements of the body)
        accs = [n for n in env if n in body_assigned and not n.startswith("%")]
        val, pat, mpat = self.tupv(accs, env)
        has_ret = any(isinstance(n, ast.Return) for st in s.body for n in ast.walk(st))
        if has_ret and ctx.ret is None:
            fail(s, "return inside a loop inside branches that are joined")
        if has_ret and prim_items:
            fail(s, "return inside a loop over d.items()")
        kn, kb = ("Next", "Stop") if has_ret else ("Continue", "Break")
        envs = []

        def leave(kind):
            def k(e3, i3):
                envs.append(e3)
                v3, _, _ = self.tupv(accs, e3)
                return f"{i3}{self.mret(f'({kind} {v3})')}"
            return k

        def retk(e3, i3, c):
            return f"{i3}{self.mret(f'(Return {c})')}"

        body = self.block(list(s.body), env2, ind + "    ", NCtx(leave(kn), leave(kb), leave(kn), retk if has_ret else None))
        for n in accs:
            for e3 in envs:
                self.same(env[n], e3[n], s, f"loop variable {n}")
        env = self.meet(env, envs, with_pre=True)
        m = "_m" if self.monadic else ""
        if prim_items:
            call = f"for_items{m} {ci} {val} (fun {pat} {loopvars} =>\n{body})"
        else:
            prim = ("for_ret" if has_ret else "for_list") + m
            call = f"{prim} {ci} {val} (fun {pat} {loopvars} =>\n{body})"
        if not has_ret:
            txt = f"{ind}{pat} <- {call} ;;\n" if self.monadic else f"{ind}let {pat} := {call} in\n"
            return self.emit_binds(pi, txt, ind) + self.block(rest, env, ind, ctx)
        after = self.block(rest, env, ind + "    ", ctx)
        retv = ctx.ret(env, ind + "    ", "v_")
        arms = f"{ind}| Done {mpat} =>\n{after}\n{ind}| Returned v_ =>\n{retv}\n{ind}end"
        if self.monadic:
            r = self.fresh("r")
            return self.emit_binds(pi, f"{ind}{r} <- {call} ;;\n{ind}match {r} with\n{arms}", ind)
        return self.emit_binds(pi, f"{ind}match {call} with\n{arms}", ind)

    def tr_try(self, s, rest, env, ind, ctx):
        if s.orelse or s.finalbody or len(s.handlers) != 1 or not s.body:
            fail(s, "try form")
        h = s.handlers[0]
        # `try: B  except E: return c1` followed by `return c2` (c1, c2 constants, no return inside B) is the flag form
        #     retval = c2;  try: B  except E: retval = c1;  return retval
        # (a constant has no effect, so binding it before B changes nothing): normalised to that form, which is translated below
        if len(rest) == 1 and isinstance(rest[0], ast.Return) and isinstance(rest[0].value, ast.Constant) \
                and len(h.body) == 1 and isinstance(h.body[0], ast.Return) and isinstance(h.body[0].value, ast.Constant) \
                and not any(isinstance(n, ast.Return) for b in s.body for n in ast.walk(b)) \
                and "retval" not in env and not any(isinstance(n, ast.Name) and n.id == "retval" for n in ast.walk(self.f)):
            flag = ast.Name(id="retval", ctx=ast.Store())
            pre = ast.copy_location(ast.Assign(targets=[flag], value=rest[0].value), s)
            h2 = ast.ExceptHandler(type=h.type, name=h.name,
                                   body=[ast.copy_location(ast.Assign(targets=[ast.Name(id="retval", ctx=ast.Store())], value=h.body[0].value), h.body[0])])
            t2 = ast.copy_location(ast.Try(body=list(s.body), handlers=[ast.copy_location(h2, h)], orelse=[], finalbody=[]), s)
            ret = ast.copy_location(ast.Return(value=ast.copy_location(ast.Name(id="retval", ctx=ast.Load()), rest[0])), rest[0])
            for n in (pre, t2, ret):
                ast.fix_missing_locations(n)
            return self.block([pre, t2, ret], env, ind, ctx)
        if h.type is None or (isinstance(h.type, ast.Name) and h.type.id in {"Exception", "BaseException"}
                              and h.type.id not in env):
            prim = "try_except_any"
            self.assumptions.append(f"{self.where}: `except Exception` / bare except catches every Python exception "
                                    "(every error of the monad except the replay artefact OracleMiss)")
        elif isinstance(h.type, ast.Name) and h.type.id == "ValueError" and "ValueError" not in env:
            prim = "try_except"
        else:
            fail(s, "except clause other than `except ValueError` / `except Exception` / bare except")
        if not self.monadic:
            fail(s, f"try in {self.where}, which is declared pure")
        env_h = dict(env)
        if h.name is not None:
            if h.name in env:
                fail(s, f"exception name {h.name} shadows a local")
            env_h[h.name] = "EXC"
            # except ValueError as e: raise e   -- re-raises what was caught, unchanged
            if len(h.body) == 1 and isinstance(h.body[0], ast.Raise) and isinstance(h.body[0].exc, ast.Name) \
                    and h.body[0].exc.id == h.name and h.body[0].cause is None:
                self.assumptions.append(f"{self.where}: `try: ... except ValueError as e: raise e` re-raises the caught "
                                        "exception unchanged: rendered as the body alone (tracebacks are not modelled)")
                return self.block(list(s.body) + rest, env, ind, ctx)
        ind2 = ind + "    "
        if not rest:
            # last statement of its block: body and handler both continue as the enclosing block does
            b_txt = self.block(list(s.body), env, ind2, ctx)
            h_txt = self.block(list(h.body), env_h, ind2, ctx)
            return f"{ind}{prim}\n{ind}  (\n{b_txt})\n{ind}  (\n{h_txt})"
        names = self.join_names([list(s.body), list(h.body)], env)
        envs = []
        jctx = NCtx(self.join_fall(names, envs))
        b_txt = self.block(list(s.body), env, ind2, jctx)
        h_txt = self.block(list(h.body), env_h, ind2, jctx)
        env3 = self.join_env(names, env, envs, s)
        b_txt, h_txt = self.join_fill(b_txt, names, envs), self.join_fill(h_txt, names, envs)
        env3.pop(h.name, None)
        _, pat, _ = self.tupv(names, env3)
        return f"{ind}{pat} <- {prim}\n{ind}  (\n{b_txt})\n{ind}  (\n{h_txt}) ;;\n" + self.block(rest, env3, ind, ctx)

    def tr_raise(self, s, env, ind):
        exc = s.exc
        if s.cause is not None:
            if not (isinstance(s.cause, ast.Name) and env.get(s.cause.id) == "EXC"):
                fail(s, "raise ... from something else than the caught exception")
            self.assumptions.append(f"{PTL}: `raise X from e` raises X; the cause chain is not modelled")
        if isinstance(exc, ast.Call) and isinstance(exc.func, ast.Name) and not exc.keywords:
            name = exc.func.id
            for a in exc.args:
                check_message_total(a)
            if exc.args:
                self.assumptions.append(f"{PTL}: exception messages are dropped (checked to be built from total "
                                        "operations); the exception TYPE is kept")
        elif isinstance(exc, ast.Name) and env.get(exc.id) != "EXC":
            name = exc.id
        else:
            fail(s, "raise form")
        if name not in ERRKIND or name in env:
            fail(s, f"exception class {name}")
        if not self.monadic:
            fail(s, f"raise in {self.where}, which is declared pure")
        return f"{ind}raise {ERRKIND[name]}"

    # ---------------------------------------------------------------- whole function
    def end_of_function(self, env, ind):
        if self.f.name == "__init__":
            if "self_terms" not in env:
                fail(self.f, "__init__ does not assign self.terms on every path")
            return f"{ind}{self.mret('self_terms')}"
        fail(self.f, "function falls off the end (returns None)")

    def translate(self, params) -> str:
        env = {n: t for n, t, _ in params}
        env["%owned"] = frozenset()
        if self.f.name != "__init__" and self.w.selfparam:
            env["self"] = self.w.selfty
        return self.block(list(self.f.body), env, "  ",
                          NCtx(self.end_of_function, None, None, lambda e, i, c: f"{i}{self.mret(c)}"))


# ================================================================ the generator
TL_OPNAME = {"__init__": "init", "__or__": "or"}
# (method, source class, monadic?, in the dispatcher section?)
TL_PLAN = [
    ("__init__", PTL, False, False), ("vars", "TermList", False, False), ("copy", "TermList", False, False),
    ("get_terms_with_vars", "TermList", False, False), ("__or__", "TermList", True, False),
    ("lacks_constraints", PTL, False, False), ("evaluate", PTL, True, False), ("contains_behavior", PTL, True, False),
    ("_get_kaykobad_context", PTL, True, False), ("_tactic_1", PTL, True, False), ("_tactic_5", PTL, True, False),
    ("_tactic_trivial", PTL, True, False), ("_tactic_2", PTL, True, False), ("_tactic_3", PTL, True, False),
    ("_tactic_4", PTL, True, False),
    ("_transform_term", PTL, True, True), ("_transform", PTL, True, True),
    ("elim_vars_by_refining", PTL, True, True), ("elim_vars_by_relaxing", PTL, True, True),
]
TL_STATIC = {"_get_kaykobad_context", "_tactic_1", "_tactic_2", "_tactic_3", "_tactic_4", "_tactic_5", "_tactic_trivial",
             "_transform_term"}
TL_SKIP = ["__str__", "__hash__", "to_str_list", "simplify", "refines", "is_empty", "optimize", "termlist_to_polytope",
           "polytope_to_termlist", "reduce_polytope", "verify_polytope_containment", "is_polytope_empty",
           "_context_reduction", "_get_tlp_context"]
# self-recursive functions get an explicit fuel parameter; calls from outside start with 1 + len(<this parameter>)
FUEL_MEASURE = {"_tactic_4": "context"}
TACTIC_PARAMS = [("term", "T", None), ("context", "TL", None), ("vars_to_elim", "LV", None), ("refine", "B", None)]
FRESH_RESULTS = {"_transform", "simplify", "evaluate", "get_terms_with_vars", "copy"}


def tl_name(meth: str) -> str:
    return f"{PTL}_{TL_OPNAME.get(meth, meth)}"


def tl_signature(cls, f, static):
    a = f.args
    if a.vararg or a.kwarg or a.kwonlyargs or a.posonlyargs:
        raise Unsupported(f"signature of {cls}.{f.name}")
    args = list(a.args)
    defaults = [None] * (len(args) - len(a.defaults)) + list(a.defaults)
    if not static:
        if not args or args[0].arg != "self":
            raise Unsupported(f"signature of {cls}.{f.name}: first parameter is not self")
        args, defaults = args[1:], defaults[1:]
    params = []
    for arg, d in zip(args, defaults):
        ann = ast.unparse(arg.annotation) if arg.annotation is not None else None
        ty = T_ANNOT_BY_NAME.get((ann, arg.arg)) or T_ANNOT.get(ann)
        if ty is None:
            fail(arg, f"annotation {ann} of parameter {arg.arg} of {cls}.{f.name}")
        if d is not None and not (isinstance(d, ast.Constant) and (d.value is None or isinstance(d.value, bool))):
            fail(arg, "default value")
        if d is not None and d.value is None and ty not in T_OPT:
            fail(arg, "None default of a non-optional parameter")
        params.append((arg.arg, ty, d))
    rann = ast.unparse(f.returns) if f.returns is not None else None
    if f.name == "__init__":
        if rann not in (None, "None"):
            fail(f, "return annotation of __init__")
        rty = "TL"
    else:
        rty = T_RANNOT.get(rann) or fail(f, f"return annotation {rann} of {cls}.{f.name}")
    return params, rty


def methods_of(cdef, cls):
    ms = {}
    for n in cdef.body:
        if isinstance(n, ast.FunctionDef):
            if n.name in ms:
                raise Unsupported(f"{cls}.{n.name} defined twice")
            ms[n.name] = n
    return ms


def term_interface(poly_path):
    """how the methods of PolyhedralTerm are called: names / parameter types from the Python class, whether the
    generated function may raise from the text that gen_term produces for the same source"""
    text, _ = P.gen_term(poly_path)          # raises Unsupported when PolyhedralTerm is outside its subset
    mod = ast.parse(open(poly_path).read())
    ms = methods_of(class_def(mod, PT), PT)
    sigs = {}
    for name in P.PT_METHODS:
        if name == "get_matching_vars":
            continue
        f = ms[name]
        coq = P.pt_name(name)
        m = re.search(r"^Definition " + re.escape(coq) + r" (.*) : (M )?([^\n]*) :=$", text, re.M)
        if not m:
            raise Unsupported(f"{coq} not found in the text generated for gen/TermGen.v")
        params = []
        a = f.args
        defaults = [None] * (len(a.args) - len(a.defaults)) + list(a.defaults)
        for arg, d in list(zip(a.args, defaults))[1:]:
            ann = ast.unparse(arg.annotation) if arg.annotation is not None else None
            if ann not in P.PT_ANNOT:
                fail(arg, f"annotation {ann} of {PT}.{name}")
            params.append((arg.arg, P.PT_ANNOT[ann], d))
        rann = ast.unparse(f.returns) if f.returns is not None else None
        rty = "T" if name == "__init__" else P.PT_ANNOT.get(rann) or fail(f, f"return annotation of {PT}.{name}")
        sigs[name] = (coq, bool(m.group(2)), params, rty)
    return sigs


def check_environment(mod):
    imported = P.n_imports(mod)
    for name, want in (("np", "numpy"), ("logging", "logging"), ("time", "time"),
                       ("linprog", "scipy.optimize.linprog"),
                       ("list_union", "pacti.utils.lists.list_union"), ("list_diff", "pacti.utils.lists.list_diff"),
                       ("list_intersection", "pacti.utils.lists.list_intersection"), ("Var", "pacti.iocontract.Var"),
                       ("TermList", "pacti.iocontract.TermList"),
                       ("TacticStatistics", "pacti.iocontract.TacticStatistics")):
        if imported.get(name) != want:
            raise Unsupported(f"polyhedra.py: module-level name {name} is {imported.get(name)}, expected {want}")
    P.n_no_redefinition(mod, ["np", "logging", "time", "linprog", "list_union", "list_diff", "list_intersection", "Var",
                              "TermList", "len", "list", "float", "range", "enumerate", "isinstance", "type", "all",
                              "ValueError", "Exception"], [PTL, PT])
    if sum(1 for n in ast.walk(mod) if isinstance(n, ast.Name) and n.id == "TACTICS_ORDER"
           and isinstance(n.ctx, (ast.Store, ast.Del))) != 1:
        raise Unsupported("TACTICS_ORDER is expected to be assigned exactly once")
    if any(isinstance(n, (ast.Global, ast.Nonlocal)) for n in ast.walk(mod)):
        raise Unsupported("global / nonlocal statement in polyhedra.py")


def gen_termlist(repo) -> Tuple[str, List[str]]:
    poly_path = f"{repo}/src/pacti/terms/polyhedra/polyhedra.py"
    io_path = f"{repo}/src/pacti/iocontract/iocontract.py"
    src = open(poly_path).read()
    mod = ast.parse(src)
    assumptions: List[str] = []
    check_environment(mod)
    cdef = class_def(mod, PTL)
    if [ast.unparse(b) for b in cdef.bases] != ["TermList"] or cdef.keywords or cdef.decorator_list:
        raise Unsupported(f"{PTL} is expected to be a plain subclass of TermList")
    own = methods_of(cdef, PTL)
    tactics_node = None
    for n in cdef.body:
        if isinstance(n, ast.FunctionDef) or (isinstance(n, ast.Expr) and isinstance(n.value, ast.Constant)
                                              and isinstance(n.value.value, str)):
            continue
        if isinstance(n, ast.Assign) and len(n.targets) == 1 and isinstance(n.targets[0], ast.Name) \
                and n.targets[0].id == "TACTICS" and tactics_node is None:
            tactics_node = n
            continue
        fail(n, f"class-level statement in {PTL}")
    if tactics_node is None:
        raise Unsupported(f"{PTL}.TACTICS missing")
    for n in ast.walk(mod):
        if isinstance(n, ast.Attribute) and n.attr == "TACTICS" and isinstance(n.ctx, (ast.Store, ast.Del)):
            raise Unsupported("TACTICS is re-assigned")
        if isinstance(n, ast.Subscript) and isinstance(n.ctx, (ast.Store, ast.Del)) \
                and isinstance(n.value, ast.Attribute) and n.value.attr == "TACTICS":
            raise Unsupported("an entry of TACTICS is re-assigned")
    imod = ast.parse(open(io_path).read())
    base = methods_of(class_def(imod, "TermList"), "TermList")
    planned_own = [m for m, c, _, _ in TL_PLAN if c == PTL]
    planned_base = [m for m, c, _, _ in TL_PLAN if c == "TermList"]
    for name in planned_own:
        if name not in own:
            raise Unsupported(f"{PTL}.{name} missing")
    for name in planned_base:
        if name not in base:
            raise Unsupported(f"TermList.{name} missing")
        if name in own:
            raise Unsupported(f"{PTL} overrides the inherited method {name}")
    for name, f in own.items():
        if name in TL_SKIP:
            continue
        if name not in planned_own:
            raise Unsupported(f"unexpected method {PTL}.{name} (neither translated nor in the skip list)")
        decos = [ast.unparse(d) for d in f.decorator_list]
        if decos != (["staticmethod"] if name in TL_STATIC else []):
            raise Unsupported(f"decorators of {PTL}.{name}: {decos}")
    for name in ("simplify", "termlist_to_polytope", "_context_reduction"):
        if name not in own:
            raise Unsupported(f"{PTL}.{name} (a declared primitive) missing")
    for name in planned_base:
        decos = [ast.unparse(d) for d in base[name].decorator_list]
        if decos != (["property"] if name == "vars" else []):
            raise Unsupported(f"decorators of TermList.{name}: {decos}")
    # --- the primitives: signatures as declared in PyTermList.v
    prim_sig = {
        "simplify": (False, [("context", "OTL")], "TL"),
        "termlist_to_polytope": (True, [("terms", "TL"), ("context", "TL")], None),
        "_context_reduction": (True, [("term", "T"), ("context", "TL"), ("vars_to_elim", "LV"), ("refine", "B"),
                                      ("strategy", "N")], "T"),
    }
    w = World(PTL, "TL", T_ANNOT)
    w.prims = {}
    for name, (static, want, rty) in prim_sig.items():
        f = own[name]
        decos = [ast.unparse(d) for d in f.decorator_list]
        if decos != (["staticmethod"] if static else []):
            raise Unsupported(f"decorators of {PTL}.{name}: {decos}")
        a = f.args
        args = list(a.args) if static else list(a.args)[1:]
        got = []
        for arg in args:
            ann = ast.unparse(arg.annotation) if arg.annotation is not None else None
            got.append((arg.arg, T_ANNOT_BY_NAME.get((ann, arg.arg)) or T_ANNOT.get(ann)))
        if got != want or a.vararg or a.kwarg or a.kwonlyargs:
            raise Unsupported(f"signature of the primitive {PTL}.{name}: {got}")
    none = ast.Constant(value=None)
    w.prims["simplify"] = ("p_simplify", True, [("context", "OTL", none)], "TL")
    w.prims["termlist_to_polytope"] = ("p_termlist_to_polytope", True, [("terms", "TL", None), ("context", "TL", None)],
                                       "LV*MAT*VEC*MAT*VEC")
    w.prims["_context_reduction"] = ("p_context_reduction", True,
                                     [(n, t, None) for n, t in prim_sig["_context_reduction"][1]], "T")
    w.term_sigs = term_interface(poly_path)
    w.static = {}
    w.consts["TACTICS_ORDER"] = ("TACTICS_ORDER_polyhedra", "LN")
    w.tactics_entry = None
    w.fresh_results = set(FRESH_RESULTS)
    w.selfparam = True
    assumptions.append(f"{PTL}: methods NOT translated: {', '.join(sorted(m for m in TL_SKIP if m in own))}; of these "
                       "simplify, _context_reduction, termlist_to_polytope (and scipy's linprog with the fields status / "
                       "fun of its result) are abstract parameters of the translated functions (class TLPrims)")
    assumptions.append(f"{PTL}: a {PTL} object is the list in its only field `terms`; int and float are exact "
                       "rationals where they are coefficients, nat where they count or index (negative indices are "
                       "rejected), Z next to the literal -1; NaN/inf/rounding are not modelled")
    assumptions.append(f"{PTL}: `==`, `in`, list.remove and list_union/list_diff/list_intersection on terms use "
                       f"{PT}.__eq__ as translated in gen/TermGen.v (the identity shortcut of CPython's `in` is ignored)")
    assumptions.append(f"{PTL}: in-place updates (l.append, l[i] = v, obj.terms.remove(x), obj.terms[i] = v, "
                       "obj.terms = l, obj.variables[k] = v, obj.constant -= v) of objects built in the same function "
                       "are rendered as rebinding (checked: the updated name is owned and not aliased); the term lists "
                       "returned by simplify / _transform are new objects")
    assumptions.append(f"{PTL}: np.abs on a scalar is qabs (exact rationals); float(x) and list(l) are the identity on values; "
                       "range(n) / enumerate count in nat")
    assumptions.append(f"{PTL}: a method call or attribute access on a value that may be None raises AttributeError "
                       "(py_deref), arithmetic on it TypeError (py_num); `x is None` / `x is not None` on a local narrows "
                       "its type in the branches (a match on the option)")
    cls_src = ast.get_source_segment(src, cdef) or ""
    base_src = "".join(ast.get_source_segment(open(io_path).read(), base[m]) or "" for m in planned_base)
    out_defs = []
    in_dispatch = False
    lits_all = []
    for name, cls, mon, disp in TL_PLAN:
        f = (own if cls == PTL else base)[name]
        strip_doc(f)
        static = name in TL_STATIC
        params, rty = tl_signature(cls, f, static)
        fuelled = name in FUEL_MEASURE
        if fuelled:
            if FUEL_MEASURE[name] not in [p for p, _, _ in params]:
                raise Unsupported(f"{PTL}.{name} has no parameter {FUEL_MEASURE[name]} (its recursion measure)")
            assumptions.append(f"{PTL}.{name}: the self-recursive function is rendered as a Fixpoint on an added parameter "
                               f"`fuel` (Escape \"fuel\" when it runs out); calls from outside start with fuel = 1 + "
                               f"len({FUEL_MEASURE[name]}) (each recursive call removes one term from it)")
        elif any(isinstance(n, ast.Attribute) and n.attr == name and isinstance(n.value, ast.Name)
                 and n.value.id in (PTL, "self") for n in ast.walk(f)) and name not in ("copy", "vars"):
            raise Unsupported(f"{PTL}.{name} calls itself (only the functions of FUEL_MEASURE may be recursive)")
        if disp and not in_dispatch:
            in_dispatch = True
            sig_ty = "nat -> pterm -> list pterm -> list var -> bool -> M (option pterm * nat)"
            out_defs.append("Section Dispatch.\n(* PolyhedralTermList.TACTICS[k] : the tactic table is abstract here; "
                            "PolyhedralTermList_TACTICS below renders the class-level dict *)\n"
                            f"Variable TACTICS : {sig_ty}.\n\n")
            w.tactics_entry = ("TACTICS", True, list(TACTIC_PARAMS), "OT*N")
            assumptions.append(f"{PTL}: `{PTL}.TACTICS[k](...)` is a call of the section variable TACTICS (instantiated by "
                               f"{PTL}_TACTICS, the rendering of the class-level dict)")
        w.selfparam = not static
        lits = []
        fn = TLFn(w, f, mon, rty, assumptions, lits, fuel=fuelled)
        if fuelled:
            w.static[name] = (tl_name(name), mon, params, rty, True)     # visible to itself
        try:
            try:
                body = fn.translate(params)
            except Unsupported:
                f2 = P.fallback_normalise(f)
                if f2 is None:
                    raise
                lits[:] = []
                fn = TLFn(w, f2, mon, rty, assumptions, lits, fuel=fuelled)
                body = fn.translate(params)
        except Unsupported as ex:
            if not mon or fuelled:
                raise
            body = P.function_stub("TermListGen.v", f"{cls}.{name}", ex)
            lits = []
        body = render_literals(body, lits)
        ps = ([] if (static or name == "__init__") else [("self", "TL")]) + [(tl_cid(n), t) for n, t, _ in params]
        sig = " ".join(f"({n} : {coq_type(t)})" for n, t in ps)
        rt_ = coq_type(rty)
        rt_ = f"M {rt_}" if mon and rt_.startswith("(") else (f"M ({rt_})" if mon else rt_)
        pysig = next(l for l in ast.unparse(f).split("\n") if l.startswith("def "))
        origin = "" if cls == PTL else "   (inherited from TermList, iocontract.py)"
        coq = tl_name(name)
        if fuelled:
            text = (f"(* {pysig}{origin}   -- recursion on explicit fuel *)\nFixpoint {coq} (fuel : nat) {sig} {{struct fuel}} "
                    f": {rt_} :=\n  match fuel with\n  | O => raise (Escape \"fuel\")\n  | S fuel =>\n{body}\n  end.\n\n")
        else:
            text = f"(* {pysig}{origin} *)\nDefinition {coq} {sig} : {rt_} :=\n{body}.\n\n"
        out_defs.append(text)
        if static:
            w.static[name] = (coq, mon, params, rty, fuelled)
        elif name == "__init__":
            w.sigs[("TL", "__init__")] = (coq, mon, params, "TL")
        else:
            w.sigs[("TL", name)] = (coq, mon, params, rty)
    out_defs.append("End Dispatch.\n\n")
    w.tactics_entry = None
    out_defs.append(gen_tactics_table(w, tactics_node, assumptions))
    sha = hashlib.sha256((cls_src + base_src).encode()).hexdigest()
    order = ", ".join(m for m, _, _, _ in TL_PLAN)
    ass = sorted(set(assumptions))
    header = (f"(* GENERATED by /verif/translator/py2coq_termlist.py from src/pacti/terms/polyhedra/polyhedra.py, class {PTL}\n"
              "   (and the methods vars, copy, get_terms_with_vars, __or__ it inherits from iocontract.py:TermList) — do not edit.\n"
              f"   sha256 of the translated sources: {sha}\n"
              f"   translated: {order}, TACTICS\n"
              f"   NOT translated: {', '.join(sorted(TL_SKIP))}\n"
              "   vocabulary: base/PyDict.v, base/PyLoop.v, base/PyTermList.v, gen/TermGen.v, gen/ListsGen.v.\n"
              "   Approximations (each is also an `assumption:` line of the translator):\n"
              + "".join("   - " + a.replace("*)", "* )") + "\n" for a in ass)
              + "*)\n"
              "From Coq Require Import List String Bool Arith ZArith QArith.\nImport ListNotations.\n"
              "Require Import Py ListsGen ConstGen Sem PyDict PyLoop TermGen PyTermList.\nOpen Scope py_scope.\n\n"
              "Section TermList.\nContext `{TLPrims}.\n\n")
    return header + "".join(out_defs) + "End TermList.\n", ass


def gen_tactics_table(w, node, assumptions) -> str:
    """the class-level dict TACTICS = {k: function} as a function of the key"""
    d = node.value
    if not isinstance(d, ast.Dict) or not d.keys:
        fail(node, "TACTICS is expected to be a dict display")
    arms, seen = [], set()
    pnames = [p for p, _, _ in TACTIC_PARAMS]
    for k, v in zip(d.keys, d.values):
        if not (isinstance(k, ast.Constant) and isinstance(k.value, int) and not isinstance(k.value, bool)
                and 0 <= k.value < 100) or k.value in seen:
            fail(node, "key of TACTICS")
        seen.add(k.value)
        args = " ".join(tl_cid(p) for p in pnames)
        if isinstance(v, ast.Attribute) and v.attr == "__func__" and isinstance(v.value, ast.Name):
            m = v.value.id
            if m not in w.static:
                fail(v, f"TACTICS refers to {m}, which is not a translated static method")
            coq, mon, params, rty, fuelled = w.static[m]
            if fuelled or [(p, t) for p, t, _ in params] != [(p, t) for p, t, _ in TACTIC_PARAMS] or rty != "OT*N" or not mon:
                fail(v, f"signature of the tactic {m}")
            arms.append((k.value, f"{coq} {args}"))
        elif isinstance(v, ast.Lambda):
            a = v.args
            if [x.arg for x in a.args] != pnames or a.defaults or a.vararg or a.kwarg or a.kwonlyargs:
                fail(v, "parameters of a lambda in TACTICS")
            c = v.body
            if not (isinstance(c, ast.Call) and isinstance(c.func, ast.Attribute) and isinstance(c.func.value, ast.Name)
                    and c.func.value.id == PTL and c.func.attr in w.static and not c.keywords):
                fail(v, "body of a lambda in TACTICS")
            coq, mon, params, rty, fuelled = w.static[c.func.attr]
            if rty != "OT*N" or not mon or len(c.args) != len(params):
                fail(v, f"signature of {c.func.attr}")
            lits = []
            fn = TLFn(w, ast.FunctionDef(name="TACTICS", args=a, body=[], decorator_list=[]), True, "OT*N", assumptions, lits)
            env = {p: t for p, t, _ in TACTIC_PARAMS}
            env["%owned"] = frozenset()
            full = []
            for arg, (pn, pt, _) in zip(c.args, params):
                p, cc, t = fn.tx(arg, env)
                if p:
                    fail(v, "argument that may raise in a lambda of TACTICS")
                full.append(fn.coerce(cc, t, pt, v, f"argument {pn}"))
            fuel = ""
            if fuelled:
                idx = [p for p, _, _ in params].index(FUEL_MEASURE[c.func.attr])
                fuel = f"(S (len {full[idx]})) "
            arms.append((k.value, render_literals(f"{coq} {fuel}" + " ".join(full), lits)))
        else:
            fail(v, "value of TACTICS")
    sig = " ".join(f"({tl_cid(p)} : {coq_type(t)})" for p, t, _ in TACTIC_PARAMS)
    txt = (f"(* TACTICS = {{{', '.join(str(k) + ': ...' for k, _ in arms)}}}   (class-level dict; a missing key raises KeyError) *)\n"
           f"Definition {PTL}_TACTICS (tactic_num : nat) {sig} : M (option pterm * nat) :=\n  match tactic_num with\n")
    for k, call in arms:
        txt += f"  | {k}%nat => {call}\n"
    txt += "  | _ => raise (Escape \"KeyError\")\n  end.\n\n"
    return txt
