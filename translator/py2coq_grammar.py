#!/usr/bin/env python3
"""T1, generator for the STRUCTURE of the pyparsing grammar of pacti -> coq/gen/GrammarGen.v.

Reads (Python `ast` only; neither pyparsing nor pacti is imported) the module-level statements of
  src/pacti/terms/polyhedra/syntax/grammar.py
that build pyparsing expressions, replays them symbolically (object identity kept: `.set_parse_action` mutates the
object and returns it, `x |= e` appends to a MatchFirst in place and builds a new one otherwise, `fwd <<= e` fills a
Forward), and renders the object graph below `expression` as one Gallina parser per grammar rule over the combinator
library of coq/model/Grammar.v (bind, alt, opt, many, many1, lit, variable, digits1, ...) plus coq/base/PyParsing.v
(por, or_actions, one_of, combine, cat, opt_text, caseless_literal_raw, infix_notation).  The function definitions of
the module (the parse ACTIONS) are translated by py2coq_syntax.py -> gen/SyntaxGen.v (what the actions compute); here a
`.set_parse_action(f)` is rendered as the TREE CONSTRUCTOR that model/Ast.v has for the rule (table ACTIONS, keyed by
the action's function name): which action runs where.  proofs/GrammarGen{Base,Tokens,Terms,Expr,Facts}.v prove each
generated parser EQUAL to the hand-written one of model/Grammar.v.

Mapping (anything else: Unsupported, the output file is poisoned):
  "t", pp.Literal("t")            lit "t"                 (skipped: trees do not contain literal tokens)
  pp.Suppress("t" | Literal)      lit "t"                 (does not count as a token of the rule: positions shift)
  a + b + ...                     x1 <- a ;; x2 <- b ;; ... ret (constructor of the rule's action)
  a | b | ...                     alt a (alt b ...)       MatchFirst, in source order
  a ^ b, pp.Or([a, b])            por a b                 longest match; or_actions (por a b) when an alternative carries
                                                          evaluating parse actions (paren_arith_expr)
  pp.Optional(a)                  opt a                   (default="+" on a sign: the constructor uses sign_or_plus)
  pp.ZeroOrMore(a) / OneOrMore    many a / many1 a
  pp.Group(a)                     a                       (checked against the token shape the action expects)
  pp.Word(alphas, alphanums+"_")  variable
  pp.oneOf("+ -")                 one_of [("+", Plus); ("-", Minus)]
  pp.Combine(a)                   combine (a rendered with raw tokens: digits1, lit_text_raw, caseless_literal_raw,
                                  one_of_raw, cat, opt_text, por -- no whitespace skipping inside)
  pp.Forward() ... f <<= a        fuel: Fixpoint on the rule FORWARD_CUT names, one unit per passage through f
  pp.infixNotation(base, levels)  infix_notation base [(operators, fold of the chain action); ...] n
  x.set_parse_action(f)           the constructor ACTIONS[f]; x.set_name(..), cast(T, x), comments: ignored
"""
from __future__ import annotations

import ast
import os
import sys
from typing import Dict, List, Optional, Tuple

_main = sys.modules.get("__main__")
if _main is not None and str(getattr(_main, "__file__", "")).endswith("py2coq.py") and hasattr(_main, "Unsupported"):
    P = _main
else:                                                  # imported from somewhere else (tests)
    import py2coq as P                                 # type: ignore
Unsupported = P.Unsupported

GRAMMAR = "src/pacti/terms/polyhedra/syntax/grammar.py"
ROOT_NAME = "expression"          # serializer.py: expression.parse_string(s, parse_all=True)
ROOT_ACTION = "_parse_expression"

# ---------------------------------------------------------------- tables
# action (function name, or the source text of a lambda) -> the rules it may be attached to, in source order:
#   (generated name, grouped?, token signature of the rule body, tree type, constructor template over $i)
# signature items: "lit" a literal token, "lit?" an optional literal, T a value of tree type T, "T?" Optional(T),
# "T?+" Optional(T, default="+"), "list T" a repetition.  Suppressed literals are not tokens.
ACTIONS: Dict[str, List[Tuple[str, bool, List[str], str, str]]] = {
    "lambda t: float(t[0])": [("floating_point_number", False, ["text"], "cexpr", "CNum (literal_value $0)")],
    "lambda t: t[0][0]": [("paren_arith_expr", True, ["cexpr"], "cexpr", "$0")],
    "_parse_only_variable": [("only_variable", False, ["var"], "lterm", "TVar $0")],
    "_parse_number_and_variable": [("number_and_variable", False, ["cexpr", "lit?", "lterm"], "lterm",
                                    "num_times_var $0 $2")],
    "_parse_factor_paren_terms": [("factor_paren_terms", True, ["cexpr", "lit?", "lterms"], "lterm", "TNumParen $0 $2")],
    "_parse_term": [("term", True, ["lterm"], "lterm", "$0")],
    "_parse_first_term": [("first_term", True, ["sign?+", "lterm"], "sterm", "(sign_or_plus $0, $1)")],
    "_parse_signed_term": [("signed_term", True, ["sign", "lterm"], "sterm", "($0, $1)")],
    "_parse_term_list": [("terms", True, ["sterm", "list sterm"], "lterms", "Terms (fst $0) (snd $0) $1")],
    "_parse_paren_terms": [("paren_terms", True, ["lit", "lterms", "lit"], "lterms", "$1")],
    "_parse_absolute_term": [("abs_term", True, ["cexpr?", "lit", "lterms", "lit"], "absterm", "($0, $2)")],
    "_parse_signed_abs_term": [("signed_abs_term", True, ["sign", "absterm"], "aterm", "AAbs $0 (fst $1) (snd $1)")],
    "_parse_first_abs_term": [("first_abs_term", True, ["sign?+", "absterm"], "aterm",
                               "AAbs (sign_or_plus $0) (fst $1) (snd $1)")],
    "_parse_abs_or_term": [("first_abs_or_term", True, ["aterm"], "aterm", "$0"),
                           ("addl_abs_or_term", True, ["aterm"], "aterm", "$0")],
    "_parse_abs_or_terms": [("abs_or_terms", True, ["aterm", "list aterm"], "list aterm", "$0 :: $1")],
    "_parse_paren_abs_or_terms": [("paren_abs_or_terms", True, ["cexpr?", "lit", "list aterm", "lit"], "pgroup",
                                   "($0, $2)")],
    "_parse_first_or_addl_paren_abs_or_terms": [("first_paren_abs_or_terms", True, ["pitem"], "pitem", "$0"),
                                                ("addl_paren_abs_or_terms", True, ["pitem"], "pitem", "$0")],
    "_parse_multi_paren_abs_or_terms": [("multi_paren_abs_or_terms", True, ["pitem", "list pitem"], "side", "$0 :: $1")],
    "_parse_equality_expression": [("equality_expression", True, ["lterms", "lit", "lterms"], "expr", "EEq $0 $2")],
    "_parse_leq_expression": [("leq_expression", True, ["side", "list side"], "expr", "ELeq ($0 :: $1)")],
    "_parse_geq_expression": [("geq_expression", True, ["side", "list side"], "expr", "EGeq ($0 :: $1)")],
    "_parse_expression": [("expression", True, ["expr"], "expr", "$0")],
}
# the chain action of an infixNotation level -> how the model folds a same-precedence chain
CHAIN_ACTIONS = {"_parse_arithmetic_chain": "fold_left_assoc"}
INFIX_NAME, INFIX_TYPE = "arithmetic_expr", "cexpr"
# operator spellings of infixNotation -> the model's operator
OPERATORS = {"*": "OMul", "/": "ODiv", "+": "OAdd", "-": "OSub"}
# oneOf spellings (outside a Combine) -> (generated name, tree type, value of each spelling)
ONE_OF = {("+", "-"): ("symbol", "sign", {"+": "Plus", "-": "Minus"})}
# rules whose parse actions EVALUATE (and may raise ZeroDivisionError): only allowed as an alternative of an Or
DEFERRED = {"paren_arith_expr"}
# where the recursion through the Forward is cut: contents rule of the Forward -> rule that becomes a Fixpoint on fuel
FORWARD_CUT = {"paren_terms": "term"}
# a value of tree type S used where T is expected: the branch of the receiving action's isinstance dispatch
COERCIONS = {
    ("lterms", "lterm"): "TParen $0",        # a parenthesised term list used as a term
    ("cexpr", "lterm"): "TNum $0",           # _parse_term: float -> term list with that constant
    ("sterm", "aterm"): "ATerm (fst $0) (snd $0)",
    ("aterm", "pitem"): "PPlain $0",         # _parse_first_or_addl_paren_abs_or_terms: a term / an absolute term
}
# an action-less sequence used where T is expected (the `len(group) == 2` branch of the receiving action)
SEQ_COERCIONS = {
    (("sign?+", "pgroup"), "pitem"): "PGroup (sign_or_plus $0) (fst $1) (snd $1)",
    (("sign", "pgroup"), "pitem"): "PGroup $0 (fst $1) (snd $1)",
}
COQ_TYPE = {"text": "string", "lit": "unit"}


def coq_type(t: str) -> str:
    if t.startswith("list "):
        return "(list " + coq_type(t[5:]) + ")"
    if t.endswith("?+") or t.endswith("?"):
        return "(option " + coq_type(t.rstrip("+?")) + ")"
    return COQ_TYPE.get(t, t)


# ---------------------------------------------------------------- the symbolic pyparsing objects
class Node:
    """one pyparsing ParserElement (identity matters: set_parse_action / |= / <<= mutate it)"""

    def __init__(self, kind: str, line: int, kids: Optional[List["Node"]] = None, **attrs):
        self.kind, self.line, self.kids = kind, line, list(kids or [])
        self.text = attrs.get("text")            # Lit / SLit / Caseless: the spelling;  Word: "nums" | "variable"
        self.alts = attrs.get("alts")            # OneOf: the spellings
        self.default = attrs.get("default")      # Optional(..., default=)
        self.levels = attrs.get("levels")        # Infix: [(operator Node, chain action name)]
        self.action: Optional[str] = None
        self.filled = kind != "Forward"

    def __repr__(self):
        return f"<{self.kind} line {self.line}>"


def bad(node, msg):
    raise Unsupported(f"{GRAMMAR} line {getattr(node, 'lineno', '?')}: {msg}: "
                      f"{ast.unparse(node)[:160] if isinstance(node, ast.AST) else node}")


def pp_attr(e) -> Optional[str]:
    """`pp.X` -> "X" """
    if isinstance(e, ast.Attribute) and isinstance(e.value, ast.Name) and e.value.id == "pp":
        return e.attr
    return None


def const_str(e) -> Optional[str]:
    return e.value if isinstance(e, ast.Constant) and isinstance(e.value, str) else None


class Evaluator:
    def __init__(self, functions: List[str]):
        self.env: Dict[str, Node] = {}
        self.functions = functions
        self.nodes: List[Node] = []

    def mk(self, kind, where, kids=None, **attrs) -> Node:
        n = Node(kind, getattr(where, "lineno", 0), kids, **attrs)
        self.nodes.append(n)
        return n

    # -- operands: a string constant is promoted to a Literal, as pyparsing does
    def operand(self, e) -> Node:
        s = const_str(e)
        if s is not None:
            if s == "":
                bad(e, "empty literal")
            return self.mk("Lit", e, text=s)
        return self.expr(e)

    def literal_of(self, e, what) -> str:
        n = self.operand(e)
        if n.kind != "Lit" or n.action is not None:
            bad(e, f"{what}: only a literal is supported here")
        return n.text

    def expr(self, e) -> Node:
        if isinstance(e, ast.Name):
            if e.id not in self.env:
                bad(e, "name is not a grammar object defined above")
            return self.env[e.id]
        if isinstance(e, ast.BinOp):
            kind = {ast.Add: "And", ast.BitOr: "MatchFirst", ast.BitXor: "Or"}.get(type(e.op))
            if kind is None:
                bad(e, "operator outside the table (+ | ^)")
            if const_str(e.left) is not None and const_str(e.right) is not None:
                bad(e, "operator applied to two plain strings (this is Python's str operator)")
            return self.mk(kind, e, [self.operand(e.left), self.operand(e.right)])
        if isinstance(e, ast.Call):
            return self.call(e)
        bad(e, "expression outside the table")

    def action_key(self, f) -> str:
        if isinstance(f, ast.Name):
            if f.id not in self.functions:
                bad(f, "parse action is not a function of the module")
            return f.id
        if isinstance(f, ast.Lambda):
            return ast.unparse(f)
        bad(f, "parse action outside the table (a function name or a lambda)")

    def call(self, e: ast.Call) -> Node:
        f = e.func
        kw = {k.arg: k.value for k in e.keywords}
        if None in kw:
            bad(e, "**kwargs")
        # ---- methods
        if isinstance(f, ast.Attribute) and pp_attr(f) is None:
            if f.attr in ("set_parse_action", "setParseAction"):
                if len(e.args) != 1 or kw:
                    bad(e, "set_parse_action with other than one positional action")
                obj = self.expr(f.value)
                key = self.action_key(e.args[0])
                if obj.action is not None:
                    bad(e, f"a second parse action on the same object (first: {obj.action})")
                if obj.kind in ("Lit", "SLit", "Forward"):
                    bad(e, f"parse action on a {obj.kind}")
                obj.action = key
                return obj
            if f.attr in ("set_name", "setName"):
                if len(e.args) != 1 or kw or const_str(e.args[0]) is None:
                    bad(e, "set_name with other than one string")
                return self.expr(f.value)
            bad(e, f"method .{f.attr} outside the table")
        # ---- cast(T, x)
        if isinstance(f, ast.Name) and f.id == "cast":
            if len(e.args) != 2 or kw:
                bad(e, "cast")
            return self.expr(e.args[1])
        name = pp_attr(f)
        if name is None:
            bad(e, "call outside the table")
        a = e.args
        if name == "Literal" and len(a) == 1 and not kw and const_str(a[0]):
            return self.mk("Lit", e, text=const_str(a[0]))
        if name == "CaselessLiteral" and len(a) == 1 and not kw and const_str(a[0]):
            return self.mk("Caseless", e, text=const_str(a[0]))
        if name == "Suppress" and len(a) == 1 and not kw:
            return self.mk("SLit", e, text=self.literal_of(a[0], "pp.Suppress"))
        if name in ("oneOf", "one_of") and len(a) == 1 and not kw and const_str(a[0]):
            alts = const_str(a[0]).split()
            if not alts or len(set(alts)) != len(alts):
                bad(e, "oneOf with no or repeated spellings")
            for i, x in enumerate(alts):
                for y in alts[i + 1:]:
                    if y.startswith(x):
                        bad(e, f"oneOf: {x!r} is a prefix of the later {y!r} (pyparsing reorders them)")
            return self.mk("OneOf", e, alts=alts)
        if name == "Word" and not kw:
            src = [ast.unparse(x) for x in a]
            if src == ["pp.nums"]:
                return self.mk("Word", e, text="nums")
            if src == ["pp.alphas", "pp.alphanums + '_'"]:
                return self.mk("Word", e, text="variable")
            bad(e, "pp.Word with character sets outside the table (nums | alphas, alphanums + '_')")
        if name in ("Optional", "Opt") and len(a) == 1 and set(kw) <= {"default"}:
            d = None
            if "default" in kw:
                d = const_str(kw["default"])
                if d is None:
                    bad(e, "Optional(default=) is not a string")
            return self.mk("Optional", e, [self.operand(a[0])], default=d)
        if name in ("ZeroOrMore", "OneOrMore", "Group", "Combine") and len(a) == 1 and not kw:
            return self.mk(name, e, [self.operand(a[0])])
        if name in ("Or", "MatchFirst", "And") and len(a) == 1 and not kw and isinstance(a[0], ast.List):
            if len(a[0].elts) < 2:
                bad(e, f"pp.{name} of fewer than two expressions")
            return self.mk(name, e, [self.operand(x) for x in a[0].elts])
        if name == "Forward" and not a and not kw:
            return self.mk("Forward", e)
        if name in ("infixNotation", "infix_notation") and len(a) == 2 and not kw:
            return self.infix(e)
        bad(e, f"pp.{name}: construct or call pattern outside the table")

    def infix(self, e: ast.Call) -> Node:
        base = self.expr(e.args[0])
        if not isinstance(e.args[1], ast.List) or not e.args[1].elts:
            bad(e, "infixNotation: the levels must be a non-empty list literal")
        levels = []
        for lv in e.args[1].elts:
            if not (isinstance(lv, ast.Tuple) and len(lv.elts) == 4):
                bad(lv, "infixNotation level: expected (operator, arity, associativity, action)")
            op, arity, assoc, act = lv.elts
            if not (isinstance(arity, ast.Constant) and arity.value == 2 and type(arity.value) is int):
                bad(lv, "infixNotation level: only binary operators are in the table")
            if ast.unparse(assoc) not in ("pp.opAssoc.LEFT", "pp.OpAssoc.LEFT"):
                bad(lv, "infixNotation level: only pp.opAssoc.LEFT is in the table")
            if not isinstance(act, ast.Name) or act.id not in CHAIN_ACTIONS:
                bad(lv, "infixNotation level: chain action outside the table " + str(sorted(CHAIN_ACTIONS)))
            if act.id not in self.functions:
                bad(lv, "infixNotation level: the action is not a function of the module")
            levels.append((self.expr(op), act.id))
        return self.mk("Infix", e, [base], levels=levels)


# ---------------------------------------------------------------- the module-level statements
def run_module(mod: ast.Module) -> Evaluator:
    functions = [n.name for n in mod.body if isinstance(n, ast.FunctionDef)]
    if len(set(functions)) != len(functions):
        raise Unsupported(f"{GRAMMAR}: a function is defined twice")
    ev = Evaluator(functions)
    seen_pp = seen_cast = False
    for i, st in enumerate(mod.body):
        if isinstance(st, ast.Expr) and isinstance(st.value, ast.Constant) and isinstance(st.value.value, str):
            continue                                               # docstring / bare string
        if isinstance(st, ast.Import):
            for al in st.names:
                if (al.asname or al.name) == "pp":
                    if al.name != "pyparsing":
                        bad(st, "`pp` is not pyparsing")
                    seen_pp = True
            continue
        if isinstance(st, ast.ImportFrom):
            for al in st.names:
                nm = al.asname or al.name
                if nm == "pp":
                    bad(st, "`pp` is not the pyparsing module")
                if nm == "cast":
                    if st.module != "typing" or al.name != "cast":
                        bad(st, "`cast` is not typing.cast")
                    seen_cast = True
            continue
        if isinstance(st, ast.FunctionDef):
            continue                                               # parse actions: gen/SyntaxGen.v
        if isinstance(st, ast.Assign) and len(st.targets) == 1:
            tgt = st.targets[0]
            if isinstance(tgt, ast.Name):
                check_target(ev, tgt)
                ev.env[tgt.id] = ev.expr(st.value)
                continue
            # plus, minus, mult, div = map(pp.Literal, "+-*/")
            v = st.value
            if (isinstance(tgt, ast.Tuple) and all(isinstance(x, ast.Name) for x in tgt.elts)
                    and isinstance(v, ast.Call) and isinstance(v.func, ast.Name) and v.func.id == "map"
                    and len(v.args) == 2 and not v.keywords and pp_attr(v.args[0]) == "Literal"
                    and const_str(v.args[1]) is not None and len(const_str(v.args[1])) == len(tgt.elts)):
                for x, ch in zip(tgt.elts, const_str(v.args[1])):
                    check_target(ev, x)
                    ev.env[x.id] = ev.mk("Lit", st, text=ch)
                continue
            bad(st, "module-level assignment outside the table")
        if isinstance(st, ast.AugAssign) and isinstance(st.target, ast.Name):
            nm = st.target.id
            if nm not in ev.env:
                bad(st, "augmented assignment to an undefined name")
            old = ev.env[nm]
            if isinstance(st.op, ast.BitOr):
                new = ev.operand(st.value)
                if old.kind == "MatchFirst":
                    old.kids.append(new)                           # MatchFirst.__ior__ appends in place
                else:
                    ev.env[nm] = ev.mk("MatchFirst", st, [old, new])
                continue
            if isinstance(st.op, ast.LShift):
                if old.kind != "Forward" or old.filled:
                    bad(st, "<<= on something that is not an unfilled Forward")
                old.kids = [ev.operand(st.value)]
                old.filled = True
                continue
            bad(st, "augmented assignment outside the table (|= and <<=)")
        bad(st, "module-level statement outside the table")
    if not seen_pp:
        raise Unsupported(f"{GRAMMAR}: `import pyparsing as pp` not found")
    uses_cast = any(isinstance(n, ast.Name) and n.id == "cast" for n in ast.walk(mod))
    if uses_cast and not seen_cast:
        raise Unsupported(f"{GRAMMAR}: cast is used but not imported from typing")
    for n in ev.nodes:
        if n.kind == "Forward" and not n.filled:
            raise Unsupported(f"{GRAMMAR} line {n.line}: a Forward is never filled (<<=)")
    return ev


def check_target(ev: Evaluator, tgt: ast.Name):
    if tgt.id in ev.functions or tgt.id in ("pp", "cast", "map"):
        bad(tgt, "assignment to the name of a function / module")
    if tgt.id in ev.env:
        bad(tgt, "a grammar name is rebound by a plain assignment (only |= and <<= may update a rule)")


# ---------------------------------------------------------------- analysis of the object graph
def qstr(s: str) -> str:
    if any(ord(c) < 32 or ord(c) > 126 for c in s):
        raise Unsupported(f"{GRAMMAR}: non-printable character in a literal {s!r}")
    return '"' + s.replace('"', '""') + '"'


class Seq:
    """an action-less sequence with several values, waiting for the constructor of the receiving rule"""

    def __init__(self, binds, names, types):
        self.binds, self.names, self.types = binds, names, types


class Gen:
    def __init__(self, ev: Evaluator):
        self.ev = ev
        self.assumptions: List[str] = []
        self.rule: Dict[Node, Tuple[str, bool, List[str], str, str]] = {}
        self.k = 0
        self.rec = False                      # generating a member of the recursive group
        self.uses_symbol = False
        root = ev.env.get(ROOT_NAME)
        if root is None or root.action != ROOT_ACTION:
            raise Unsupported(f"{GRAMMAR}: the entry point `{ROOT_NAME}` with action {ROOT_ACTION} was not found")
        self.root = root
        self.reach = self.reachable(root)
        for nm, nd in sorted(ev.env.items()):
            if nd not in self.reach:
                raise Unsupported(f"{GRAMMAR}: unexpected extra grammar rule `{nm}` (line {nd.line}): not used by "
                                  f"`{ROOT_NAME}`")
        self.assign_rules()
        self.infix = [n for n in ev.nodes if n in self.reach and n.kind == "Infix"]
        if len(self.infix) != 1 or self.infix[0].action is not None:
            raise Unsupported(f"{GRAMMAR}: expected exactly one infixNotation without a parse action of its own")
        self.anchors = [n for n in ev.nodes if n in self.reach and (n in self.rule or n.kind == "Infix")]
        self.deps = {a: self.anchor_deps(a) for a in self.anchors}
        self.fuel = {a: self.reaches_rec(a) for a in self.anchors}
        self.find_cycle()

    def kids_of(self, n: Node) -> List[Node]:
        return n.kids + ([op for op, _ in n.levels] if n.kind == "Infix" else [])

    def reachable(self, root: Node):
        seen, todo = set(), [root]
        while todo:
            n = todo.pop()
            if n not in seen:
                seen.add(n)
                todo.extend(self.kids_of(n))
        return seen

    def assign_rules(self):
        by_action: Dict[str, List[Node]] = {}
        for n in self.ev.nodes:                                    # creation order = source order
            if n.action is not None:
                if n not in self.reach:
                    raise Unsupported(f"{GRAMMAR} line {n.line}: a rule with action {n.action} is not used by "
                                      f"`{ROOT_NAME}`")
                by_action.setdefault(n.action, []).append(n)
        for act, nodes in sorted(by_action.items()):
            if act not in ACTIONS:
                raise Unsupported(f"{GRAMMAR} line {nodes[0].line}: parse action {act} is not in the table")
            if len(nodes) != len(ACTIONS[act]):
                raise Unsupported(f"{GRAMMAR}: parse action {act} is attached to {len(nodes)} rule(s) (lines "
                                  f"{[n.line for n in nodes]}), expected {len(ACTIONS[act])}")
            rest = list(nodes)
            for entry in ACTIONS[act]:
                named = self.ev.env.get(entry[0])
                pick = named if named in rest else rest[0]
                rest.remove(pick)
                self.rule[pick] = entry
        for act in sorted(ACTIONS):
            if act not in by_action:
                raise Unsupported(f"{GRAMMAR}: missing grammar rule: no rule carries the parse action {act} "
                                  f"(expected on {[e[0] for e in ACTIONS[act]]})")

    def name_of(self, a: Node) -> str:
        return INFIX_NAME if a.kind == "Infix" else self.rule[a][0]

    def type_of(self, a: Node) -> str:
        return INFIX_TYPE if a.kind == "Infix" else self.rule[a][3]

    def anchor_deps(self, a: Node) -> List[Node]:
        out, seen, todo = [], set(), list(reversed(self.kids_of(a)))
        while todo:
            n = todo.pop()
            if n in seen:
                continue
            seen.add(n)
            if n in self.rule or n.kind == "Infix":
                if n not in out:
                    out.append(n)
            else:
                todo.extend(reversed(self.kids_of(n)))
        return out

    def reaches_rec(self, a: Node) -> bool:
        return a.kind == "Infix" or any(n.kind in ("Infix", "Forward") for n in self.reachable(a))

    def anchor_reach(self, a: Node, stop=None):
        seen, todo = set(), list(self.deps[a])
        while todo:
            n = todo.pop()
            if n not in seen:
                seen.add(n)
                if n is not stop:
                    todo.extend(self.deps[n])
        return seen

    def find_cycle(self):
        fwd = [n for n in self.ev.nodes if n in self.reach and n.kind == "Forward"]
        if len(fwd) != 1:
            raise Unsupported(f"{GRAMMAR}: expected exactly one pp.Forward below `{ROOT_NAME}`, found {len(fwd)}")
        cont = fwd[0].kids[0]
        if cont not in self.rule or self.rule[cont][0] not in FORWARD_CUT:
            raise Unsupported(f"{GRAMMAR} line {fwd[0].line}: the contents of the Forward is not one of the rules "
                              f"{sorted(FORWARD_CUT)}")
        cutname = FORWARD_CUT[self.rule[cont][0]]
        cut = [a for a in self.anchors if self.name_of(a) == cutname]
        if len(cut) != 1:
            raise Unsupported(f"{GRAMMAR}: recursion point `{cutname}` not found")
        self.cut = cut[0]
        down = self.anchor_reach(self.cut)
        self.scc = {a for a in self.anchors if a in down and self.cut in self.anchor_reach(a)}
        if self.cut not in self.scc or cont not in self.scc:
            raise Unsupported(f"{GRAMMAR}: `{cutname}` and the Forward are not on one cycle")
        # no cycle may remain once the references to the cut are removed
        state: Dict[Node, int] = {}

        def visit(a):
            if state.get(a) == 1:
                raise Unsupported(f"{GRAMMAR}: recursion through `{self.name_of(a)}` that does not pass through "
                                  f"`{cutname}`")
            if state.get(a) == 2:
                return
            state[a] = 1
            for d in self.deps[a]:
                if d is not self.cut:
                    visit(d)
            state[a] = 2
        for a in self.anchors:
            visit(a)

    def order(self) -> List[Node]:
        out: List[Node] = []

        def visit(a):
            if a in out or a in visiting:
                return
            visiting.add(a)
            ds = list(self.deps[a])
            if a not in self.scc and any(d in self.scc for d in ds):
                ds = [self.cut] + ds
            for d in ds:
                if not (a in self.scc and d is self.cut):
                    visit(d)
            out.append(a)
        visiting: set = set()
        visit(self.root)
        return out


# ---------------------------------------------------------------- rendering
import re as _re


def subst(tpl: str, names: List[Optional[str]]) -> str:
    def rep(m):
        v = names[int(m.group(1))]
        if v is None:
            raise Unsupported(f"constructor template {tpl!r} refers to a literal token")
        return v
    return _re.sub(r"\$(\d+)", rep, tpl)


def fresh(g: Gen) -> str:
    g.k += 1
    return f"x{g.k}"


def flat(n: Node, kind: str) -> List[Node]:
    """the operands of a chain  a op b op c  (anonymous nested nodes of the same kind are spliced in)"""
    out: List[Node] = []
    for k in n.kids:
        if k.kind == kind and k.action is None:
            out.extend(flat(k, kind))
        else:
            out.append(k)
    return out


def nest(fn: str, xs: List[str]) -> str:
    return xs[0] if len(xs) == 1 else f"{fn} ({xs[0]})\n  ({nest(fn, xs[1:])})"


def ref(g: Gen, a: Node, direct_or: bool) -> Tuple[str, str]:
    nm, ty = g.name_of(a), g.type_of(a)
    if nm in DEFERRED and not direct_or:
        raise Unsupported(f"{GRAMMAR}: `{nm}` (its parse actions evaluate the constant) is used outside an Or (^): "
                          f"when its actions run is not in the table")
    if g.rec and a is g.cut:
        return f"{nm}_rec", ty
    if g.rec and a in g.scc:
        return f"{nm}_of n {g.name_of(g.cut)}_rec", ty
    return (f"{nm} n" if g.fuel[a] else nm), ty


def finish(g: Gen, binds: List[str], result: str) -> str:
    return " ;;\n  ".join(binds + [result]) if binds else result


def coerce(g: Gen, code, ty, expected: Optional[str], where: Node) -> Tuple[str, str]:
    if isinstance(code, Seq) and expected is None:
        return code, tuple(code.types)
    if isinstance(code, Seq):
        tpl = SEQ_COERCIONS.get((tuple(code.types), expected))
        if tpl is None:
            raise Unsupported(f"{GRAMMAR} line {where.line}: a sequence of values {code.types} without a parse action "
                              f"where {expected or 'a single value'} is expected")
        return finish(g, code.binds, f"ret ({subst(tpl, code.names)})"), expected
    if expected is None or ty == expected:
        return code, ty
    tpl = COERCIONS.get((ty, expected))
    if tpl is None:
        raise Unsupported(f"{GRAMMAR} line {where.line}: a value of type {ty} where {expected} is expected")
    x = fresh(g)
    return f"{x} <- {code} ;; ret ({subst(tpl, [x])})", expected


def join(types: List, where: Node) -> str:
    plain = [t for t in types]
    if all(t == plain[0] for t in plain) and not isinstance(plain[0], tuple):
        return plain[0]
    targets = sorted({e for (_, e) in COERCIONS} | {e for (_, e) in SEQ_COERCIONS})
    ok = [T for T in targets
          if all(t == T or (t, T) in COERCIONS or (isinstance(t, tuple) and (t, T) in SEQ_COERCIONS) for t in plain)]
    if len(ok) != 1:
        raise Unsupported(f"{GRAMMAR} line {where.line}: alternatives of types {plain} have no single common tree type")
    return ok[0]


def value(g: Gen, n: Node, expected: Optional[str], direct_or: bool = False, own: bool = False):
    """(code, type) of a sub-expression outside a Combine; code may be a Seq when `expected` is None;
    own: n is the rule being defined (render its body, not a reference to it)"""
    if (n in g.rule or n.kind == "Infix") and not own:
        code, ty = ref(g, n, direct_or)
        return coerce(g, code, ty, expected, n)
    k = n.kind
    if k == "Forward":
        return value(g, n.kids[0], expected)
    if k == "Lit":
        return coerce(g, f"lit {qstr(n.text)}", "lit", expected, n)
    if k == "OneOf":
        ent = ONE_OF.get(tuple(n.alts))
        if ent is None:
            raise Unsupported(f"{GRAMMAR} line {n.line}: oneOf{n.alts}: spellings outside the table {sorted(ONE_OF)}")
        g.uses_symbol = True
        return coerce(g, ent[0], ent[1], expected, n)
    if k == "Word" and n.text == "variable":
        return coerce(g, "variable", "var", expected, n)
    if k == "Combine":
        return coerce(g, f"combine ({raw(g, n.kids[0])})", "text", expected, n)
    if k == "Optional":
        inner = None
        if expected is not None:
            if not expected.endswith("?") and not expected.endswith("?+"):
                raise Unsupported(f"{GRAMMAR} line {n.line}: an Optional where the table expects {expected}")
            inner = expected.rstrip("+?")
        code, ty = value(g, n.kids[0], inner)
        if isinstance(code, Seq):
            raise Unsupported(f"{GRAMMAR} line {n.line}: Optional of a sequence of several values")
        if n.default is not None:
            vals = {sp: v for ent in ONE_OF.values() for sp, v in ent[2].items() if ent[1] == ty}
            if n.default != "+" or vals.get("+") != "Plus":
                raise Unsupported(f"{GRAMMAR} line {n.line}: Optional(default={n.default!r}) outside the table "
                                  f"(only default=\"+\" on a sign)")
        ty2 = ty + ("?+" if n.default is not None else "?")
        if expected is not None and ty2 != expected:
            raise Unsupported(f"{GRAMMAR} line {n.line}: the table expects {expected} here, the source has {ty2}")
        return f"opt ({code})", ty2
    if k in ("ZeroOrMore", "OneOrMore"):
        inner = None
        if expected is not None:
            if not expected.startswith("list "):
                raise Unsupported(f"{GRAMMAR} line {n.line}: a repetition where the table expects {expected}")
            inner = expected[5:]
        code, ty = value(g, n.kids[0], inner)
        if isinstance(code, Seq) or ty == "lit":
            raise Unsupported(f"{GRAMMAR} line {n.line}: repetition of something that is not a single value")
        return f"{'many' if k == 'ZeroOrMore' else 'many1'} ({code})", "list " + ty
    if k == "MatchFirst":
        alts = flat(n, "MatchFirst")
        if expected is None:
            save = g.k
            expected = join([value(g, a, None)[1] for a in alts], n)
            g.k = save
        return nest("alt", [value(g, a, expected)[0] for a in alts]), expected
    if k == "Or":
        parts = [value(g, a, None, direct_or=True) for a in n.kids]
        tys = {t for _, t in parts}
        if len(tys) != 1 or any(isinstance(c, Seq) for c, _ in parts):
            raise Unsupported(f"{GRAMMAR} line {n.line}: the alternatives of an Or must have one tree type, got {tys}")
        code = nest("por", [c for c, _ in parts])
        if any((a in g.rule) and g.name_of(a) in DEFERRED for a in n.kids):
            code = f"or_actions ({code})"
        return coerce(g, code, tys.pop(), expected, n)
    if k == "And":
        return sequence(g, n, None, None, expected)
    raise Unsupported(f"{GRAMMAR} line {n.line}: a {k} outside a Combine / without a parse action is not in the table")


def sequence(g: Gen, n: Node, sig: Optional[List[str]], tpl: Optional[str], expected: Optional[str],
             own: Optional[Node] = None):
    """a + b + ... : one bind per token; with (sig, tpl) of the rule's action, or action-less"""
    items = flat(n, "And") if n.kind == "And" and (n.action is None or n is own) else [n]
    binds: List[str] = []
    names: List[Optional[str]] = []
    types: List[str] = []
    pos = 0
    for it in items:
        if it.kind == "SLit":
            binds.append(f"skip lit {qstr(it.text)}")
            continue
        want = sig[pos] if sig is not None and pos < len(sig) else None
        if it.kind == "Lit" and it.action is None:
            binds.append(f"skip lit {qstr(it.text)}")
            names.append(None)
            types.append("lit")
        elif it.kind == "Optional" and it.kids[0].kind == "Lit" and it.default is None and it.action is None:
            binds.append(f"skip opt (lit {qstr(it.kids[0].text)})")
            names.append(None)
            types.append("lit?")
        else:
            code, ty = value(g, it, None if want in (None, "lit", "lit?") else want, own=it is own)
            if isinstance(code, Seq):
                raise Unsupported(f"{GRAMMAR} line {it.line}: a nested sequence of several values without a parse action")
            x = None if ty == "lit" else fresh(g)
            binds.append(f"skip {code}" if x is None else f"{x} <- {code}")
            names.append(x)
            types.append(ty)
        pos += 1
    if sig is not None:
        if types != sig:
            raise Unsupported(f"{GRAMMAR} line {n.line}: the tokens of this rule are {types}; its parse action expects "
                              f"{sig}")
        res = subst(tpl, names)
        if names and names[-1] is not None and res == names[-1] and binds[-1].startswith(names[-1] + " <- "):
            return finish(g, binds[:-1], binds[-1][len(names[-1]) + 4:])      # x <- p ;; ret x  =  p
        return finish(g, binds, f"ret ({res})")
    vals = [(x, t) for x, t in zip(names, types) if x is not None]
    if not vals:
        raise Unsupported(f"{GRAMMAR} line {n.line}: a sequence of literals only, without a parse action")
    if len(vals) == 1:
        x, t = vals[0]
        if binds[-1].startswith(x + " <- "):
            code = finish(g, binds[:-1], binds[-1][len(x) + 4:])
        else:
            code = finish(g, binds, f"ret {x}")
        return coerce(g, f"{code}", t, expected, n)
    return coerce(g, Seq(binds, [x for x, _ in vals], [t for _, t in vals]), None, expected, n)


def raw(g: Gen, n: Node) -> str:
    """inside a Combine: parsers of TEXT, no whitespace skipping"""
    if n.action is not None or n in g.rule:
        raise Unsupported(f"{GRAMMAR} line {n.line}: a parse action inside a Combine")
    k = n.kind
    if k == "Word" and n.text == "nums":
        return "digits1"
    if k == "Lit":
        return f"lit_text_raw {qstr(n.text)}"
    if k == "Caseless":
        return f"caseless_literal_raw {qstr(n.text)}"
    if k == "OneOf":
        return "one_of_raw [" + "; ".join(qstr(a) for a in n.alts) + "]"
    if k == "And":
        return nest("cat", [raw(g, x) for x in flat(n, "And")])
    if k == "Or":
        return nest("por", [raw(g, x) for x in n.kids])
    if k == "MatchFirst":
        return nest("alt", [raw(g, x) for x in flat(n, "MatchFirst")])
    if k == "Optional" and n.default is None:
        return f"opt_text ({raw(g, n.kids[0])})"
    raise Unsupported(f"{GRAMMAR} line {n.line}: a {k} inside a Combine is not in the table")


# ---------------------------------------------------------------- definitions
def rule_body(g: Gen, a: Node) -> str:
    name, grouped, sig, ty, tpl = g.rule[a]
    g.k = 0
    if grouped != (a.kind == "Group"):
        raise Unsupported(f"{GRAMMAR} line {a.line}: rule `{name}`: its parse action expects "
                          f"{'a Group' if grouped else 'flat tokens (no Group)'}")
    inner = a.kids[0] if grouped else a
    if inner.kind == "Group":
        raise Unsupported(f"{GRAMMAR} line {a.line}: rule `{name}`: nested Group")
    return sequence(g, inner, sig, tpl, None, own=a if inner is a else None)


def infix_def(g: Gen, a: Node) -> str:
    g.k = 0
    base, bty = value(g, a.kids[0], INFIX_TYPE)
    if any(g.fuel.get(d, False) for d in g.anchor_deps(a) if d is not a):
        raise Unsupported(f"{GRAMMAR} line {a.line}: infixNotation over a recursive operand")
    levels = []
    for op, act in a.levels:
        ops = flat(op, "MatchFirst") if op.kind == "MatchFirst" and op.action is None else [op]
        alts = []
        for o in ops:
            if o.kind != "Lit" or o.action is not None or o.text not in OPERATORS:
                raise Unsupported(f"{GRAMMAR} line {a.line}: infixNotation operator outside the table {sorted(OPERATORS)}")
            alts.append(f"skip lit {qstr(o.text)} ;; ret {OPERATORS[o.text]}")
        levels.append(f"({nest('alt', alts)},\n   {CHAIN_ACTIONS[act]})")
    return (f"Definition {INFIX_NAME} (n : nat) : parser {INFIX_TYPE} :=\n  infix_notation ({base})\n  ["
            + ";\n   ".join(levels) + "] n.\n")


def definitions(g: Gen) -> str:
    out = []
    cutname = g.name_of(g.cut)
    cutty = coq_type(g.type_of(g.cut))
    for a in g.order():
        if a.kind == "Infix":
            out.append(infix_def(g, a))
            continue
        name, ty = g.name_of(a), coq_type(g.type_of(a))
        g.rec = a in g.scc
        body = rule_body(g, a)
        g.rec = False
        if a is g.cut:
            out.append(f"Definition {name}_step (n : nat) ({cutname}_rec : parser {cutty}) : parser {ty} :=\n  {body}.\n")
            out.append(f"(* pp.Forward: one unit of fuel per passage through the forward reference *)\n"
                       f"Fixpoint {name} (n : nat) : parser {ty} :=\n  match n with\n  | O => pout\n"
                       f"  | S n' => {name}_step n ({name} n')\n  end.\n")
            for b in g.order():
                if b in g.scc and b is not g.cut:
                    out.append(f"Definition {g.name_of(b)} (n : nat) : parser {coq_type(g.type_of(b))} := "
                               f"{g.name_of(b)}_of n ({name} n).\n")
        elif a in g.scc:
            out.append(f"Definition {name}_of (n : nat) ({cutname}_rec : parser {cutty}) : parser {ty} :=\n  {body}.\n")
        elif g.fuel[a]:
            out.append(f"Definition {name} (n : nat) : parser {ty} :=\n  {body}.\n")
        else:
            out.append(f"Definition {name} : parser {ty} :=\n  {body}.\n")
    pre = []
    if g.uses_symbol:
        for alts, (nm, ty, vals) in sorted(ONE_OF.items()):
            pre.append(f"Definition {nm} : parser {ty} := one_of ["
                       + "; ".join(f"({qstr(s)}, {vals[s]})" for s in alts) + "].\n")
    return "\n".join(pre + out)


ASSUMPTIONS = [
    "grammar: the pyparsing ENGINE — packrat off, whitespace \" \\t\\n\\r\" skipped before every token that is not inside "
    "a Combine, MatchFirst = ordered choice, Or = longest match (first among equals), Optional / ZeroOrMore / OneOrMore "
    "greedy without giving back, an exception that is not a ParseException raised by a parse action aborting the whole "
    "parse — is the combinator library of model/Grammar.v (bind, alt, opt, many, many1, lit, variable, digits1) and "
    "base/PyParsing.v (por, or_actions, one_of, combine, cat, opt_text, caseless_literal_raw, infix_notation), validated "
    "against the real engine by harness/grammar_cases.py, not derived",
    "grammar: a `.set_parse_action(f)` is rendered as the tree constructor of model/Ast.v that the table ACTIONS of "
    "translator/py2coq_grammar.py gives for f, checked against the token shape of the rule (Group or flat, which tokens "
    "are literals, optional, repeated; suppressed literals are not tokens); WHAT f computes is gen/SyntaxGen.v",
    "grammar: `a ^ b` / pp.Or is por (longest match).  An Or with the alternative paren_arith_expr is "
    "or_actions (por ...): Or compares its alternatives with parse actions off and re-parses the winner with actions on, "
    "so the constant is evaluated (ZeroDivisionError = RDiv) exactly when the whole alternative matched; "
    "paren_arith_expr anywhere else is rejected.  model/Grammar.v writes these Ors as ordered choices (the alternatives "
    "start with different characters, resp. \"==\" is tried before \"=\"): proofs/GrammarGenTokens.v proves por = alt there",
    "grammar: nested anonymous `a | b | c` and `a + b + c` are flattened (MatchFirst and And are associative); "
    "`x <- p ;; ret x` is written p; pp.Group only nests the token list (checked against the shape the action expects); "
    "x.set_name(..), cast(T, x), comments and docstrings are ignored",
    "grammar: pp.Forward / `<<=`: the cycle term -> paren_terms -> terms -> term is cut at `term`, a Fixpoint on fuel "
    "that spends one unit per passage through the Forward (fuel 0 = ROut); pp.infixNotation: infix_notation spends one "
    "unit per parenthesis nesting; model/GrammarFacts.v shows fuel > length of the input is never exhausted",
    "grammar: pp.infixNotation(base, [(op, 2, pp.opAssoc.LEFT, action), ...]) is infix_notation of base/PyParsing.v: "
    "operand = base | \"(\" whole \")\" with suppressed parentheses, one left-associative chain per level, tightest "
    "first; the chain action _parse_arithmetic_chain is the fold fold_left_assoc; pyparsing's FollowedBy look-ahead "
    "is not rendered (it only avoids re-parsing)",
    "grammar: pp.oneOf(\"+ -\") tries its spellings in the given order (checked: no spelling is a prefix of a later "
    "one); the tokens \"+\" / \"-\" are the signs Plus / Minus, the operators * / + - are OMul ODiv OAdd OSub; "
    "pp.CaselessLiteral returns its defining string; pp.Word(nums) inside the Combine is digits1, "
    "pp.Word(alphas, alphanums + \"_\") is variable (ASCII letters only, as in model/Grammar.v)",
    "grammar: `x |= e` appends to x in place when x is a MatchFirst and builds MatchFirst([x, e]) otherwise; "
    "`.set_parse_action` replaces nothing (a second action on one object is rejected) and mutates the object, so "
    "every use of `variable` carries _parse_only_variable",
]


def header(g: Gen, names: List[str]) -> str:
    def wrap(s):
        import textwrap
        return "\n     ".join(textwrap.wrap(s.replace("(*", "( *").replace("*)", "* )"), 110))
    return ("(* GENERATED by /verif/translator/py2coq_grammar.py (hooked into py2coq.py) — do not edit.\n"
            f"   from {GRAMMAR}: the module-level pyparsing expressions (the grammar's STRUCTURE).\n"
            f"   rules: {', '.join(names)}\n"
            "   vocabulary: model/Grammar.v (combinators), base/PyParsing.v.  Equalities with model/Grammar.v:\n"
            "   proofs/GrammarGen{Base,Tokens,Terms,Expr,Facts}.v.\n"
            "   Approximations (each is also an `assumption:` line of the translator):\n"
            + "".join(f"   - {wrap(a)}\n" for a in ASSUMPTIONS) + "*)\n"
            "From Coq Require Import List String Ascii Bool NArith ZArith QArith Arith.\nImport ListNotations.\n"
            "Require Import Py Ast Grammar PyParsing.\nLocal Open Scope string_scope.\n\n")


def gen_grammar(repo) -> Tuple[str, List[str]]:
    src = open(os.path.join(repo, GRAMMAR)).read()
    mod = ast.parse(src)
    ev = run_module(mod)
    g = Gen(ev)
    body = definitions(g)
    names = [g.name_of(a) for a in g.order()]
    tail = ("\n(* expression.parse_string(s, parse_all=True) *)\n"
            "Definition parse_expr_fuel (n : nat) (s : string) : presult :=\n"
            f"  match {ROOT_NAME} n s with\n"
            "  | ROk e r => match skip_ws r with EmptyString => Ok e | _ => Reject end\n"
            "  | RFail => Reject\n  | ROut => OutOfFuel\n  | RDiv => DivZero\n  end.\n"
            "Definition parse_expr (s : string) : presult := parse_expr_fuel (S (String.length s)) s.\n")
    return header(g, names) + body + tail, list(ASSUMPTIONS)


if __name__ == "__main__":
    text, ass = gen_grammar(sys.argv[1])
    sys.stdout.write(text)
