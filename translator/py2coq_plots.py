#!/usr/bin/env python3
"""T1, generator for the VERTEX ROUTINE of pacti.utils.plots -> coq/gen/PlotsGen.v.

Translated (fail closed on anything outside the subset, on a missing listed function, deterministic output):
  src/pacti/utils/plots.py   _gen_boundary_constraints, _substitute_in_termlist, _get_feasible_point,
                             _get_bounding_vertices, constraints_to_vertices
Every other function of the module (the matplotlib side: plot_assumptions, plot_guarantees, _plot_constraints, ...)
is NOT translated and is ignored.  Target vocabulary: coq/base/PyPlots.v on top of base/PyDict.v, PyLoop.v,
PyTermList.v, PyPrint.v; the methods of PolyhedralTerm / PolyhedralTermList that the routine calls (__init__, copy,
substitute_variable, vars, __or__) are the translated ones of gen/TermGen.v and gen/TermListGen.v, list_diff /
list_union those of gen/ListsGen.v.  NOT translated, but named primitives (class PlotPrims of PyPlots.v):
PolyhedralTermList.termlist_to_polytope, np.linalg.norm, scipy's linprog (with every argument the Python passes,
bounds included), HalfspaceIntersection (Qhull) and the atan2-keyed sort.  proofs/PlotsGen{Base,Substitute,Vertices,
Bounding,Facts}.v prove each generated function EQUAL to the hand model of model/Plots.v.

Typing: every expression gets a static type (F float, B bool, N int that counts or indexes, V Var, T PolyhedralTerm,
TL PolyhedralTermList, D dict {Var: float}, A1 / A2 numpy arrays of rank 1 / 2, OA1 np.array of a value that may be
None, RES linprog result, HS HalfspaceIntersection, ANG an angle, lists, pairs, the 5-tuple of termlist_to_polytope);
K is a condition decided by the static types (isinstance).  Whether a function (and each loop / join inside a monadic
function) is monadic is INFERRED from its body.
"""
from __future__ import annotations

import ast
import hashlib
import re
import sys
from typing import Dict, List, Optional, Tuple

# py2coq.py is always run as a script: its classes live in __main__, not in a module called py2coq
_main = sys.modules.get("__main__")
if _main is not None and str(getattr(_main, "__file__", "")).endswith("py2coq.py") and hasattr(_main, "Unsupported"):
    P = _main
else:                                                  # imported from somewhere else (tests)
    import py2coq as P                                 # type: ignore

Unsupported, fail, strip_doc, class_def = P.Unsupported, P.fail, P.strip_doc, P.class_def
n_imports, n_no_redefinition, NeedMonad, COQ_KEYWORDS, qlit = (P.n_imports, P.n_no_redefinition, P.NeedMonad,
                                                               P.COQ_KEYWORDS, P.qlit)

MOD = "pacti.utils.plots"
LISTED = ["_gen_boundary_constraints", "_substitute_in_termlist", "_get_feasible_point", "_get_bounding_vertices",
          "constraints_to_vertices"]
BUILTINS = ["isinstance", "type", "list", "len", "sum", "zip", "sorted", "tuple", "ValueError", "abs", "float", "str"]
# module-level names the translation gives a meaning to: alias -> what it must be imported as
IMPORTS = {
    "np": "numpy", "linprog": "scipy.optimize.linprog", "HalfspaceIntersection": "scipy.spatial.HalfspaceIntersection",
    "QhullError": "scipy.spatial.QhullError", "atan2": "math.atan2",
    "PolyhedralTerm": "pacti.terms.polyhedra.polyhedra.PolyhedralTerm",
    "PolyhedralTermList": "pacti.terms.polyhedra.polyhedra.PolyhedralTermList", "Var": "pacti.iocontract.Var",
    "list_diff": "pacti.utils.lists.list_diff", "list_union": "pacti.utils.lists.list_union",
}
# rank of the np.ndarray parameters / results (the annotation does not say)
NDARRAY = {("_get_feasible_point", "a_mat"): "A2", ("_get_feasible_point", "b"): "A1",
           ("_get_feasible_point", "return"): "A1",
           ("_get_bounding_vertices", "a_mat"): "A2", ("_get_bounding_vertices", "b"): "A1"}

VOCAB = {
    # base/PyPlots.v
    "np_matrix", "np_vector", "point", "angle", "lp_bounds", "lp_rhs", "Rhs1", "Rhs2", "py_assert", "try_except_escape",
    "dict_literal", "tuple5_0", "tuple5_1", "tuple5_2", "tuple5_3", "tuple5_4", "nat_float", "py_sum", "py_zip",
    "py_unzip2", "py_atan2", "np_array_2d", "np_array_1d", "np_reshape_col", "np_neg_2d", "np_neg_1d", "np_concat_axis1",
    "np_concat_axis0", "same_width", "row_get_cols", "np_get_cols", "row_set_cols", "np_set_cols", "np_array_opt",
    "npo_index", "npo_slice_0_m1", "PlotPrims", "plp_result", "phs_t", "pp_termlist_to_polytope", "pp_norm_rows",
    "pp_linprog", "pp_res_status", "pp_res_x", "pp_HalfspaceIntersection", "pp_intersections", "pp_sorted_by_atan2", "PP",
    # older vocabularies
    "dict_items", "dict_values", "dict_keys", "dict_empty", "dict_get", "dict_set", "list_truth", "py_append", "py_reverse",
    "for_list", "for_list_m", "for_items", "for_items_m", "Continue", "Break", "ctl", "list_get_m", "list_set_m", "map_m",
    "py_list_copy", "py_list", "try_except", "var_name", "Var", "var", "pterm", "pvars", "mkT", "tvars", "tconst", "qneg",
    "qadd", "qsub", "qmul", "qdiv", "py_div", "qabs", "qle", "qlt", "qge", "qgt", "q_eqb", "q_neb", "py_float", "len",
    "ret", "raise", "bind", "M", "Q", "bool", "list", "string", "nat", "unit", "tt", "true", "false", "negb", "andb",
    "orb", "fst", "snd", "pair", "nil", "cons", "app", "rev", "map", "filter", "inl", "inr", "Some", "None", "option",
    "Escape", "ValueErr", "err", "term", "eqb", "String", "Nat", "S", "O", "py_in", "nonempty", "list_diff", "list_union",
    "list_intersection", "list_diff_m", "list_union_m", "list_intersection_m", "removelast", "combine",
}
GEN_NAMES: set = set()


def cid(name: str) -> str:
    """Coq identifier for a Python local"""
    if re.match(r"^[a-z]+_\d+$", name):
        raise Unsupported(f"local name {name} collides with generated names")
    if not re.match(r"^[A-Za-z_][A-Za-z0-9_]*$", name) or name == "_":
        raise Unsupported(f"local name {name!r}")
    if name in COQ_KEYWORDS or name in VOCAB or name in GEN_NAMES or name.startswith("PolyhedralTerm") \
            or name.startswith("plots_"):
        return name + "_"
    return name


def comment_safe(s: str) -> str:
    return s.replace("(*", "( *").replace("*)", "* )")


# ---------------------------------------------------------------- types
class TV:
    """element type of an un-annotated `[]`, fixed by its first use"""

    def __init__(self):
        self.ref = None


def rt(t):
    while isinstance(t, TV) and t.ref is not None:
        t = t.ref
    if isinstance(t, tuple) and t[0] in ("L", "P", "O", "T5"):
        return tuple([t[0]] + [rt(x) for x in t[1:]])
    return t


def tshow(t) -> str:
    t = rt(t)
    if isinstance(t, TV):
        return "?"
    if isinstance(t, tuple):
        if t[0] == "I":
            return f"int literal {t[1]}"
        if t[0] == "K":
            return f"static {t[1]}"
        return f"{t[0]}[{', '.join(tshow(x) for x in t[1:])}]"
    return t


ATOM_COQ = {"F": "Q", "B": "bool", "N": "nat", "V": "var", "T": "pterm", "TL": "list pterm", "D": "pvars",
            "A1": "np_vector", "A2": "np_matrix", "OA1": "option np_vector", "RES": "plp_result", "HS": "phs_t",
            "ANG": "angle", "U": "unit"}
LF = ("L", "F")
PT = ("P", "F", "F")
T5 = ("T5", ("L", "V"), "A2", "A1", "A2", "A1")


def coqty(t) -> str:
    t = rt(t)
    if isinstance(t, TV):
        raise Unsupported("the element type of a list literal `[]` is never determined")
    if isinstance(t, tuple):
        if t[0] == "L":
            return f"list ({coqty(t[1])})"
        if t[0] == "O":
            return f"option ({coqty(t[1])})"
        if t[0] == "P":
            return f"({coqty(t[1])} * {coqty(t[2])})"
        if t[0] == "T5":
            return "(" + " * ".join(coqty(x) for x in t[1:]) + ")"
        raise Unsupported(f"a value of type {tshow(t)} where a run-time value is needed")
    return ATOM_COQ[t]


def same(t1, t2) -> bool:
    t1, t2 = rt(t1), rt(t2)
    if isinstance(t1, TV):
        if t1 is not t2:
            t1.ref = t2
        return True
    if isinstance(t2, TV):
        t2.ref = t1
        return True
    if isinstance(t1, tuple) and isinstance(t2, tuple):
        if t1[0] in ("I", "K") or t2[0] in ("I", "K"):
            return False
        return t1[0] == t2[0] and len(t1) == len(t2) and all(same(a, b) for a, b in zip(t1[1:], t2[1:]))
    # a list of terms and a PolyhedralTermList object are both `list pterm`, but they are different Python types
    return t1 == t2


def is_list(t):
    t = rt(t)
    return isinstance(t, tuple) and t[0] == "L"


def is_lit(t, kind):
    t = rt(t)
    return isinstance(t, tuple) and t[0] == kind


def floats_seq(t):
    """a sequence of floats: numpy 1-D array, list or tuple of floats (all `list Q`)"""
    t = rt(t)
    return t == "A1" or t == LF


class PCtx:
    """what happens when a block falls off its end / breaks (continue = fall) / returns (None: not allowed here)"""

    def __init__(self, fall, brk=None, ret=None):
        self.fall, self.brk, self.ret = fall, brk, ret


class Callee:
    def __init__(self, coq, params, rtype, monadic, defaults=None):
        self.coq, self.params, self.rtype, self.monadic = coq, params, rtype, monadic   # params: [(name, type)]
        self.defaults = defaults or {}                                                   # name -> coq text


# ---------------------------------------------------------------- one function
class PlFn:
    def __init__(self, world: "PlWorld", fdef: ast.FunctionDef, label: str, rtype, assumptions: List[str]):
        self.w, self.f, self.label, self.rtype, self.assumptions = world, fdef, label, rtype, assumptions
        self.monadic = False
        self.tmp = 0

    # ------------------------------------------------------------ helpers
    def fresh(self, base="t"):
        self.tmp += 1
        return f"{base}_{self.tmp}"

    def ret(self, c):
        return f"ret {c}" if self.monadic else c

    def need_monad(self, what):
        if not self.monadic:
            raise NeedMonad(what)

    def emit_binds(self, pre, body, ind):
        out = ""
        for pat, m in pre:
            self.need_monad(m)
            out += f"{ind}{pat} <- {m} ;;\n"
        return out + body

    def inline_m(self, pre, c):
        self.need_monad(c)
        return "".join(f"{n} <- {m} ;; " for n, m in pre) + f"ret {c}"

    def sub(self, thunk):
        """translate a sub-block: pure if possible, otherwise monadic.  Returns (text, was_monadic)."""
        if not self.monadic:
            return thunk(), False
        saved_tmp, saved_ass = self.tmp, list(self.assumptions)
        self.monadic = False
        try:
            return thunk(), False
        except NeedMonad:
            self.tmp = saved_tmp
            self.assumptions[:] = saved_ass
            self.monadic = True
            return thunk(), True
        finally:
            self.monadic = True

    @staticmethod
    def owned(env):
        return env.get("%owned", frozenset())

    @staticmethod
    def with_owned(env, name, flag):
        env2 = dict(env)
        o = set(env.get("%owned", frozenset()))
        (o.add if flag else o.discard)(name)
        env2["%owned"] = frozenset(o)
        return env2

    def disown_mentions(self, env, node):
        o = set(self.owned(env))
        for n in ast.walk(node):
            if isinstance(n, ast.Name) and n.id in o:
                o.discard(n.id)
        env2 = dict(env)
        env2["%owned"] = frozenset(o)
        return env2

    def note(self, msg):
        a = f"{self.label}: {msg}"
        if a not in self.assumptions:
            self.assumptions.append(a)

    # ------------------------------------------------------------ coercions
    def coerce(self, c, t, want, node, what):
        t, want = rt(t), rt(want)
        if is_lit(t, "I"):
            if want == "N":
                if t[1] < 0:
                    fail(node, f"{what}: negative int where an index / a count is expected")
                return f"{t[1]}%nat"
            if want == "F":
                return qlit(t[1])
            fail(node, f"{what}: int literal where {tshow(want)} is expected")
        if is_lit(t, "K"):
            if want == "B":
                return "true" if t[1] else "false"
            fail(node, f"{what}: statically decided condition where {tshow(want)} is expected")
        if same(t, want):
            return c
        if want == "A1" and t == LF:                      # a list / tuple of floats where an array-like is expected
            return c
        if want == ("L", "T") and t == "TL":
            fail(node, f"{what}: a PolyhedralTermList object where a list of terms is expected (use .terms)")
        fail(node, f"{what}: expected {tshow(want)}, got {tshow(t)}")

    def as_bool(self, p, c, t, node):
        """truth value of an expression used as a condition"""
        t = rt(t)
        if t == "B" or is_lit(t, "K"):
            return p, c, t
        if is_list(t):
            return p, f"(list_truth {c})", "B"
        fail(node, f"truthiness of a value of type {tshow(t)}")

    def num(self, p, c, t, node, what):
        """an expression used as a float"""
        t = rt(t)
        if t == "F":
            return p, c
        if is_lit(t, "I"):
            return p, qlit(t[1])
        fail(node, f"{what}: a value of type {tshow(t)} where a number is expected")

    # ------------------------------------------------------------ expressions: (prebinds, coq, type)
    def tx(self, e, env):
        if isinstance(e, ast.Name):
            if not isinstance(e.ctx, ast.Load):
                fail(e, "name context")
            if e.id in env and not e.id.startswith("%"):
                if env[e.id] == "DEAD":
                    fail(e, f"{e.id} is used after an in-place update of an object it shares data with")
                if env[e.id] == "EXC":
                    fail(e, f"the caught exception {e.id} used as a value")
                return [], cid(e.id), env[e.id]
            fail(e, f"unbound name {e.id} (module-level names, and names bound only inside a loop, a try or one branch, "
                    "are not visible here)")
        if isinstance(e, ast.Constant):
            v = e.value
            if v is True:
                return [], "true", "B"
            if v is False:
                return [], "false", "B"
            if isinstance(v, int):
                return [], str(v), ("I", v)
            if isinstance(v, float):
                return [], qlit(v), "F"
            fail(e, "constant (str constants are only supported in exception messages and as keys of a linprog result)")
        if isinstance(e, ast.Tuple) and isinstance(e.ctx, ast.Load):
            parts = [self.tx(x, env) for x in e.elts]
            pre = [b for p, _, _ in parts for b in p]
            if len(e.elts) == 2:
                cs, ts = [], []
                for x, (_, c, t) in zip(e.elts, parts):
                    if is_lit(t, "I"):
                        c, t = qlit(rt(t)[1]), "F"
                    if is_lit(t, "K"):
                        fail(x, "statically decided condition in a tuple")
                    cs.append(c)
                    ts.append(rt(t))
                return pre, f"({cs[0]}, {cs[1]})", ("P", ts[0], ts[1])
            if len(e.elts) < 1:
                fail(e, "empty tuple")
            cs = [self.num([], c, t, x, "element of a tuple used as a sequence of floats")[1]
                  for x, (_, c, t) in zip(e.elts, parts)]
            self.note(f"a tuple of {len(e.elts)} floats that is used as a sequence is a list of floats")
            return pre, "[" + "; ".join(cs) + "]", LF
        if isinstance(e, ast.List) and isinstance(e.ctx, ast.Load):
            if not e.elts:
                return [], "[]", ("L", TV())
            parts = [self.tx(x, env) for x in e.elts]
            pre = [b for p, _, _ in parts for b in p]
            if all(is_lit(t, "I") or rt(t) == "F" for _, _, t in parts):
                cs = [self.num([], c, t, x, "list element")[1] for x, (_, c, t) in zip(e.elts, parts)]
                return pre, "[" + "; ".join(cs) + "]", LF
            t0 = parts[0][2]
            for x, (_, _, t) in zip(e.elts, parts):
                if is_lit(t, "I") or is_lit(t, "K"):
                    fail(x, "list literal mixing int literals / static conditions with other values")
                if not same(t0, t):
                    fail(e, "list literal with elements of different static types")
            return pre, "[" + "; ".join(c for _, c, _ in parts) + "]", ("L", t0)
        if isinstance(e, ast.Dict):
            if any(k is None for k in e.keys):
                fail(e, "dict unpacking")
            if not e.keys:
                return [], "dict_empty", "D"
            pre, items = [], []
            for k, v in zip(e.keys, e.values):          # Python evaluates key, value, key, value ... left to right
                pk, ck, tk = self.tx(k, env)
                if rt(tk) != "V":
                    fail(k, f"dict key of type {tshow(tk)} (only {{Var: float}} dicts are supported)")
                pv, cv = self.num(*self.tx(v, env), v, "dict value")
                pre += pk + pv
                items.append(f"({ck}, {cv})")
            return pre, "(dict_literal [" + "; ".join(items) + "])", "D"
        if isinstance(e, ast.Attribute):
            return self.tx_attr(e, env)
        if isinstance(e, ast.Subscript):
            return self.tx_subscript(e, env)
        if isinstance(e, ast.Call):
            return self.tx_call(e, env)
        if isinstance(e, ast.UnaryOp):
            return self.tx_unary(e, env)
        if isinstance(e, ast.BinOp):
            return self.tx_binop(e, env)
        if isinstance(e, ast.BoolOp):
            return self.tx_boolop(e, env)
        if isinstance(e, ast.Compare):
            return self.tx_compare(e, env)
        fail(e, "expression form")

    def tx_attr(self, e, env):
        if isinstance(e.value, ast.Name) and e.value.id not in env:
            fail(e, f"attribute of the unbound / module-level name {e.value.id}")
        p, c, t = self.tx(e.value, env)
        t = rt(t)
        table = {("T", "variables"): ("(tvars {0})", "D"), ("T", "constant"): ("(tconst {0})", "F"),
                 ("V", "name"): ("(var_name {0})", "S"), ("TL", "terms"): ("{0}", ("L", "T")),
                 ("HS", "intersections"): ("(pp_intersections {0})", ("L", PT))}
        if (t, e.attr) in table:
            pat, ty = table[(t, e.attr)]
            if ty == "S":
                fail(e, "a str value outside an exception message")
            if (t, e.attr) == ("HS", "intersections"):
                self.note("hs.intersections (an (n, 2) float array) is the primitive pp_intersections of "
                          "base/PyPlots.v:PlotPrims; its rows are pairs")
            return p, pat.format(c), ty
        props = {"T": self.w.term_props, "TL": self.w.tl_props}.get(t, {})
        if e.attr in props:
            coq, mon, rty = props[e.attr]
            if mon:
                tmp = self.fresh("v")
                return p + [(tmp, f"{coq} {c}")], tmp, rty
            return p, f"({coq} {c})", rty
        fail(e, f"attribute {e.attr} of a value of type {tshow(t)}")

    @staticmethod
    def nat_literal(node):
        if isinstance(node, ast.Constant) and type(node.value) is int and node.value >= 0:
            return node.value
        return None

    def tx_subscript(self, e, env):
        if not isinstance(e.ctx, ast.Load):
            fail(e, "subscript context")
        p1, c1, t1 = self.tx(e.value, env)
        t1 = rt(t1)
        sl = e.slice
        if t1 == "RES":
            if isinstance(sl, ast.Constant) and sl.value == "x":
                return p1, f"(pp_res_x {c1})", ("O", LF)
            if isinstance(sl, ast.Constant) and sl.value == "status":
                return p1, f"(pp_res_status {c1})", "N"
            fail(e, "field of a linprog result other than \"x\" / \"status\"")
        if t1 == "A2":
            cols = self.col_index(sl)
            if cols is None:
                fail(e, "index of a 2-D array other than [:, [j1, j2, ...]] with non-negative int literals")
            tmp = self.fresh("v")
            return p1 + [(tmp, f"np_get_cols {c1} {cols}")], tmp, "A2"
        if isinstance(sl, ast.Slice):
            if t1 == "OA1" and sl.step is None and self.nat_literal(sl.lower) == 0 \
                    and isinstance(sl.upper, ast.UnaryOp) and isinstance(sl.upper.op, ast.USub) \
                    and self.nat_literal(sl.upper.operand) == 1:
                tmp = self.fresh("v")
                return p1 + [(tmp, f"npo_slice_0_m1 {c1}")], tmp, "A1"
            fail(e, f"slice of a value of type {tshow(t1)} (only a[0:-1] on np.array(res[\"x\"]) is supported)")
        if is_lit(t1, "P"):
            i = self.nat_literal(sl)
            if i in (0, 1):
                return p1, f"({'fst' if i == 0 else 'snd'} {c1})", t1[1 + i]
            fail(e, "index of a pair other than the literals 0 / 1")
        if is_lit(t1, "T5"):
            i = self.nat_literal(sl)
            if i is not None and i < 5:
                return p1, f"(tuple5_{i} {c1})", t1[1 + i]
            fail(e, "index of the 5-tuple other than the literals 0 .. 4")
        p2, c2, t2 = self.tx(sl, env)
        c2 = self.coerce(c2, t2, "N", sl, "index")
        tmp = self.fresh("t")
        if is_list(t1):
            return p1 + p2 + [(tmp, f"list_get_m {c1} {c2}")], tmp, t1[1]
        if t1 == "A1":
            return p1 + p2 + [(tmp, f"list_get_m {c1} {c2}")], tmp, "F"
        if t1 == "OA1":
            return p1 + p2 + [(tmp, f"npo_index {c1} {c2}")], tmp, "F"
        fail(e, f"subscript of a value of type {tshow(t1)}")

    def col_index(self, sl):
        """[:, [j1, j2]] -> the Coq list of the column numbers"""
        if not (isinstance(sl, ast.Tuple) and len(sl.elts) == 2):
            return None
        a, b = sl.elts
        if not (isinstance(a, ast.Slice) and a.lower is None and a.upper is None and a.step is None):
            return None
        if not (isinstance(b, ast.List) and b.elts):
            return None
        js = [self.nat_literal(x) for x in b.elts]
        if any(j is None for j in js):
            return None
        return "[" + "; ".join(f"{j}%nat" for j in js) + "]"

    def tx_unary(self, e, env):
        if isinstance(e.op, ast.USub):
            if isinstance(e.operand, ast.Constant) and isinstance(e.operand.value, (int, float)) \
                    and not isinstance(e.operand.value, bool):
                v = -e.operand.value
                return ([], str(v), ("I", v)) if isinstance(v, int) else ([], qlit(v), "F")
            p, c, t = self.tx(e.operand, env)
            t = rt(t)
            if t == "F":
                return p, f"(qneg {c})", "F"
            if t == "A2":
                return p, f"(np_neg_2d {c})", "A2"
            if t == "A1":
                return p, f"(np_neg_1d {c})", "A1"
            fail(e, f"unary minus on a value of type {tshow(t)}")
        if isinstance(e.op, ast.Not):
            p, c, t = self.as_bool(*self.tx(e.operand, env), e.operand)
            t = rt(t)
            if isinstance(t, tuple):
                return p, "", ("K", not t[1])
            return p, f"(negb {c})", "B"
        fail(e, "unary operator")

    def tx_binop(self, e, env):
        (p1, c1, t1), (p2, c2, t2) = self.tx(e.left, env), self.tx(e.right, env)
        t1, t2 = rt(t1), rt(t2)
        pre = p1 + p2
        i1, i2 = is_lit(t1, "I"), is_lit(t2, "I")
        if isinstance(e.op, ast.BitOr) and t1 == "TL" and t2 == "TL":
            coq, mon = self.w.tl_or
            if mon:
                tmp = self.fresh("v")
                return pre + [(tmp, f"{coq} {c1} {c2}")], tmp, "TL"
            return pre, f"({coq} {c1} {c2})", "TL"
        if isinstance(e.op, (ast.Add, ast.Sub, ast.Mult)):
            if i1 and i2:
                fail(e, "arithmetic on two int literals")
            if (t1 == "F" or i1) and (t2 == "F" or i2):
                a, b = self.coerce(c1, t1, "F", e, "arithmetic"), self.coerce(c2, t2, "F", e, "arithmetic")
                op = {ast.Add: "qadd", ast.Sub: "qsub", ast.Mult: "qmul"}[type(e.op)]
                return pre, f"({op} {a} {b})", "F"
        if isinstance(e.op, ast.Div):
            def as_num(c, t):
                if t == "F":
                    return c
                if t == "N":
                    return f"(nat_float {c})"
                if is_lit(t, "I"):
                    return qlit(t[1])
                fail(e, f"/ on a value of type {tshow(t)}")
            a, b = as_num(c1, t1), as_num(c2, t2)
            tmp = self.fresh("t")
            return pre + [(tmp, f"py_div {a} {b}")], tmp, "F"
        fail(e, f"binary operator {type(e.op).__name__} on {tshow(t1)}, {tshow(t2)}")

    def tx_boolop(self, e, env):
        parts = [self.as_bool(*self.tx(v, env), v) for v in e.values]
        is_and = isinstance(e.op, ast.And)
        ks = [isinstance(rt(t), tuple) for _, _, t in parts]
        if all(ks):
            vals = [rt(t)[1] for _, _, t in parts]
            return [], "", ("K", all(vals) if is_and else any(vals))
        if any(ks):
            fail(e, "and/or mixing statically decided and run-time conditions")
        if not any(p for p, _, _ in parts[1:]):
            op = "&&" if is_and else "||"
            return parts[0][0], "(" + f" {op} ".join(c for _, c, _ in parts) + ")", "B"
        # short-circuit evaluation of operands that may raise
        pn, cn, _ = parts[-1]
        acc = self.inline_m(pn, cn)
        for p, c, _ in reversed(parts[1:-1]):
            inner = f"if {c} then ({acc}) else ret false" if is_and else f"if {c} then ret true else ({acc})"
            acc = "".join(f"{n} <- {m} ;; " for n, m in p) + inner
        p0, c0, _ = parts[0]
        tmp = self.fresh("b")
        expr = f"(if {c0} then ({acc}) else ret false)" if is_and else f"(if {c0} then ret true else ({acc}))"
        return p0 + [(tmp, expr)], tmp, "B"

    def tx_compare(self, e, env):
        if len(e.ops) != 1:
            fail(e, "chained comparison")
        op = e.ops[0]
        (p1, c1, t1), (p2, c2, t2) = self.tx(e.left, env), self.tx(e.comparators[0], env)
        t1, t2 = rt(t1), rt(t2)
        pre = p1 + p2
        num = {ast.Gt: "qgt", ast.Lt: "qlt", ast.GtE: "qge", ast.LtE: "qle", ast.Eq: "q_eqb", ast.NotEq: "q_neb"}
        i1, i2 = is_lit(t1, "I"), is_lit(t2, "I")
        if type(op) in num and ((t1 == "F" and (t2 == "F" or i2)) or (i1 and t2 == "F")):
            a, b = self.coerce(c1, t1, "F", e, "comparison"), self.coerce(c2, t2, "F", e, "comparison")
            return pre, f"({num[type(op)]} {a} {b})", "B"
        if isinstance(op, (ast.Eq, ast.NotEq)):
            r = None
            if (t1 == "N" or i1) and (t2 == "N" or i2) and not (i1 and i2):
                r = f"(Nat.eqb {self.coerce(c1, t1, 'N', e, '==')} {self.coerce(c2, t2, 'N', e, '==')})"
            elif t1 == "B" and t2 == "B":
                r = f"(Bool.eqb {c1} {c2})"
            elif t1 == "V" and t2 == "V":
                r = f"(String.eqb {c1} {c2})"
            if r is not None:
                return pre, (f"(negb {r})" if isinstance(op, ast.NotEq) else r), "B"
        if isinstance(op, (ast.In, ast.NotIn)) and t1 == "V" and t2 in (("L", "V"), "D"):
            r = f"(py_in {c1} {c2})" if t2 != "D" else f"(py_in {c1} (dict_keys {c2}))"
            return pre, (f"(negb {r})" if isinstance(op, ast.NotIn) else r), "B"
        fail(e, f"comparison {type(op).__name__} on {tshow(t1)}, {tshow(t2)}")

    # ------------------------------------------------------------ calls
    @staticmethod
    def dotted(f):
        parts = []
        while isinstance(f, ast.Attribute):
            parts.append(f.attr)
            f = f.value
        if isinstance(f, ast.Name):
            parts.append(f.id)
            return ".".join(reversed(parts)), f.id
        return None, None

    def bind_args(self, node, names, args, kwargs):
        """{parameter name: ast} in source evaluation order (positional, then keywords, left to right)"""
        if len(args) > len(names):
            fail(node, "too many positional arguments")
        given: Dict[str, ast.AST] = {}
        for n_, a in zip(names, args):
            given[n_] = a
        for k, a in kwargs.items():
            if k not in names or k in given:
                fail(node, f"keyword argument {k}")
            given[k] = a
        return given

    def call_callee(self, node, callee: Callee, args, kwargs, env, recv=None):
        names = [n for n, _ in callee.params]
        given = self.bind_args(node, names, args, kwargs)
        pre, vals = [], {}
        for n_, a in given.items():
            p, c, t = self.tx(a, env)
            want = dict(callee.params)[n_]
            pre += p
            vals[n_] = self.coerce(c, t, want, a, f"argument {n_} of {callee.coq}")
        for n_ in names:
            if n_ not in vals:
                if n_ in callee.defaults:
                    vals[n_] = callee.defaults[n_]
                    self.note(f"call of {callee.coq} without {n_}: its default {callee.defaults[n_]} is passed")
                else:
                    fail(node, f"missing argument {n_} of {callee.coq}")
        call = " ".join([callee.coq] + ([recv] if recv is not None else []) + [vals[n_] for n_ in names])
        if callee.monadic:
            tmp = self.fresh("v")
            return pre + [(tmp, call)], tmp, callee.rtype
        return pre, f"({call})", callee.rtype

    def tx_arraylike(self, e, env, rank, what):
        """an array-like argument of a numpy / scipy function: a (nested) list literal of numbers or an array"""
        if isinstance(e, ast.List) and e.elts:
            if rank == 1:
                pre, cs = [], []
                for x in e.elts:
                    p, c = self.num(*self.tx(x, env), x, what)
                    pre += p
                    cs.append(c)
                return pre, "[" + "; ".join(cs) + "]"
            pre, rows = [], []
            for x in e.elts:
                p, c = self.tx_arraylike(x, env, 1, what)
                pre += p
                rows.append(c)
            return pre, "[" + "; ".join(rows) + "]"
        p, c, t = self.tx(e, env)
        t = rt(t)
        ok = {1: ("A1", LF), 2: ("A2", ("L", LF), ("L", "A1"))}[rank]
        if t not in ok:
            fail(e, f"{what}: expected a {rank}-D array-like of floats, got {tshow(t)}")
        return p, c

    def tx_call(self, e, env):
        f = e.func
        if any(k.arg is None for k in e.keywords):
            fail(e, "**kwargs")
        kwargs = {k.arg: k.value for k in e.keywords}
        if len(kwargs) != len(e.keywords):
            fail(e, "repeated keyword argument")
        if any(isinstance(a, ast.Starred) for a in e.args):
            fail(e, "*args (only `x, y = zip(*points)` is supported, as a statement)")
        name, root = self.dotted(f)
        if root is not None and root in env:
            name = None                                    # a method call on a local
        if name is not None:
            if isinstance(f, ast.Name) and f.id in BUILTINS and f.id not in self.w.fdefs and f.id not in self.w.imports:
                return self.builtin_call(e, f.id, kwargs, env)
            target = self.w.resolve(name)
            r = self.external_call(e, target, kwargs, env)
            if r is not None:
                return r
            callee = self.w.callee(target, e)
            if callee is not None:
                return self.call_callee(e, callee, e.args, kwargs, env)
            fail(e, f"call to {name}" + (f" (= {target})" if target != name else ""))
        if not isinstance(f, ast.Attribute):
            fail(e, "call form")
        # ---- method call on a local value
        p0, c0, t0 = self.tx(f.value, env)
        t0 = rt(t0)
        m = f.attr
        if t0 == "D" and m in ("items", "keys", "values") and not e.args and not kwargs:
            ety = {"items": ("P", "V", "F"), "keys": "V", "values": "F"}[m]
            return p0, f"(dict_{m} {c0})", ("L", ety)
        if is_list(t0) and m == "copy" and not e.args and not kwargs:
            return p0, f"(py_list_copy {c0})", t0
        if t0 == "T" and m in self.w.term_methods:
            pre, c, t = self.call_callee(e, self.w.term_methods[m], e.args, kwargs, env, recv=c0)
            return p0 + pre, c, t
        fail(e, f"method {m} on a value of type {tshow(t0)}")

    def external_call(self, e, target, kwargs, env):
        args = list(e.args)
        if target in ("pacti.utils.lists.list_diff", "pacti.utils.lists.list_union", "pacti.utils.lists.list_intersection"):
            fn = target.rsplit(".", 1)[1]
            if fn not in self.w.lists_fns:
                fail(e, f"{fn} is not among the translated functions of gen/ListsGen.v")
            given = self.bind_args(e, ["list1", "list2"], args, kwargs)
            if set(given) != {"list1", "list2"}:
                fail(e, f"arguments of {fn}")
            (p1, c1, t1), (p2, c2, t2) = self.tx(given["list1"], env), self.tx(given["list2"], env)
            t1, t2 = rt(t1), rt(t2)
            if isinstance(t1, TV) or (is_list(t1) and isinstance(rt(t1[1]), TV)):
                same(t1, t2)
            if isinstance(t2, TV) or (is_list(t2) and isinstance(rt(t2[1]), TV)):
                same(t2, t1)
            t1, t2 = rt(t1), rt(t2)
            if t1 == ("L", "V") and t2 == ("L", "V"):
                return p1 + p2, f"({fn} {c1} {c2})", ("L", "V")
            if t1 == ("L", "T") and t2 == ("L", "T"):
                coq, mon = self.w.term_eq
                if not mon:
                    fail(e, "PolyhedralTerm.__eq__ is expected to be translated as a function that may raise")
                self.note(f"{fn} on lists of terms uses PolyhedralTerm.__eq__ as translated in gen/TermGen.v")
                tmp = self.fresh("v")
                return p1 + p2 + [(tmp, f"{fn}_m {coq} {c1} {c2}")], tmp, ("L", "T")
            fail(e, f"{fn} on {tshow(t1)}, {tshow(t2)}")
        if target == "scipy.optimize.linprog":
            return self.tx_linprog(e, kwargs, env)
        if target == "scipy.spatial.HalfspaceIntersection":
            given = self.bind_args(e, ["halfspaces", "interior_point"], args, kwargs)
            if set(given) != {"halfspaces", "interior_point"}:
                fail(e, "arguments of HalfspaceIntersection (halfspaces, interior_point; nothing else is supported)")
            p1, c1 = self.tx_arraylike(given["halfspaces"], env, 2, "halfspaces")
            p2, c2 = self.tx_arraylike(given["interior_point"], env, 1, "interior_point")
            self.note("scipy.spatial.HalfspaceIntersection (Qhull) is NOT translated: it is the primitive "
                      "pp_HalfspaceIntersection of base/PyPlots.v:PlotPrims; QhullError is Escape \"QhullError\"")
            tmp = self.fresh("v")
            return p1 + p2 + [(tmp, f"pp_HalfspaceIntersection {c1} {c2}")], tmp, "HS"
        if target in ("math.atan2", "numpy.arctan2"):
            if kwargs or len(args) != 2:
                fail(e, "arguments of atan2")
            (p1, c1), (p2, c2) = (self.num(*self.tx(a, env), a, "argument of atan2") for a in args)
            self.note(f"{target}(y, x) is symbolic: the pair py_atan2 y x = (y, x) of base/PyPlots.v; the angular order "
                      "belongs to the sorting primitive")
            return p1 + p2, f"(py_atan2 {c1} {c2})", "ANG"
        if target == "numpy.array":
            if kwargs or len(args) != 1:
                fail(e, "arguments of np.array")
            a = args[0]
            if isinstance(a, ast.List) and a.elts:
                rank = 2 if isinstance(a.elts[0], ast.List) else 1
                p, c = self.tx_arraylike(a, env, rank, "np.array")
                return p, f"(np_array_{rank}d {c})", f"A{rank}"
            p, c, t = self.tx(a, env)
            t = rt(t)
            if t == ("O", LF):
                self.note("np.array(v) of a value that may be None is an `option`: np.array(None) is a 0-d object array, "
                          "indexing or slicing it raises IndexError")
                return p, f"(np_array_opt {c})", "OA1"
            if t in ("A1", LF):
                return p, f"(np_array_1d {c})", "A1"
            if t in ("A2", ("L", LF)):
                return p, f"(np_array_2d {c})", "A2"
            fail(e, f"np.array of a value of type {tshow(t)}")
        if target == "numpy.reshape":
            given = self.bind_args(e, ["a", "newshape"], args, kwargs)
            sh = given.get("newshape")
            if set(given) != {"a", "newshape"} or not (isinstance(sh, ast.Tuple) and [ast.unparse(x) for x in sh.elts] == ["-1", "1"]):
                fail(e, "np.reshape other than np.reshape(v, (-1, 1))")
            p, c = self.tx_arraylike(given["a"], env, 1, "np.reshape")
            return p, f"(np_reshape_col {c})", "A2"
        if target == "numpy.concatenate":
            axis = kwargs.pop("axis", None)
            if kwargs or len(args) != 1 or not (isinstance(args[0], ast.Tuple) and len(args[0].elts) == 2):
                fail(e, "np.concatenate other than np.concatenate((a, b), axis=0 / 1)")
            ax = 0 if axis is None else self.nat_literal(axis)
            if ax not in (0, 1):
                fail(e, "axis of np.concatenate")
            (p1, c1), (p2, c2) = (self.tx_arraylike(a, env, 2, "np.concatenate") for a in args[0].elts)
            tmp = self.fresh("v")
            return p1 + p2 + [(tmp, f"np_concat_axis{ax} {c1} {c2}")], tmp, "A2"
        if target == "numpy.linalg.norm":
            if len(args) != 1 or set(kwargs) != {"axis", "keepdims"} or self.nat_literal(kwargs["axis"]) != 1 \
                    or not (isinstance(kwargs["keepdims"], ast.Constant) and kwargs["keepdims"].value is True):
                fail(e, "np.linalg.norm other than np.linalg.norm(a, axis=1, keepdims=True)")
            p, c = self.tx_arraylike(args[0], env, 2, "np.linalg.norm")
            self.note("np.linalg.norm(a, axis=1, keepdims=True) is NOT translated (the row norms are irrational): it is "
                      "the primitive pp_norm_rows of base/PyPlots.v:PlotPrims")
            return p, f"(pp_norm_rows {c})", "A2"
        if target == IMPORTS["PolyhedralTerm"]:
            callee = self.w.term_init
            if callee is None:
                fail(e, "PolyhedralTerm.__init__ is not among the translated methods of gen/TermGen.v")
            return self.call_callee(e, callee, args, kwargs, env)
        if target == IMPORTS["PolyhedralTermList"]:
            coq, mon = self.w.tl_init
            given = self.bind_args(e, ["terms"], args, kwargs)
            if "terms" not in given:
                arg, pre = "None", []
            else:
                p, c, t = self.tx(given["terms"], env)
                t = rt(t)
                if is_list(t) and isinstance(rt(t[1]), TV):
                    same(t, ("L", "T"))
                    t = rt(t)
                if t != ("L", "T"):
                    fail(e, f"PolyhedralTermList(...) of a value of type {tshow(t)}")
                arg, pre = f"(Some {c})", p
            if mon:
                tmp = self.fresh("v")
                return pre + [(tmp, f"{coq} {arg}")], tmp, "TL"
            return pre, f"({coq} {arg})", "TL"
        if target == IMPORTS["PolyhedralTermList"] + ".termlist_to_polytope":
            given = self.bind_args(e, ["terms", "context"], args, kwargs)
            if set(given) != {"terms", "context"}:
                fail(e, "arguments of termlist_to_polytope")
            (p1, c1, t1), (p2, c2, t2) = self.tx(given["terms"], env), self.tx(given["context"], env)
            if rt(t1) != "TL" or rt(t2) != "TL":
                fail(e, f"termlist_to_polytope on {tshow(t1)}, {tshow(t2)}")
            self.note("PolyhedralTermList.termlist_to_polytope is NOT translated (it builds numpy matrices): it is the "
                      "primitive pp_termlist_to_polytope of base/PyPlots.v:PlotPrims, returning the 5-tuple "
                      "(variables, A, b, a_h, b_h); the arrays it returns are new objects")
            tmp = self.fresh("v")
            return p1 + p2 + [(tmp, f"pp_termlist_to_polytope {c1} {c2}")], tmp, T5
        return None

    def tx_linprog(self, e, kwargs, env):
        # scipy.optimize.linprog(c, A_ub=None, b_ub=None, A_eq=None, b_eq=None, bounds=(0, None), method=..., ...)
        given = self.bind_args(e, ["c", "A_ub", "b_ub", "A_eq", "b_eq", "bounds"], list(e.args), kwargs)
        for k in ("A_eq", "b_eq"):
            if k in given:
                fail(e, f"linprog argument {k}")
        for k in ("c", "A_ub", "b_ub"):
            if k not in given:
                fail(e, f"linprog without {k}")
        pre, vals = [], {}
        for k in given:                                     # source evaluation order
            a = given[k]
            if k == "c":
                p, vals[k] = self.tx_arraylike(a, env, 1, "linprog c")
            elif k == "A_ub":
                p, vals[k] = self.tx_arraylike(a, env, 2, "linprog A_ub")
            elif k == "b_ub":
                p, c, t = self.tx(a, env)
                t = rt(t)
                if t in ("A1", LF):
                    vals[k] = f"(Rhs1 {c})"
                elif t == "A2":
                    vals[k] = f"(Rhs2 {c})"
                else:
                    fail(a, f"linprog b_ub of type {tshow(t)}")
            else:
                p, vals[k] = [], self.lp_bounds(a)
            pre += p
        if "bounds" not in vals:
            vals["bounds"] = "(Some (0 # 1), None)"
            self.note("linprog called without `bounds`: scipy's default bounds=(0, None) (every variable >= 0) is passed "
                      "to the primitive")
        self.note("scipy.optimize.linprog is NOT translated: it is the primitive pp_linprog of base/PyPlots.v:PlotPrims "
                  "(argument order c, A_ub, b_ub, bounds; res[\"status\"] / res[\"x\"] are pp_res_status / pp_res_x)")
        tmp = self.fresh("v")
        return pre + [(tmp, f"pp_linprog {vals['c']} {vals['A_ub']} {vals['b_ub']} {vals['bounds']}")], tmp, "RES"

    def lp_bounds(self, a):
        if not (isinstance(a, ast.Tuple) and len(a.elts) == 2):
            fail(a, "linprog bounds other than a literal pair (lo, hi)")
        out = []
        for x in a.elts:
            if isinstance(x, ast.Constant) and x.value is None:
                out.append("None")
                continue
            try:
                v = ast.literal_eval(x)
            except Exception:
                fail(a, "linprog bounds other than None / numeric literals")
            if isinstance(v, bool) or not isinstance(v, (int, float)):
                fail(a, "linprog bounds other than None / numeric literals")
            out.append(f"Some {qlit(v)}")
        return f"({out[0]}, {out[1]})"

    def static_isinstance(self, e, env):
        if len(e.args) != 2 or e.keywords:
            fail(e, "isinstance arity")
        p, c, t = self.tx(e.args[0], env)
        t = rt(t)
        nm, root = self.dotted(e.args[1])
        if nm is None or root in env or p:
            fail(e, f"isinstance against {ast.unparse(e.args[1])}")
        target = self.w.resolve(nm)
        table = {("TL", IMPORTS["PolyhedralTermList"]): True, ("T", IMPORTS["PolyhedralTerm"]): True,
                 ("V", IMPORTS["Var"]): True}
        if (t, target) not in table:
            fail(e, f"isinstance of a value of static type {tshow(t)} against {ast.unparse(e.args[1])}")
        self.note(f"`{ast.unparse(e)}` is {table[(t, target)]}: the model is typed (the parameter annotation is trusted)")
        return [], "", ("K", table[(t, target)])

    def builtin_call(self, e, fname, kwargs, env):
        if fname == "isinstance":
            return self.static_isinstance(e, env)
        if fname == "sorted":
            if len(e.args) != 1 or set(kwargs) != {"key"}:
                fail(e, "sorted(...) without exactly one positional argument and key=")
            p, c, t = self.tx(e.args[0], env)
            if rt(t) != ("L", PT):
                fail(e, f"sorted of a value of type {tshow(t)} (only a sequence of pairs of floats is supported)")
            key = self.key_lambda(kwargs["key"], PT, env)
            self.note("sorted(points, key=lambda p: atan2(..)) is NOT translated: it is the primitive pp_sorted_by_atan2 "
                      "of base/PyPlots.v:PlotPrims (stable sort by the angle; the key lambda IS translated)")
            return p, f"(pp_sorted_by_atan2 {c} {key})", ("L", PT)
        if fname == "zip":
            if kwargs or len(e.args) != 2:
                fail(e, "zip other than zip(a, b)")
            (p1, c1, t1), (p2, c2, t2) = self.tx(e.args[0], env), self.tx(e.args[1], env)
            t1, t2 = rt(t1), rt(t2)
            if not (floats_seq(t1) and floats_seq(t2)):
                fail(e, f"zip on {tshow(t1)}, {tshow(t2)}")
            self.note("zip(a, b) is used as a sequence: the list of pairs py_zip a b")
            return p1 + p2, f"(py_zip {c1} {c2})", ("L", PT)
        if kwargs or len(e.args) != 1:
            fail(e, f"arguments of {fname}(...)")
        p, c, t = self.tx(e.args[0], env)
        t = rt(t)
        if fname == "list" and t == ("L", "V"):
            return p, f"(py_list {c})", t
        if fname == "list" and is_list(t):
            return p, f"(py_list_copy {c})", t
        if fname == "len" and (is_list(t) or t in ("A1", "A2", "TL")):
            if t == "TL":
                fail(e, "len of a PolyhedralTermList object")
            return p, f"(len {c})", "N"
        if fname == "sum" and floats_seq(t):
            return p, f"(py_sum {c})", "F"
        if fname == "float" and (t == "F" or is_lit(t, "I")):
            return p, f"(py_float {self.coerce(c, t, 'F', e, 'float(...)')})", "F"
        if fname == "abs" and t == "F":
            return p, f"(qabs {c})", "F"
        fail(e, f"call {fname}(...) on a value of type {tshow(t)}")

    def key_lambda(self, lam, ety, env):
        if not (isinstance(lam, ast.Lambda) and len(lam.args.args) == 1 and not lam.args.defaults
                and not lam.args.vararg and not lam.args.kwarg and not lam.args.kwonlyargs and not lam.args.posonlyargs):
            fail(lam, "sort key that is not a one-argument lambda")
        x = lam.args.args[0].arg
        if x in env or x in self.w.reserved:
            fail(lam, f"lambda parameter {x} shadows a local or a module-level name")
        env2 = dict(env)
        env2[x] = ety
        p, c, t = self.tx(lam.body, env2)
        if p:
            fail(lam, "sort key that may raise")
        if rt(t) != "ANG":
            fail(lam, f"sort key of type {tshow(t)} (only an atan2(..) key is supported)")
        return f"(fun {cid(x)} => {c})"

    # ------------------------------------------------------------ statements
    def is_dropped(self, s, env) -> bool:
        if isinstance(s, ast.Pass):
            return True
        if isinstance(s, ast.Expr):
            v = s.value
            if isinstance(v, ast.Constant) and isinstance(v.value, str):
                return True
            if isinstance(v, ast.Call) and isinstance(v.func, ast.Attribute) and isinstance(v.func.value, ast.Name) \
                    and v.func.value.id == "logging" and "logging" not in env \
                    and self.w.imports.get("logging") == "logging" \
                    and v.func.attr in {"debug", "info", "warning", "error"}:
                for n in ast.walk(v):
                    if isinstance(n, (ast.Call, ast.Subscript, ast.BinOp, ast.Await, ast.NamedExpr)) and n is not v:
                        fail(n, "construct in a logging argument not known to be total")
                    if isinstance(n, ast.Name) and n.id not in env and n.id != "logging":
                        fail(n, f"name {n.id} in a logging argument is not bound here")
                self.note(f"logging.{v.func.attr}(...) ignored")
                return True
        return False

    def terminates(self, stmts) -> bool:
        if not stmts:
            return False
        s = stmts[-1]
        if isinstance(s, (ast.Raise, ast.Return, ast.Break, ast.Continue)):
            return True
        if isinstance(s, ast.If):
            return bool(s.orelse) and self.terminates(s.body) and self.terminates(s.orelse)
        return False

    INPLACE = {"append", "reverse"}

    def assigned(self, stmts) -> List[str]:
        """names (re)bound or updated in place by stmts, in order of first occurrence (loop targets excluded)"""
        out: List[str] = []

        def add(n):
            if n not in out:
                out.append(n)

        def target(n):
            if isinstance(n, ast.Name):
                add(n.id)
            elif isinstance(n, ast.Tuple):
                for x in n.elts:
                    target(x)
            elif isinstance(n, ast.Subscript) and isinstance(n.value, ast.Name):
                add(n.value.id)
            else:
                fail(n, "assignment target")

        for s in stmts:
            if isinstance(s, ast.Assign):
                for t in s.targets:
                    target(t)
            elif isinstance(s, (ast.AugAssign, ast.AnnAssign)):
                target(s.target)
            elif isinstance(s, ast.Expr) and isinstance(s.value, ast.Call) and isinstance(s.value.func, ast.Attribute) \
                    and isinstance(s.value.func.value, ast.Name) and s.value.func.attr in self.INPLACE:
                add(s.value.func.value.id)
            elif isinstance(s, ast.If):
                for n in self.assigned(s.body) + self.assigned(s.orelse):
                    add(n)
            elif isinstance(s, (ast.For, ast.While)):
                tg = {n.id for n in ast.walk(s.target) if isinstance(n, ast.Name)} if isinstance(s, ast.For) else set()
                for n in self.assigned(s.body):
                    if n not in tg:
                        add(n)
            elif isinstance(s, ast.Try):
                for n in self.assigned(s.body) + [x for h in s.handlers for x in self.assigned(h.body)]:
                    add(n)
        return out

    def block(self, stmts, env, ind, ctx) -> str:
        if not stmts:
            return ctx.fall(env, ind)
        s, rest = stmts[0], list(stmts[1:])
        if self.is_dropped(s, env):
            return self.block(rest, env, ind, ctx)
        if isinstance(s, ast.Return):
            if rest:
                fail(s, "statements after return")
            if ctx.ret is None:
                fail(s, "return inside a loop, a try or an if whose branches are joined")
            if s.value is None:
                fail(s, "bare return")
            pre, c, t = self.tx_return_value(s.value, env)
            return self.emit_binds(pre, ctx.ret(c, ind), ind)
        if isinstance(s, ast.Break):
            if rest:
                fail(s, "statements after break")
            if ctx.brk is None:
                fail(s, "break outside a loop body (or inside joined branches / a try)")
            return ctx.brk(env, ind)
        if isinstance(s, ast.Continue):
            if rest:
                fail(s, "statements after continue")
            if ctx.brk is None:
                fail(s, "continue outside a loop body (or inside joined branches / a try)")
            return ctx.fall(env, ind)
        if isinstance(s, ast.Raise):
            if rest:
                fail(s, "statements after raise")
            return self.tr_raise(s, env, ind)
        if isinstance(s, ast.Assert):
            return self.tr_assert(s, rest, env, ind, ctx)
        if isinstance(s, ast.Assign):
            if len(s.targets) != 1:
                fail(s, "multiple assignment targets")
            return self.tr_assign(s, s.targets[0], s.value, rest, env, ind, ctx)
        if isinstance(s, ast.AnnAssign):
            if s.value is None or not s.simple:
                fail(s, "annotation without a value")
            if not re.match(r"^[A-Za-z_\[\], .]+$", ast.unparse(s.annotation)):
                fail(s, "annotation")
            return self.tr_assign(s, s.target, s.value, rest, env, ind, ctx)
        if isinstance(s, ast.Expr):
            return self.tr_expr_stmt(s, rest, env, ind, ctx)
        if isinstance(s, ast.If):
            return self.tr_if(s, rest, env, ind, ctx)
        if isinstance(s, ast.For):
            return self.tr_for(s, rest, env, ind, ctx)
        if isinstance(s, ast.Try):
            return self.tr_try(s, rest, env, ind, ctx)
        fail(s, "statement form")

    def tx_return_value(self, value, env):
        """the returned expression, coerced to the declared return type (componentwise for a literal pair)"""
        want = rt(self.rtype)
        if isinstance(value, ast.Tuple) and is_lit(want, "P") and len(value.elts) == 2:
            (p1, c1, t1), (p2, c2, t2) = self.tx(value.elts[0], env), self.tx(value.elts[1], env)
            c1 = self.coerce(c1, t1, want[1], value, "returned value")
            c2 = self.coerce(c2, t2, want[2], value, "returned value")
            return p1 + p2, f"({c1}, {c2})", want
        pre, c, t = self.tx(value, env)
        return pre, self.coerce(c, t, want, value, "returned value"), want

    # ---- exceptions
    def check_message(self, m, env):
        """an exception / assert message: dropped after checking that it is built from total operations"""
        def operand(x):
            if isinstance(x, ast.Name) and x.id in env and not x.id.startswith("%") and env[x.id] not in ("DEAD", "EXC"):
                if is_lit(env[x.id], "P") or is_lit(env[x.id], "T5"):
                    fail(x, "a tuple as the operand of % in a message (it would be unpacked)")
                return
            if isinstance(x, ast.Attribute) and x.attr == "vars" and isinstance(x.value, ast.Name) \
                    and rt(env.get(x.value.id)) in ("T", "TL"):
                return
            if isinstance(x, ast.Call) and isinstance(x.func, ast.Name) and x.func.id == "type" and "type" not in env \
                    and "type" not in self.w.reserved_user and len(x.args) == 1 and not x.keywords \
                    and isinstance(x.args[0], ast.Name) and x.args[0].id in env:
                return
            fail(x, "operand of a message not known to be total (a local, x.vars or type(x) is expected)")
        if isinstance(m, ast.Constant) and isinstance(m.value, str):
            return
        if isinstance(m, ast.BinOp) and isinstance(m.op, ast.Mod) and isinstance(m.left, ast.Constant) \
                and isinstance(m.left.value, str):
            fmt = m.left.value
            if len(re.findall(r"%", fmt)) != 1 or fmt.count("%s") != 1:
                fail(m, "message format with anything but exactly one %s")
            operand(m.right)
            self.note("exception / assert messages are dropped (checked: a str literal, or a literal with exactly one %s "
                      "applied to a local, x.vars or type(x) — str() of these is taken to be total); the exception TYPE "
                      "is kept")
            return
        fail(m, "message form")

    def tr_raise(self, s, env, ind):
        exc = s.exc
        if s.cause is not None:
            if not (isinstance(s.cause, ast.Name) and env.get(s.cause.id) == "EXC"):
                fail(s, "raise ... from something else than the caught exception")
            self.note("`raise X from e` raises X; the cause chain is not modelled")
        if not (isinstance(exc, ast.Call) and isinstance(exc.func, ast.Name) and not exc.keywords and len(exc.args) <= 1):
            fail(s, "raise form (only `raise ValueError(message)` is supported)")
        name = exc.func.id
        if name != "ValueError" or name in env or name in self.w.reserved_user:
            fail(s, f"raise of the exception class {name} (only ValueError is supported)")
        for a in exc.args:
            self.check_message(a, env)
        self.need_monad("raise")
        return f"{ind}raise ValueErr"

    def tr_assert(self, s, rest, env, ind, ctx):
        if s.msg is not None:
            self.check_message(s.msg, env)
        pre, c, t = self.as_bool(*self.tx(s.test, env), s.test)
        t = rt(t)
        self.note("a failed `assert` is Escape \"AssertionError\" (py_assert; python -O, which removes asserts, is not "
                  "modelled)")
        if isinstance(t, tuple):
            if t[1]:
                return self.block(rest, env, ind, ctx)
            self.need_monad("assert")
            return f"{ind}raise (Escape \"AssertionError\")"
        self.need_monad("assert")
        return self.emit_binds(pre + [("_", f"py_assert {c}")], "", ind) + self.block(rest, env, ind, ctx)

    def except_class(self, h):
        if h.type is None:
            fail(h, "bare except")
        nm, root = self.dotted(h.type)
        if nm is None:
            fail(h, "except clause")
        target = self.w.resolve(nm)
        if target == "ValueError" and "ValueError" not in self.w.reserved_user:
            return "try_except"
        if target in ("scipy.spatial.QhullError", "scipy.spatial.qhull.QhullError", "scipy.spatial._qhull.QhullError"):
            self.note("`except QhullError` catches exactly Escape \"QhullError\" (try_except_escape of base/PyPlots.v); "
                      "QhullError is a RuntimeError, not a ValueError")
            return "try_except_escape \"QhullError\""
        fail(h, f"except clause for {nm} (only ValueError and scipy's QhullError are supported)")

    def tr_try(self, s, rest, env, ind, ctx):
        if s.orelse or s.finalbody or len(s.handlers) != 1 or not s.body:
            fail(s, "try form (one except clause, no else / finally)")
        h = s.handlers[0]
        prim = self.except_class(h)
        self.need_monad("try")
        body, hbody = list(s.body), list(h.body)
        env_h = dict(env)
        if h.name is not None:
            if h.name in env or h.name in self.w.reserved:
                fail(s, f"exception name {h.name} shadows a local or a module-level name")
            env_h[h.name] = "EXC"
            self.note("`except X as e`: e is only usable as the cause of a `raise ... from e`")
        ba, ha = self.assigned(body), self.assigned(hbody)
        bt, ht = self.terminates(body), self.terminates(hbody)
        if bt and ht and rest:
            fail(s, "unreachable code after try")
        names = ba if ht else (ha if bt else [n for n in ba if n in ha])
        for n in ba + ha:
            if n not in names and n in env:
                fail(s, f"{n} is rebound in only one of the try body and its handler")
        # the handler starts from the state BEFORE the try: it must not read what the body may have assigned
        for n in ba:
            for st in hbody:
                stores = isinstance(st, ast.Assign) and any(
                    isinstance(x, ast.Name) and x.id == n for t in st.targets for x in ast.walk(t))
                loads = any(isinstance(x, ast.Name) and x.id == n and isinstance(x.ctx, ast.Load) for x in ast.walk(st))
                if loads:
                    fail(st, f"the handler reads {n}, which the try body may already have assigned")
                if stores:
                    break
        for n in names:
            if n in env.get("%iter", frozenset()):
                fail(s, f"{n} is updated inside a loop that iterates over it")
        cn = [cid(n) for n in names]
        tup, fpat, _ = self.acc_tuple(cn)
        envs = []

        def fall(env2, i2):
            for n in names:
                if n not in env2 or env2[n] in ("DEAD", "EXC"):
                    fail(s, f"{n} is not assigned on every path through the try statement")
            envs.append(env2)
            return f"{i2}ret {tup}"

        jctx = PCtx(fall)
        ind2 = ind + "    "
        b_txt = self.block(body, env, ind2, jctx)
        h_txt = self.block(hbody, env_h, ind2, jctx)
        env3 = dict(env)
        for n in names:
            ty = env[n] if n in env else (envs[0][n] if envs else None)
            for e2 in envs:
                if not same(e2[n], ty):
                    fail(s, f"{n} gets different types in the try body and its handler")
            env3[n] = ty
        own = self.owned(env)
        for e2 in envs:
            own = own & self.owned(e2)
            for k, v in e2.items():
                if v == "DEAD" and k in env3:
                    env3[k] = "DEAD"
        env3["%owned"] = own
        head = f"{ind}{fpat} <- {prim}\n{ind}  (\n{b_txt})\n{ind}  (\n{h_txt}) ;;\n"
        return head + self.block(rest, env3, ind, ctx)

    @staticmethod
    def acc_tuple(cn):
        tup = "tt" if not cn else ("(" + ", ".join(cn) + ")" if len(cn) > 1 else cn[0])
        fpat = "_" if not cn else ("'" + tup if len(cn) > 1 else cn[0])        # binder of a fun / bind
        mpat = "_" if not cn else tup                                          # pattern of a match arm
        return tup, fpat, mpat

    # ---- assignments
    def bind_value(self, name, pre, c, ind):
        if pre and pre[-1][0] == c:
            return self.emit_binds(pre[:-1] + [(name, pre[-1][1])], "", ind)
        return self.emit_binds(pre, f"{ind}let {name} := {c} in\n", ind)

    def is_fresh(self, value, env):
        """does the expression build a NEW list / array that nothing else refers to?"""
        if isinstance(value, ast.List):
            return True
        if isinstance(value, ast.Call):
            f = value.func
            if isinstance(f, ast.Name) and f.id in ("list", "sorted") and f.id not in env:
                return True
            if isinstance(f, ast.Attribute) and f.attr == "copy":
                return True
            nm, root = self.dotted(f)
            if nm is not None and root not in env:
                target = self.w.resolve(nm)
                if target in ("numpy.array", "numpy.concatenate", "numpy.reshape",
                              IMPORTS["PolyhedralTermList"] + ".termlist_to_polytope"):
                    return True
        return False

    def check_not_iterated(self, s, name, env):
        if name in env.get("%iter", frozenset()):
            fail(s, f"{name} is rebound inside a loop that iterates over it")

    def check_target_name(self, s, name):
        if name == "self" or name in self.w.reserved:
            fail(s, f"assignment to {name}, which is a module-level / builtin name the translation gives a meaning to")

    def tr_assign(self, s, tgt, value, rest, env, ind, ctx):
        # `l = l + [e]` on a local list this function owns is, in the value model, what `l.append(e)` is (the new list replaces the
        # only reference to the old one): rendered through that statement
        if isinstance(tgt, ast.Name) and isinstance(value, ast.BinOp) and isinstance(value.op, ast.Add) \
                and isinstance(value.left, ast.Name) and value.left.id == tgt.id and isinstance(value.right, ast.List) \
                and len(value.right.elts) == 1 and not isinstance(value.right.elts[0], ast.Starred) \
                and tgt.id in env and tgt.id in self.owned(env):
            call = ast.Expr(value=ast.Call(func=ast.Attribute(value=ast.Name(id=tgt.id, ctx=ast.Load()), attr="append", ctx=ast.Load()),
                                           args=[value.right.elts[0]], keywords=[]))
            ast.copy_location(call, s)
            ast.fix_missing_locations(call)
            return self.tr_expr_stmt(call, rest, env, ind, ctx)
        if isinstance(tgt, ast.Name):
            self.check_target_name(s, tgt.id)
            self.check_not_iterated(s, tgt.id, env)
            pre, c, t = self.tx(value, env)
            t = rt(t)
            if is_lit(t, "I") or is_lit(t, "K"):
                fail(s, f"a local bound to a value of type {tshow(t)}")
            if tgt.id in env and env[tgt.id] not in ("DEAD",) and not same(env[tgt.id], t):
                fail(s, f"{tgt.id} changes type from {tshow(env[tgt.id])} to {tshow(t)}")
            env2 = dict(env)
            env2[tgt.id] = t
            env2 = self.disown_mentions(env2, value)
            proj = dict(env.get("%proj", {}))
            proj.pop(tgt.id, None)
            fresh = self.is_fresh(value, env)
            # x = tup[i] of a tuple this function built itself: x is owned, and shares data with tup
            if isinstance(value, ast.Subscript) and isinstance(value.value, ast.Name) \
                    and is_lit(env.get(value.value.id), "T5") and value.value.id in self.owned(env):
                fresh = True
                proj[tgt.id] = value.value.id
                env2 = self.with_owned(env2, value.value.id, True)       # still owned: only its components are handed out
            env2["%proj"] = proj
            env2 = self.with_owned(env2, tgt.id, fresh)
            return self.bind_value(cid(tgt.id), pre, c, ind) + self.block(rest, env2, ind, ctx)
        if isinstance(tgt, ast.Tuple) and len(tgt.elts) == 2 and all(isinstance(x, ast.Name) for x in tgt.elts):
            # x, y = zip(*points)
            if isinstance(value, ast.Call) and isinstance(value.func, ast.Name) and value.func.id == "zip" \
                    and "zip" not in env and "zip" not in self.w.reserved_user and not value.keywords \
                    and len(value.args) == 1 and isinstance(value.args[0], ast.Starred):
                p0, c0, t0 = self.tx(value.args[0].value, env)
                if rt(t0) != ("L", PT):
                    fail(s, f"zip(*v) of a value of type {tshow(t0)} (only a sequence of pairs of floats is supported)")
                self.note("`x, y = zip(*points)` for a sequence of pairs / an (n, 2) array is py_unzip2 (the two columns; "
                          "ValueError \"not enough values to unpack\" when the sequence is empty)")
                tmp = self.fresh("v")
                pre, c, t = p0 + [(tmp, f"py_unzip2 {c0}")], tmp, ("P", LF, LF)
            else:
                pre, c, t = self.tx(value, env)
            t = rt(t)
            if not is_lit(t, "P"):
                fail(s, f"unpacking of a value of type {tshow(t)}")
            env2 = dict(env)
            names = []
            for x, ty in zip(tgt.elts, t[1:]):
                self.check_target_name(s, x.id)
                self.check_not_iterated(s, x.id, env)
                if x.id in names:
                    fail(s, "unpacking target")
                if x.id in env and env[x.id] != "DEAD" and not same(env[x.id], ty):
                    fail(s, f"{x.id} changes type")
                names.append(x.id)
                env2[x.id] = ty
            env2 = self.disown_mentions(env2, value)
            for n_ in names:
                env2 = self.with_owned(env2, n_, False)
            pat = "'(" + ", ".join(cid(n_) for n_ in names) + ")"
            if pre and pre[-1][0] == c:
                return self.emit_binds(pre[:-1] + [(pat, pre[-1][1])], "", ind) + self.block(rest, env2, ind, ctx)
            return self.emit_binds(pre, f"{ind}let {pat} := {c} in\n", ind) + self.block(rest, env2, ind, ctx)
        if isinstance(tgt, ast.Subscript) and isinstance(tgt.value, ast.Name):
            # a[:, [j1, j2]] = v   on an array this function owns
            base = tgt.value.id
            if base not in env or rt(env[base]) != "A2":
                fail(s, "subscript assignment on something else than a local 2-D array")
            cols = self.col_index(tgt.slice)
            if cols is None:
                fail(s, "subscript assignment other than a[:, [j1, j2, ...]] = v")
            if base not in self.owned(env):
                fail(s, f"in-place update of `{base}`, which is not known to be a new, unaliased array of this function")
            self.check_not_iterated(s, base, env)
            pre, c, t = self.tx(value, env)         # the right-hand side is evaluated first (fancy indexing copies)
            if rt(t) != "A2":
                fail(s, f"array columns assigned a value of type {tshow(t)}")
            n = cid(base)
            env2 = dict(env)
            shared = env.get("%proj", {}).get(base)
            if shared is not None:
                env2[shared] = "DEAD"               # the tuple the array was taken from now shows the update in Python
            self.note("an in-place column assignment a[:, [..]] = v is a rebinding of the local array (checked: the array "
                      "was built by this function's own call of termlist_to_polytope / np.array, and the tuple it was "
                      "taken from is not used afterwards)")
            return self.emit_binds(pre + [(n, f"np_set_cols {n} {cols} {c}")], "", ind) + self.block(rest, env2, ind, ctx)
        fail(s, "assignment target")

    def tr_expr_stmt(self, s, rest, env, ind, ctx):
        v = s.value
        if not (isinstance(v, ast.Call) and isinstance(v.func, ast.Attribute) and isinstance(v.func.value, ast.Name)
                and v.func.value.id in env and v.func.attr in self.INPLACE):
            fail(s, "expression statement (only l.append(x) / l.reverse() on a local list are supported; a call whose "
                    "result is discarded is not)")
        base, m = v.func.value.id, v.func.attr
        t0 = rt(env[base])
        if not is_list(t0):
            fail(s, f"{m} on a value of type {tshow(t0)}")
        if base not in self.owned(env):
            fail(s, f"in-place {m} on `{base}`, which is not known to be a fresh, unaliased list of this function")
        if v.keywords or any(isinstance(a, ast.Starred) for a in v.args):
            fail(s, f"arguments of {m}")
        self.check_not_iterated(s, base, env)
        n = cid(base)
        self.note("in-place l.append(x) / l.reverse() on a list the function built itself and has not aliased (checked "
                  "syntactically) is a rebinding")
        if m == "reverse":
            if v.args:
                fail(s, "arguments of reverse()")
            return f"{ind}let {n} := (py_reverse {n}) in\n" + self.block(rest, env, ind, ctx)
        if len(v.args) != 1:
            fail(s, "arguments of append(...)")
        pre, c, t = self.tx(v.args[0], env)
        et = rt(t0[1])
        if isinstance(et, TV):
            if is_lit(t, "I") or is_lit(t, "K"):
                fail(s, "appended value")
            same(et, t)
        c = self.coerce(c, t, t0[1], s, "argument of append")
        env2 = self.disown_mentions(env, v.args[0])
        return self.emit_binds(pre, f"{ind}let {n} := (py_append {n} {c}) in\n", ind) + self.block(rest, env2, ind, ctx)

    # ---- if
    def tr_if(self, s, rest, env, ind, ctx):
        pre, c, t = self.as_bool(*self.tx(s.test, env), s.test)
        t = rt(t)
        body, orelse = list(s.body), list(s.orelse)
        tb, te = self.terminates(body), self.terminates(orelse)
        if isinstance(t, tuple):                         # statically decided
            if pre:
                fail(s, "statically decided condition with an operand that may raise")
            taken, term = (body, tb) if t[1] else (orelse, te)
            self.note(f"`if {ast.unparse(s.test)}` is statically {t[1]}: the other branch is dropped"
                      + (" (and what follows the if is unreachable)" if term and rest else ""))
            return self.block(taken + ([] if term else rest), env, ind, ctx)
        ind2 = ind + "  "
        if (tb and te) and rest:
            fail(s, "unreachable code after if")
        if tb or te or not rest:
            then_txt = self.block(body + ([] if tb else rest), env, ind2, ctx)
            else_txt = self.block(orelse + ([] if te else rest), env, ind2, ctx)
            return self.emit_binds(pre, f"{ind}if {c} then\n{then_txt}\n{ind}else\n{else_txt}", ind)
        return self.join([(f"if {c} then", body), ("else", orelse)], pre, s, rest, env, ind, ctx)

    def join(self, arms, pre, s, rest, env, ind, ctx):
        """several branches that fall through, followed by `rest`: join on the variables they assign"""
        allst = [x for _, b in arms for x in b]
        every = self.assigned(allst)
        names = [n for n in every if n in env]
        if set(every) - set(names):
            fail(s, "branches (re)bind a name that is not defined before the if (it would be local to the branch)")
        for n in names:
            if n in env.get("%iter", frozenset()):
                fail(s, f"{n} is updated inside a loop that iterates over it")
        cn = [cid(n) for n in names]
        tup, fpat, _ = self.acc_tuple(cn)
        envs = []

        def thunk():
            del envs[:]

            def fall(env2, i2):
                envs.append(env2)
                return f"{i2}{self.ret(tup)}"

            jctx = PCtx(fall)
            txt = ""
            for head, b in arms:
                txt += f"{ind}   {head}\n" + self.block(b, env, ind + "    ", jctx) + "\n"
            return f"{ind}  (\n{txt.rstrip()})"

        txt, mon = self.sub(thunk)
        env3 = dict(env)
        for n in names:
            for e2 in envs:
                if not same(e2[n], env[n]):
                    fail(s, f"joined variable {n} changes type")
        own = self.owned(env)
        for e2 in envs:
            own = own & self.owned(e2)
            for k, v in e2.items():
                if v == "DEAD" and k in env3:
                    env3[k] = "DEAD"
        env3["%owned"] = own
        head = f"{ind}{fpat} <-\n{txt} ;;\n" if mon else f"{ind}let {fpat} :=\n{txt} in\n"
        return self.emit_binds(pre, head, ind) + self.block(rest, env3, ind, ctx)

    # ---- loops
    def tr_for(self, s, rest, env, ind, ctx):
        if s.orelse:
            fail(s, "for ... else")
        it, tgt = s.iter, s.target
        items = False
        if isinstance(it, ast.Call) and isinstance(it.func, ast.Attribute) and it.func.attr == "items" \
                and not it.args and not it.keywords and isinstance(tgt, ast.Tuple) and len(tgt.elts) == 2 \
                and all(isinstance(x, ast.Name) for x in tgt.elts):
            pi, ci, ti = self.tx(it.func.value, env)
            if rt(ti) != "D":
                fail(it, f".items() of a value of type {tshow(ti)}")
            items, tnames, ttypes = True, [x.id for x in tgt.elts], ["V", "F"]
        else:
            pi, ci, ti = self.tx(it, env)
            ti = rt(ti)
            if is_list(ti):
                ety = ti[1]
            elif ti == "D":
                ci, ety = f"(dict_keys {ci})", "V"
            elif ti == "A1":
                ety = "F"
            else:
                fail(it, f"iteration over a value of type {tshow(ti)}")
            if isinstance(rt(ety), TV):
                fail(it, "loop over a list whose element type is not determined")
            if isinstance(tgt, ast.Name):
                tnames, ttypes = [tgt.id], [ety]
            elif isinstance(tgt, ast.Tuple) and len(tgt.elts) == 2 and all(isinstance(x, ast.Name) for x in tgt.elts) \
                    and is_lit(ety, "P"):
                tnames, ttypes = [x.id for x in tgt.elts], [rt(ety)[1], rt(ety)[2]]
            else:
                fail(tgt, f"loop target for elements of type {tshow(ety)}")
        env2 = dict(env)
        for n, ty in zip(tnames, ttypes):
            if n in env or tnames.count(n) > 1 or n in self.w.reserved:
                fail(tgt, f"loop variable {n} shadows a local or a module-level name (it would stay bound after the loop)")
            env2[n] = ty
        if items:
            pat = " ".join(cid(n) for n in tnames)
        else:
            pat = cid(tnames[0]) if len(tnames) == 1 else "'(" + ", ".join(cid(n) for n in tnames) + ")"
        body = list(s.body)
        body_assigned = self.assigned(body)
        iter_names = {n.id for n in ast.walk(it) if isinstance(n, ast.Name) and n.id in env}
        if iter_names & set(body_assigned):
            fail(s, "loop body rebinds or updates a name the loop iterates over")
        if any(isinstance(n, ast.Return) for st in body for n in ast.walk(st)):
            fail(s, "return inside a loop")
        if set(body_assigned) & set(tnames):
            self.note("a loop variable that the body rebinds is local to the iteration (the iteration itself is not "
                      "affected; the name is not visible after the loop)")
        accs = [n for n in body_assigned if n in env]
        tup, fpat, _ = self.acc_tuple([cid(n) for n in accs])
        env2["%iter"] = frozenset(env.get("%iter", frozenset()) | iter_names)
        envs = []

        def thunk():
            del envs[:]

            def fall(e3, i3):
                envs.append(e3)
                return f"{i3}{self.ret(f'(Continue {tup})')}"

            def brk(e3, i3):
                envs.append(e3)
                return f"{i3}{self.ret(f'(Break {tup})')}"

            return self.block(body, env2, ind + "    ", PCtx(fall, brk, None))

        txt, mon = self.sub(thunk)
        for n in accs:
            for e3 in envs:
                if e3.get(n) == "DEAD" or not same(e3[n], env[n]):
                    fail(s, f"loop variable {n} changes type")
        env3 = dict(env)
        own = self.owned(env)
        for e3 in envs:
            own = own & self.owned(e3)
            for k, v in e3.items():
                if v == "DEAD" and k in env3:
                    fail(s, "in-place update inside a loop of an array that shares data with another local")
        env3["%owned"] = own
        if not accs and not mon:
            fail(s, "loop without any effect")
        fn = ("for_items" if items else "for_list") + ("_m" if mon else "")
        call = f"{fn} {ci} {tup} (fun {fpat} {pat} =>\n{txt})"
        head = f"{ind}{fpat} <- {call} ;;\n" if mon else f"{ind}let {fpat} := {call} in\n"
        return self.emit_binds(pi, head, ind) + self.block(rest, env3, ind, ctx)

    # ------------------------------------------------------------ whole function
    def translate(self, params) -> Tuple[str, bool]:
        env = {n: t for n, t in params}
        env["%owned"] = frozenset()
        env["%iter"] = frozenset()
        env["%proj"] = {}
        stmts = list(self.f.body)

        def end(env_, ind_):
            fail(self.f, "function falls off the end (returns None)")

        def run():
            self.tmp = 0
            return self.block(stmts, env, "  ", PCtx(end, None, lambda c, ind_: f"{ind_}{self.ret(c)}"))

        saved = list(self.assumptions)
        self.monadic = False
        try:
            return run(), False
        except NeedMonad:
            self.assumptions[:] = saved
            self.monadic = True
            return run(), True


# ---------------------------------------------------------------- the module
ANNOT = {"PolyhedralTermList": "TL", "Dict[Var, numeric]": "D", "Var": "V", "Tuple[numeric, numeric]": PT, "bool": "B",
         "PolyhedralTerm": "T"}
RANNOT = {"PolyhedralTermList": "TL", "Tuple[tuple, tuple]": ("P", LF, LF), "Tuple[Tuple, Tuple]": ("P", LF, LF)}


class PlWorld:
    def __init__(self):
        self.imports: Dict[str, str] = {}
        self.fdefs: Dict[str, ast.FunctionDef] = {}
        self.callees: Dict[str, Callee] = {}
        self.in_progress: List[str] = []
        self.term_methods: Dict[str, Callee] = {}
        self.term_props: Dict[str, tuple] = {}
        self.tl_props: Dict[str, tuple] = {}
        self.term_eq = ("PolyhedralTerm_eq", True)
        self.term_init: Optional[Callee] = None
        self.tl_init = ("PolyhedralTermList_init", False)
        self.tl_or = ("PolyhedralTermList_or", True)
        self.lists_fns: set = set()
        self.reserved: set = set()
        self.reserved_user: set = set()
        self.translate_helper = None

    def resolve(self, name: str) -> str:
        parts = name.split(".")
        head = parts[0]
        if head in self.imports:
            return ".".join([self.imports[head]] + parts[1:])
        if len(parts) == 1 and head in self.fdefs:
            return f"{MOD}.{head}"
        return name

    def callee(self, target, node):
        if target in self.callees:
            return self.callees[target]
        if target.startswith(MOD + ".") and target[len(MOD) + 1:] in LISTED and self.translate_helper:
            return self.translate_helper(target[len(MOD) + 1:], node)
        return None


def signature(f, where):
    a = f.args
    if a.vararg or a.kwarg or a.kwonlyargs or a.posonlyargs or a.kw_defaults:
        raise Unsupported(f"{where}: signature of {f.name}")
    if f.decorator_list:
        raise Unsupported(f"{where}: decorators of {f.name}")
    args = list(a.args)
    ndef = len(a.defaults)
    out, defaults = [], {}
    for i, arg in enumerate(args):
        ann = ast.unparse(arg.annotation) if arg.annotation is not None else None
        if ann == "np.ndarray":
            if (f.name, arg.arg) not in NDARRAY:
                fail(arg, f"{where}: np.ndarray parameter {arg.arg} of {f.name}: its rank is not known to the translator")
            ty = NDARRAY[(f.name, arg.arg)]
        elif ann in ANNOT:
            ty = ANNOT[ann]
        else:
            fail(arg, f"{where}: annotation {ann} of parameter {arg.arg} of {f.name}")
        out.append((arg.arg, ty))
        j = i - (len(args) - ndef)
        if j >= 0:
            d = a.defaults[j]
            if not (ty == "B" and isinstance(d, ast.Constant) and isinstance(d.value, bool)):
                fail(arg, f"{where}: default value of parameter {arg.arg} of {f.name} (only a bool literal is supported)")
            defaults[arg.arg] = "true" if d.value else "false"
    rann = ast.unparse(f.returns) if f.returns is not None else None
    if rann == "np.ndarray":
        if (f.name, "return") not in NDARRAY:
            fail(f, f"{where}: np.ndarray result of {f.name}: its rank is not known to the translator")
        rty = NDARRAY[(f.name, "return")]
    elif rann in RANNOT:
        rty = RANNOT[rann]
    else:
        fail(f, f"{where}: return annotation {rann} of {f.name}")
    return out, rty, defaults


def read_sigs(text, prefix):
    sigs = {}
    for mm in re.finditer(r"^Definition (" + prefix + r"\w+) ([^\n]*?) ?: ([^:\n]*?) :=$", text, re.M):
        ps = re.findall(r"\((\w+) : ([^()]+|\([^()]*\)|[^()]*\([^()]*\)[^()]*)\)", mm.group(2))
        sigs[mm.group(1)] = ([t.strip() for _, t in ps], [n for n, _ in ps], mm.group(3).strip())
    return sigs


def sig_monadic(sigs, coq, want_params, want_ret):
    """None: absent / unexpected; False: pure; True: monadic"""
    if coq not in sigs:
        return None
    ps, _, r = sigs[coq]
    if ps != want_params:
        return None
    if r in (want_ret, f"({want_ret})"):
        return False
    if r in (f"M {want_ret}", f"M ({want_ret})"):
        return True
    return None


def gen_plots(repo) -> Tuple[str, List[str]]:
    src = f"{repo}/src/pacti"
    paths = {"plots": f"{src}/utils/plots.py", "polyhedra": f"{src}/terms/polyhedra/polyhedra.py",
             "iocontract": f"{src}/iocontract/iocontract.py", "lists": f"{src}/utils/lists.py"}
    text = {k: open(p).read() for k, p in paths.items()}
    mod = ast.parse(text["plots"])
    assumptions: List[str] = []
    GEN_NAMES.clear()
    w = PlWorld()
    segs: List[str] = []
    defs: List[str] = []
    covered: List[str] = []

    # ---------------- Var: a variable is its name
    vcls = class_def(ast.parse(text["iocontract"]), "Var")
    vm = {n.name: n for n in vcls.body if isinstance(n, ast.FunctionDef)}
    for m, want in (("__init__", "self._name = str(varname)"), ("name", "return self._name"), ("__str__", "return self.name")):
        if m not in vm:
            raise Unsupported(f"Var.{m} missing")
        body = strip_doc(vm[m]).body
        if len(body) != 1 or ast.unparse(body[0]) != want:
            raise Unsupported(f"Var.{m} is expected to be `{want}`")
    assumptions.append("plots: a Var is its name (var = string; checked: Var.__init__ stores str(varname)); `==` / `in` on "
                       "Vars compare names")

    # ---------------- the translated methods of PolyhedralTerm (gen/TermGen.v) and PolyhedralTermList (gen/TermListGen.v)
    term_txt, _ = P.gen_term(paths["polyhedra"])        # raises Unsupported when TermGen.v itself is poisoned
    ts = read_sigs(term_txt, "PolyhedralTerm_")
    mon = sig_monadic(ts, "PolyhedralTerm_init", ["pvars", "Q"], "pterm")
    if mon is not None:
        w.term_init = Callee("PolyhedralTerm_init", [("variables", "D"), ("constant", "F")], "T", mon)
    mon = sig_monadic(ts, "PolyhedralTerm_copy", ["pterm"], "pterm")
    if mon is not None:
        w.term_methods["copy"] = Callee("PolyhedralTerm_copy", [], "T", mon)
    mon = sig_monadic(ts, "PolyhedralTerm_substitute_variable", ["pterm", "var", "pterm"], "pterm")
    if mon is not None:
        w.term_methods["substitute_variable"] = Callee("PolyhedralTerm_substitute_variable",
                                                       [("var", "V"), ("subst_with_term", "T")], "T", mon)
    mon = sig_monadic(ts, "PolyhedralTerm_vars", ["pterm"], "list var")
    if mon is not None:
        w.term_props["vars"] = ("PolyhedralTerm_vars", mon, ("L", "V"))
    mon = sig_monadic(ts, "PolyhedralTerm_eq", ["pterm", "pterm"], "bool")
    if mon is None:
        raise Unsupported("gen/TermGen.v: PolyhedralTerm_eq has an unexpected signature")
    w.term_eq = ("PolyhedralTerm_eq", mon)
    # the parameter names of the methods are read from the source (for keyword arguments)
    ptc = class_def(ast.parse(text["polyhedra"]), "PolyhedralTerm")
    for n in ptc.body:
        if isinstance(n, ast.FunctionDef):
            c = w.term_init if n.name == "__init__" else w.term_methods.get(n.name)
            if c is not None:
                names = [a.arg for a in n.args.args[1:]]
                if len(names) != len(c.params):
                    raise Unsupported(f"PolyhedralTerm.{n.name}: unexpected parameter list")
                c.params = [(nm, t) for nm, (_, t) in zip(names, c.params)]
    import py2coq_termlist
    tl_txt, _ = py2coq_termlist.gen_termlist(repo)      # raises Unsupported when TermListGen.v itself is poisoned
    tls = read_sigs(tl_txt, "PolyhedralTermList_")
    mon = sig_monadic(tls, "PolyhedralTermList_init", ["option (list pterm)"], "list pterm")
    if mon is None:
        raise Unsupported("gen/TermListGen.v: PolyhedralTermList_init has an unexpected signature")
    w.tl_init = ("PolyhedralTermList_init", mon)
    mon = sig_monadic(tls, "PolyhedralTermList_or", ["list pterm", "list pterm"], "list pterm")
    if mon is None:
        raise Unsupported("gen/TermListGen.v: PolyhedralTermList_or (TermList.__or__) has an unexpected signature")
    w.tl_or = ("PolyhedralTermList_or", mon)
    mon = sig_monadic(tls, "PolyhedralTermList_vars", ["list pterm"], "list var")
    if mon is not None:
        w.tl_props["vars"] = ("PolyhedralTermList_vars", mon, ("L", "V"))
    assumptions.append("plots: a PolyhedralTermList object is the list in its field `terms`; PolyhedralTermList(l), tl.vars "
                       "and a | b are the translated PolyhedralTermList_init / _vars / _or of gen/TermListGen.v, "
                       "PolyhedralTerm(..), t.copy(), t.substitute_variable(..), t.vars those of gen/TermGen.v (their "
                       "signatures are read from the output of these generators)")
    lists_txt = P.gen_lists(paths["lists"])
    w.lists_fns = set(re.findall(r"^Definition (list_\w+) ", lists_txt, re.M))

    # ---------------- plots.py
    w.imports = n_imports(mod)
    for alias, want in IMPORTS.items():
        got = w.imports.get(alias)
        ok = got == want or (alias == "QhullError" and got in ("scipy.spatial.qhull.QhullError", "scipy.spatial._qhull.QhullError"))
        if alias in w.imports and not ok:
            raise Unsupported(f"plots.py: module-level name {alias} is {got}, expected {want}")
    if "logging" in w.imports and w.imports["logging"] != "logging":
        raise Unsupported("plots.py: module-level name logging")
    for b in BUILTINS:
        if b in w.imports:
            raise Unsupported(f"plots.py: the builtin {b} is shadowed by an import")
    w.fdefs = {}
    for n in mod.body:
        if isinstance(n, ast.FunctionDef):
            if n.name in w.fdefs:
                raise Unsupported(f"plots.py: function {n.name} defined twice")
            w.fdefs[n.name] = n
        elif isinstance(n, ast.ClassDef):
            raise Unsupported(f"plots.py: class {n.name} defined at module level")
    for name in LISTED:
        if name not in w.fdefs:
            raise Unsupported(f"plots.py: listed function {name} is missing")
    n_no_redefinition(mod, BUILTINS + [a for a in list(IMPORTS) + ["logging"] if a in w.imports], [])
    for n in ast.walk(mod):
        if isinstance(n, (ast.Global, ast.Nonlocal)):
            fail(n, "plots.py: global / nonlocal statement")
    num = [n for n in mod.body if isinstance(n, ast.Assign) and len(n.targets) == 1
           and isinstance(n.targets[0], ast.Name) and n.targets[0].id == "numeric"]
    if len(num) != 1 or ast.unparse(num[0].value) != "Union[int, float]":
        raise Unsupported("plots.py: `numeric = Union[int, float]` is expected at module level")
    assumptions.append("plots: `numeric` (int or float) is the exact rational it denotes; NaN, inf, signed zeros and "
                       "rounding are not modelled; a numpy float array is a list (of lists) of exact rationals")
    w.reserved = set(BUILTINS) | set(w.imports) | set(w.fdefs) | {"numeric", "logging"}

    def translate_fn(pyname, node=None):
        target = f"{MOD}.{pyname}"
        if target in w.callees:
            return w.callees[target]
        if pyname in w.in_progress:
            fail(node if node is not None else w.fdefs[pyname], f"plots.py: {pyname} is recursive")
        w.in_progress.append(pyname)
        f = w.fdefs[pyname]
        segs.append(ast.get_source_segment(text["plots"], f) or "")
        pysig = next(l for l in ast.unparse(f).split("\n") if l.startswith("def "))
        strip_doc(f)
        for n in ast.walk(f):
            if isinstance(n, ast.arg) and n.arg in w.reserved:
                fail(n, f"plots.py: parameter named {n.arg} in {f.name}")
        params, rtype, defaults = signature(f, "plots.py")
        for (pn, pty) in params:
            if (f.name, pn) in NDARRAY:
                assumptions.append(f"plots.{f.name}: the np.ndarray parameter {pn} is a {pty[1]}-D float array (the "
                                   "annotation does not give the rank)")
        coq = "plots_" + pyname
        GEN_NAMES.add(coq)
        fn = PlFn(w, f, f"plots.{pyname}", rtype, assumptions)
        body, mon_ = fn.translate(params)
        sig = " ".join(f"({cid(n_)} : {coqty(t)})" for n_, t in params)
        r = coqty(rtype)
        defs.append(f"(* {comment_safe(pysig)} *)\nDefinition {coq} {sig} : {'M (' + r + ')' if mon_ else r} :=\n{body}.\n\n")
        covered.append(f"plots.{pyname}")
        c = Callee(coq, params, rtype, mon_, defaults)
        w.callees[target] = c
        w.in_progress.pop()
        return c

    w.translate_helper = translate_fn
    for name in LISTED:
        translate_fn(name)
    skipped = sorted(n for n in w.fdefs if n not in LISTED)
    assumptions.append("plots: functions of plots.py that are NOT translated (the matplotlib side and the argument "
                       "conversions of the plot_* entry points): " + ", ".join(skipped))

    # ---------------- the file
    assumptions = sorted(set(assumptions))
    sha = hashlib.sha256("\n".join(segs).encode()).hexdigest()
    header = (
        "(* GENERATED by /verif/translator/py2coq_plots.py (run by py2coq.py) — do not edit.\n"
        "   from src/pacti/utils/plots.py:\n"
        "   " + ", ".join(covered) + "\n"
        f"   sha256 of the translated function sources: {sha}\n"
        "   vocabulary: base/PyPlots.v (numpy arrays as lists of rows, np.concatenate / reshape / column indexing,\n"
        "   assert, except QhullError, and the NOT translated primitives termlist_to_polytope / np.linalg.norm / linprog /\n"
        "   HalfspaceIntersection / the atan2-keyed sort as the class PlotPrims) on top of base/PyDict.v, PyLoop.v,\n"
        "   PyTermList.v, PyPrint.v; the PolyhedralTerm / PolyhedralTermList methods are those of gen/TermGen.v and\n"
        "   gen/TermListGen.v, list_diff / list_union those of gen/ListsGen.v.\n"
        "   Monadic (M _) exactly where the body contains an operation that may raise.  logging and docstrings are ignored.\n"
        "   Assumptions (each is also printed by the translator as an `assumption:` line):\n"
        + "".join(f"   - {comment_safe(a)}\n" for a in assumptions) +
        "*)\n"
        "From Coq Require Import List String Bool QArith Arith.\nImport ListNotations.\n"
        "Require Import Py Sem PyDict PyLoop PySyntax PyTermList PyPrint PyPlots ListsGen TermGen TermListGen.\n"
        "Open Scope py_scope.\nLocal Open Scope string_scope.\n\n"
        "Section PlotsGen.\n"
        "(* termlist_to_polytope, np.linalg.norm, linprog, HalfspaceIntersection, sorted(.., key=atan2): not translated\n"
        "   (base/PyPlots.v) *)\n"
        "Context {PP : PlotPrims}.\n\n")
    return header + "".join(defs) + "End PlotsGen.\n", assumptions


if __name__ == "__main__":
    txt, ass = gen_plots(sys.argv[1])
    sys.stdout.write(txt)
    for a in ass:
        sys.stderr.write("assumption: " + a + "\n")
