#!/usr/bin/env python3
"""T1, fourth generator: the JSON / dictionary side of pacti -> coq/gen/JsonGen.v.

Translated (fail closed on anything outside the subset, on a missing listed function, deterministic output):
  src/pacti/terms/polyhedra/serializer.py        _is_number, _check_clause, validate_contract_dict
  src/pacti/terms/polyhedra/polyhedra.py         PolyhedralTerm.__init__ re-translated over DYNAMICALLY typed values
                                                 (what from_dict hands it), PolyhedralTermList.__init__ shape-checked
  src/pacti/contracts/polyhedral_iocontract.py   PolyhedralIoContract.to_machine_dict, to_dict, from_dict
                                                 (+ the signatures of the two from_strings, for f(**d))
  src/pacti/utils/fileio.py                      read_contracts_from_file, write_contracts_to_file minus the file I/O
Target vocabulary: coq/base/PyJson.v (one named primitive per construct applied to a value of unknown type) on top
of base/PyDict.v / base/PyLoop.v and the [json] inductive of model/Json.v.  proofs/JsonGen{Validate,Dict,File}.v prove
each generated function EQUAL to the hand model of model/Json.v.

Typing: every expression gets a static type; "J" is a value whose Python type is only known at run time (a [json]).
Operations on a J go through the raising primitives of PyJson.v; statically known values (a str literal, the result
of float(...), a list built by a comprehension, ...) are boxed (jstr/jfloat/jlist/jdict ...) where a J is expected.
Whether a function is monadic is INFERRED from its body (as in the PolyhedralTerm generator).
"""
from __future__ import annotations

import ast
import hashlib
import re
import sys
from typing import Dict, List, Optional, Tuple

# py2coq.py is always run as a script: its classes live in __main__, not in a module called py2coq
_main = sys.modules.get("__main__")
if _main is not None and str(getattr(_main, "__file__", "")).endswith("py2coq.py") and hasattr(_main, "Unsupported"):
    P = _main
else:                                                  # imported from somewhere else (tests)
    import py2coq as P                                 # type: ignore

Unsupported, fail, strip_doc, class_def = P.Unsupported, P.fail, P.strip_doc, P.class_def
n_imports, n_no_redefinition, NeedMonad, Ctx, COQ_KEYWORDS = P.n_imports, P.n_no_redefinition, P.NeedMonad, P.Ctx, P.COQ_KEYWORDS

ERRKIND = {"ContractFormatError": "FormatErr", "ValueError": "ValueErr", "IncompatibleArgsError": "IncompatibleArgs"}
PYCLASS = {"dict": "CDict", "list": "CList", "str": "CStr", "int": "CInt", "float": "CFloat", "bool": "CBool"}
BUILTINS = ["isinstance", "print", "enumerate", "zip", "float", "str", "bool", "int", "list", "dict", "all", "len",
            "open", "ValueError", "Var"]

# identifiers the generated text uses: a Python local with one of these names gets a trailing underscore
J_VOCAB = {
    "json", "JNull", "JBool", "JNum", "JStr", "JList", "JObj", "jget", "jhas", "jkeys", "pyclass", "CDict", "CList",
    "CStr", "CInt", "CFloat", "CBool", "instance_of", "py_isinstance", "jstr", "jfloat", "jbool", "jlist", "jdict",
    "jstrs", "json_eq_str", "str_infix", "json_contains", "json_getitem", "json_items", "json_values", "json_keys",
    "json_iter", "json_float", "json_truth", "json_ne_zero", "json_var", "py_zip", "sdict_set", "sdict_comp",
    "list_comp_m", "list_getitem", "py_assert", "call_kwargs", "kwarg", "kwarg_default", "any_contract", "APoly",
    "ACompound", "AOther", "loaded", "LMachine", "LStrings", "LCompound", "pcontract", "pa", "pg", "pin", "pout",
    "pterm", "pvars", "mkT", "tvars", "tconst", "var", "Var", "var_name", "enumerate", "len", "py_in", "py_all",
    "py_any", "all_m", "any_m", "for_list", "for_list_m", "Continue", "Break", "ctl", "ret", "raise", "bind", "M",
    "Q", "bool", "list", "map", "filter", "fst", "snd", "negb", "true", "false", "tt", "unit", "nat", "string",
    "FormatErr", "ValueErr", "IncompatibleArgs", "Escape", "s2f", "pstr", "contract_init", "to_str_list", "K",
    "PolyhedralIoContract_from_strings", "PolyhedralIoContractCompound_from_strings",
    "PolyhedralIoContractCompound_to_dict", "py_float", "mapM", "forM", "term", "app", "nil", "cons", "pair", "inl",
    "inr", "option", "Some", "None", "String", "eqb", "Nat", "combine", "nth_error", "fold_left", "prefix",
}


def cid(name: str) -> str:
    """Coq identifier for a Python local"""
    if re.match(r"^[a-z]+_\d+$", name) or name.startswith("self_"):
        raise Unsupported(f"local name {name} collides with generated names")
    if not re.match(r"^[A-Za-z_][A-Za-z0-9_]*$", name) or name == "_":
        raise Unsupported(f"local name {name!r}")
    if name in COQ_KEYWORDS or name in J_VOCAB or name in GEN_NAMES:
        return name + "_"
    return name


GEN_NAMES: set = set()          # names of the generated definitions (filled by gen_json)


def coq_str(s: str) -> str:
    if not isinstance(s, str) or any(ord(ch) < 32 or ord(ch) > 126 for ch in s):
        raise Unsupported(f"string constant {s!r} (only printable ASCII is supported)")
    return '"' + s.replace('"', '""') + '"'


def comment_safe(s: str) -> str:
    return s.replace("(*", "( *").replace("*)", "* )")


# ---------------------------------------------------------------- types
# atoms: J json (dynamic) | S str | B bool | F float (Q) | N int >= 0 (nat) | U None | V Var | T PolyhedralTerm
#        TL PolyhedralTermList | C PolyhedralIoContract | K PolyhedralIoContractCompound | ANY loaded (an element of
#        List[Any] in read_contracts_from_file) | AC an IoContract of unknown class (write_contracts_to_file)
# compound: ("L", t) list | ("D", k, v) dict with keys k in {S, V} | ("P", a, b) 2-tuple
class TV:
    """element type of an un-annotated `[]`, fixed by the first append"""

    def __init__(self):
        self.ref = None


def rt(t):
    while isinstance(t, TV) and t.ref is not None:
        t = t.ref
    if isinstance(t, tuple):
        return tuple([t[0]] + [rt(x) for x in t[1:]])
    return t


def tshow(t) -> str:
    t = rt(t)
    if isinstance(t, TV):
        return "?"
    if isinstance(t, tuple):
        return f"{t[0]}[{', '.join(tshow(x) for x in t[1:])}]"
    return t


ATOM_COQ = {"J": "json", "S": "string", "B": "bool", "F": "Q", "N": "nat", "U": "unit", "V": "var", "T": "pterm",
            "TL": "list pterm", "C": "pcontract", "K": "K", "ANY": "loaded", "AC": "any_contract K"}


def coqty(t) -> str:
    t = rt(t)
    if isinstance(t, TV):
        raise Unsupported("the element type of a list literal `[]` is never determined")
    if isinstance(t, tuple):
        if t[0] == "L":
            return f"list ({coqty(t[1])})"
        if t[0] == "D":
            return f"list (string * {coqty(t[2])})"
        if t[0] == "P":
            return f"({coqty(t[1])} * {coqty(t[2])})"
    return ATOM_COQ[t]


def same(t1, t2) -> bool:
    """unify (binds type variables)"""
    t1, t2 = rt(t1), rt(t2)
    if isinstance(t1, TV):
        if t1 is not t2:
            t1.ref = t2
        return True
    if isinstance(t2, TV):
        t2.ref = t1
        return True
    if isinstance(t1, tuple) and isinstance(t2, tuple):
        return t1[0] == t2[0] and len(t1) == len(t2) and all(same(a, b) for a, b in zip(t1[1:], t2[1:]))
    if {t1, t2} == {"TL", ("L", "T")} or (t1 == "TL" and t2 == ("L", "T")) or (t2 == "TL" and t1 == ("L", "T")):
        return True
    return t1 == t2


class Callee:
    """a function the translated code may call"""

    def __init__(self, coq, params, rtype, monadic, msg_params=(), prefix_args=()):
        self.coq = coq                  # Coq name
        self.params = params            # [(name, type, default ast or None)] without message-only parameters
        self.rtype = rtype
        self.monadic = monadic
        self.msg_params = list(msg_params)   # names of message-only parameters (dropped), with their positions
        self.all_names: List[str] = []       # every parameter name in source order (for positional arguments)


# ---------------------------------------------------------------- one function
class JFn:
    """Translate one function / method body."""

    def __init__(self, world: "JWorld", fdef: ast.FunctionDef, label: str, rtype, assumptions: List[str],
                 msg_params=()):
        self.w = world
        self.f = fdef
        self.label = label                  # name used in assumption lines
        self.rtype = rtype
        self.assumptions = assumptions
        self.msg_params = set(msg_params)   # parameters that may only occur in messages
        self.monadic = False
        self.tmp = 0
        self.fields: Dict[str, str] = {}
        self.once: set = set()              # names bound to a one-shot iterator (zip object)

    # ------------------------------------------------------------ helpers
    def fresh(self, base="t"):
        self.tmp += 1
        return f"{base}_{self.tmp}"

    def ret(self, c):
        return f"ret {c}" if self.monadic else c

    def need_monad(self, what):
        if not self.monadic:
            raise NeedMonad(what)

    def emit_binds(self, pre, body, ind):
        out = ""
        for pat, m in pre:
            self.need_monad(m)
            out += f"{ind}{pat} <- {m} ;;\n"
        return out + body

    def inline_m(self, pre, c):
        self.need_monad(c)
        if pre and pre[-1][0] == c:
            return "".join(f"{n} <- {m} ;; " for n, m in pre[:-1]) + pre[-1][1]
        return "".join(f"{n} <- {m} ;; " for n, m in pre) + f"ret {c}"

    def sub(self, thunk):
        """translate a sub-block: pure if possible, otherwise monadic.  Returns (text, was_monadic)."""
        if not self.monadic:
            return thunk(), False
        saved_tmp, saved_ass = self.tmp, list(self.assumptions)
        self.monadic = False
        try:
            return thunk(), False
        except NeedMonad:
            self.tmp = saved_tmp
            self.assumptions[:] = saved_ass
            self.monadic = True
            return thunk(), True
        finally:
            self.monadic = True

    @staticmethod
    def owned(env):
        return env.get("%owned", frozenset())

    @staticmethod
    def with_owned(env, name, flag):
        env2 = dict(env)
        o = set(env.get("%owned", frozenset()))
        (o.add if flag else o.discard)(name)
        env2["%owned"] = frozenset(o)
        return env2

    def disown_mentions(self, env, node, keep=()):
        """names of owned objects that occur bare in `node` may now be aliased: they lose ownership"""
        o = set(self.owned(env))
        for n in ast.walk(node):
            if isinstance(n, ast.Name) and n.id in o and n.id not in keep:
                o.discard(n.id)
        env2 = dict(env)
        env2["%owned"] = frozenset(o)
        return env2

    # ------------------------------------------------------------ boxing
    def box(self, c, t, node):
        """Coq expression of type json for the value c of static type t"""
        t = rt(t)
        if t == "J":
            return c
        if t in {"S", "F", "B"}:
            return f"({ {'S': 'jstr', 'F': 'jfloat', 'B': 'jbool'}[t]} {c})"
        if isinstance(t, tuple) and t[0] == "L":
            e = rt(t[1])
            if e == "J":
                return f"(jlist {c})"
            if e == "S":
                return f"(jstrs {c})"
            x = self.fresh("x")
            return f"(jlist (map (fun {x} => {self.box(x, e, node)}) {c}))"
        if isinstance(t, tuple) and t[0] == "D" and rt(t[1]) == "S" and rt(t[2]) == "J":
            return f"(jdict {c})"
        fail(node, f"a value of static type {tshow(t)} used where a dynamically typed value is expected")

    def coerce(self, c, t, want, node, what):
        t, want = rt(t), rt(want)
        if want == "J" and t != "J":
            return self.box(c, t, node)
        if want == "ANY" and t == "C":
            return f"(LMachine {c})"
        if same(t, want):
            return c
        fail(node, f"{what}: expected {tshow(want)}, got {tshow(t)}")

    # ------------------------------------------------------------ messages
    def check_message(self, node, env):
        """an exception message / print argument: built from total operations over bound names, then dropped"""
        for n in ast.walk(node):
            if isinstance(n, ast.Name):
                if n.id not in env and n.id not in self.msg_params:
                    fail(n, f"name {n.id} in a message is not bound here")
            elif isinstance(n, (ast.Constant, ast.JoinedStr, ast.FormattedValue, ast.Load)):
                if isinstance(n, ast.FormattedValue) and n.format_spec is not None:
                    fail(n, "format specification in a message (may raise)")
                continue
            else:
                fail(n, "construct in a message not known to be total")

    # ------------------------------------------------------------ expressions: (prebinds, coq, type)
    def tx(self, e, env):
        if isinstance(e, ast.Name):
            if e.id.startswith("%") or e.id not in env:
                fail(e, f"unbound name {e.id}" + (" (a message-only parameter used outside a message)"
                                                  if e.id in self.msg_params else ""))
            if e.id in self.once:
                fail(e, f"{e.id} is a one-shot iterator (zip object); it may only be iterated once, by a for loop")
            return [], cid(e.id), env[e.id]
        if isinstance(e, ast.Constant):
            if e.value is True:
                return [], "true", "B"
            if e.value is False:
                return [], "false", "B"
            if isinstance(e.value, str):
                return [], coq_str(e.value), "S"
            fail(e, "constant")
        if isinstance(e, (ast.List, ast.Tuple)) and isinstance(e.ctx, ast.Load):
            if not e.elts:
                if isinstance(e, ast.Tuple):
                    fail(e, "empty tuple")
                return [], "[]", ("L", TV())
            parts = [self.tx(x, env) for x in e.elts]
            pre = [b for p, _, _ in parts for b in p]
            if isinstance(e, ast.Tuple) and not all(isinstance(x, ast.Constant) for x in e.elts):
                if len(parts) != 2:
                    fail(e, "tuple of length other than 2")
                return pre, f"({parts[0][1]}, {parts[1][1]})", ("P", parts[0][2], parts[1][2])
            t0 = parts[0][2]
            for _, _, t in parts[1:]:
                if not same(t0, t):
                    fail(e, "list literal with elements of different static types")
            return pre, "[" + "; ".join(c for _, c, _ in parts) + "]", ("L", t0)
        if isinstance(e, ast.Dict):
            if not e.keys:
                return [], "[]", ("D", TV(), TV())
            pre, items, seen = [], [], set()
            for k, v in zip(e.keys, e.values):
                if not (isinstance(k, ast.Constant) and isinstance(k.value, str)):
                    fail(e, "dict literal whose keys are not str constants")
                if k.value in seen:
                    fail(e, "dict literal with a repeated key")
                seen.add(k.value)
                pv, cv, tv = self.tx(v, env)
                pre += pv
                items.append(f"({coq_str(k.value)}, {self.box(cv, tv, v)})")
            return pre, "[" + "; ".join(items) + "]", ("D", "S", "J")
        if isinstance(e, ast.Attribute):
            return self.tx_attr(e, env)
        if isinstance(e, ast.Subscript):
            if not isinstance(e.ctx, ast.Load):
                fail(e, "subscript context")
            (p1, c1, t1), (p2, c2, t2) = self.tx(e.value, env), self.tx(e.slice, env)
            t1, t2 = rt(t1), rt(t2)
            tmp = self.fresh()
            if t1 == "J" and t2 == "S":
                return p1 + p2 + [(tmp, f"json_getitem {c1} {c2}")], tmp, "J"
            if isinstance(t1, tuple) and t1[0] == "L" and t2 == "N":
                return p1 + p2 + [(tmp, f"list_getitem {c1} {c2}")], tmp, t1[1]
            fail(e, f"subscript {tshow(t1)}[{tshow(t2)}]")
        if isinstance(e, ast.Call):
            return self.tx_call(e, env)
        if isinstance(e, ast.UnaryOp) and isinstance(e.op, ast.Not):
            p, c, t = self.tx(e.operand, env)
            if rt(t) != "B":
                fail(e, f"`not` on a value of type {tshow(t)} (only bool is supported)")
            return p, f"(negb {c})", "B"
        if isinstance(e, ast.BoolOp):
            return self.tx_boolop(e, env)
        if isinstance(e, ast.Compare):
            return self.tx_compare(e, env)
        if isinstance(e, ast.ListComp):
            return self.tx_listcomp(e, env)
        if isinstance(e, ast.DictComp):
            return self.tx_dictcomp(e, env)
        fail(e, "expression form")

    def tx_attr(self, e, env):
        if isinstance(e.value, ast.Name) and e.value.id not in env:
            fail(e, f"attribute of the unbound / module-level name {e.value.id}")
        p, c, t = self.tx(e.value, env)
        t = rt(t)
        table = {("C", "inputvars"): ("(pin {0})", ("L", "V")), ("C", "outputvars"): ("(pout {0})", ("L", "V")),
                 ("C", "a"): ("(pa {0})", "TL"), ("C", "g"): ("(pg {0})", "TL"), ("TL", "terms"): ("{0}", ("L", "T")),
                 ("T", "constant"): ("(tconst {0})", "F"), ("T", "variables"): ("(tvars {0})", ("D", "V", "F"))}
        if (t, e.attr) in table:
            if t == "T" and isinstance(e.value, ast.Name) and e.value.id == "self":
                fail(e, "reading a field of self inside __init__")
            pat, ty = table[(t, e.attr)]
            return p, pat.format(c), ty
        fail(e, f"attribute {e.attr} of a value of type {tshow(t)}")

    def tx_boolop(self, e, env):
        parts = [self.tx(v, env) for v in e.values]
        for _, _, t in parts:
            if rt(t) != "B":
                fail(e, f"and/or on a value of type {tshow(t)} (only bool operands are supported)")
        is_and = isinstance(e.op, ast.And)
        if not any(p for p, _, _ in parts[1:]):
            op = "&&" if is_and else "||"
            return parts[0][0], "(" + f" {op} ".join(c for _, c, _ in parts) + ")", "B"
        pn, cn, _ = parts[-1]
        acc = self.inline_m(pn, cn)
        for p, c, _ in reversed(parts[1:-1]):
            inner = f"if {c} then ({acc}) else ret false" if is_and else f"if {c} then ret true else ({acc})"
            acc = "".join(f"{n} <- {m} ;; " for n, m in p) + inner
        p0, c0, _ = parts[0]
        tmp = self.fresh("b")
        expr = f"(if {c0} then ({acc}) else ret false)" if is_and else f"(if {c0} then ret true else ({acc}))"
        return p0 + [(tmp, expr)], tmp, "B"

    def tx_compare(self, e, env):
        if len(e.ops) != 1:
            fail(e, "chained comparison")
        op, rhs = e.ops[0], e.comparators[0]
        neg = isinstance(op, (ast.NotIn, ast.NotEq))
        # x != 0 / x == 0 on a dynamically typed value
        if isinstance(op, (ast.Eq, ast.NotEq)) and isinstance(rhs, ast.Constant) and rhs.value == 0 \
                and type(rhs.value) is int:
            p1, c1, t1 = self.tx(e.left, env)
            if rt(t1) != "J":
                fail(e, f"comparison of a value of type {tshow(t1)} with 0")
            return p1, f"(json_ne_zero {c1})" if neg else f"(negb (json_ne_zero {c1}))", "B"
        (p1, c1, t1), (p2, c2, t2) = self.tx(e.left, env), self.tx(rhs, env)
        t1, t2 = rt(t1), rt(t2)
        pre, r = p1 + p2, None
        if isinstance(op, (ast.In, ast.NotIn)):
            if t1 == "S" and t2 == "J":
                tmp = self.fresh("b")
                pre, r = pre + [(tmp, f"json_contains {c2} {c1}")], tmp
            elif t1 == "S" and t2 == ("L", "S"):
                r = f"(py_in {c1} {c2})"
        elif isinstance(op, (ast.Eq, ast.NotEq)):
            if t1 == "J" and t2 == "S":
                r = f"(json_eq_str {c1} {c2})"
            elif t1 == "S" and t2 == "J":
                r = f"(json_eq_str {c2} {c1})"
            elif t1 == t2 == "S":
                r = f"(String.eqb {c1} {c2})"
            elif t1 == t2 == "N":
                r = f"(Nat.eqb {c1} {c2})"
            elif t1 == t2 == "B":
                r = f"(Bool.eqb {c1} {c2})"
        if r is None:
            fail(e, f"comparison {type(op).__name__} on {tshow(t1)}, {tshow(t2)}")
        return pre, f"(negb {r})" if neg else r, "B"

    # ---- iteration sources: (prebinds, coq list expression, element type)
    def iter_value(self, node, p, c, t):
        """iter(x) of an already translated value"""
        t = rt(t)
        if t == "J":
            tmp = self.fresh("it")
            return p + [(tmp, f"json_iter {c}")], tmp, "J"
        if t == "TL":
            fail(node, "iteration over a PolyhedralTermList object")
        if isinstance(t, tuple) and t[0] == "L":
            return p, c, t[1]
        fail(node, f"iteration over a value of type {tshow(t)}")

    def iter_source(self, it, env):
        if isinstance(it, ast.Name) and it.id in self.once and it.id in env:
            self.once.discard(it.id)            # the single permitted use
            return [], cid(it.id), rt(env[it.id])[1]
        if isinstance(it, ast.Call) and isinstance(it.func, ast.Name) and it.func.id not in env and not it.keywords:
            if it.func.id == "enumerate" and len(it.args) == 1:
                p, c, t = self.iter_source(it.args[0], env)
                return p, f"(enumerate {c})", ("P", "N", t)
            if it.func.id == "zip" and len(it.args) == 2:
                return self.zip_source(it, env)
        if isinstance(it, ast.Call) and isinstance(it.func, ast.Attribute) and it.func.attr in {"items", "values", "keys"} \
                and not it.args and not it.keywords:
            p, c, t = self.tx(it.func.value, env)
            t = rt(t)
            m = it.func.attr
            if t == "J":
                tmp = self.fresh("it")
                ety = {"items": ("P", "S", "J"), "values": "J", "keys": "S"}[m]
                return p + [(tmp, f"json_{m} {c}")], tmp, ety
            if isinstance(t, tuple) and t[0] == "D":
                if m == "items":
                    return p, c, ("P", t[1], t[2])
                return p, f"(map {'snd' if m == 'values' else 'fst'} {c})", t[2] if m == "values" else t[1]
            fail(it, f".{m}() of a value of type {tshow(t)}")
        p, c, t = self.tx(it, env)
        return self.iter_value(it, p, c, t)

    def zip_source(self, it, env):
        # zip(a, b): both arguments are evaluated, then iter() is applied to each, left to right
        parts = [self.tx(a, env) for a in it.args]
        pre = [b for p, _, _ in parts for b in p]
        srcs = []
        for a, (_, c, t) in zip(it.args, parts):
            p2, c2, t2 = self.iter_value(a, [], c, t)
            pre += p2
            srcs.append((c2, t2))
        return pre, f"(py_zip {srcs[0][0]} {srcs[1][0]})", ("P", srcs[0][1], srcs[1][1])

    def bind_target(self, tgt, ety, env):
        """pattern for a loop / comprehension target of element type ety; returns (coq pattern, names, env')"""
        env2 = dict(env)
        names = []

        def go(t, ty):
            ty = rt(ty)
            if isinstance(t, ast.Name):
                if t.id in env or t.id in names:
                    fail(t, f"loop variable {t.id} shadows a local (it would stay bound after the loop)")
                names.append(t.id)
                env2[t.id] = ty
                return cid(t.id)
            if isinstance(t, ast.Tuple) and len(t.elts) == 2 and isinstance(ty, tuple) and ty[0] == "P":
                return f"({go(t.elts[0], ty[1])}, {go(t.elts[1], ty[2])})"
            if isinstance(t, ast.Tuple) and rt(ty) == "J":
                fail(t, "unpacking of a dynamically typed value")
            fail(t, f"loop target for elements of type {tshow(ty)}")

        pat = go(tgt, ety)
        return (pat if isinstance(tgt, ast.Name) else "'" + pat), names, env2

    def comp_head(self, e, env):
        if len(e.generators) != 1:
            fail(e, "nested comprehension")
        g = e.generators[0]
        if g.is_async:
            fail(e, "async comprehension")
        pi, ci, ety = self.iter_source(g.iter, env)
        pat, names, env2 = self.bind_target(g.target, ety, env)
        conds = []
        for cond in g.ifs:
            pc, cc, tc = self.tx(cond, env2)
            if pc or rt(tc) != "B":
                fail(cond, "comprehension condition must be a bool expression that cannot raise")
            conds.append(cc)
        return pi, ci, pat, env2, conds

    def tx_listcomp(self, e, env):
        pi, ci, pat, env2, conds = self.comp_head(e, env)
        pe, ce, te = self.tx(e.elt, env2)
        src = f"(filter (fun {pat} => {' && '.join(conds)}) {ci})" if conds else ci
        if not pe:
            return pi, f"(map (fun {pat} => {ce}) {src})", ("L", te)
        tmp = self.fresh("l")
        body = self.inline_m(pe, ce)
        return pi + [(tmp, f"list_comp_m {src} (fun {pat} => {body})")], tmp, ("L", te)

    def tx_dictcomp(self, e, env):
        pi, ci, pat, env2, conds = self.comp_head(e, env)
        pk, ck, tk = self.tx(e.key, env2)
        if pk or rt(tk) not in {"S", "V"}:
            fail(e.key, "comprehension key must be a str / Var expression that cannot raise")
        pv, cv, tv = self.tx(e.value, env2)
        if pv:
            fail(e.value, "comprehension value that may raise")
        cond = " && ".join(conds) if conds else "true"
        if rt(tk) == "S":
            cv, tv = self.box(cv, tv, e.value), "J"
        return pi, (f"(sdict_comp {ci} (fun {pat} => {cond}) (fun {pat} => {ck}) (fun {pat} => {cv}))"), \
            ("D", rt(tk), tv)

    # ------------------------------------------------------------ calls
    def dotted(self, f):
        """a.b.c for a module-level (unbound) a -> 'a.b.c'"""
        parts = []
        while isinstance(f, ast.Attribute):
            parts.append(f.attr)
            f = f.value
        if isinstance(f, ast.Name):
            parts.append(f.id)
            return ".".join(reversed(parts)), f.id
        return None, None

    def fill_args(self, node, callee: Callee, args, kwargs, env):
        """args: [ast], kwargs: {name: ast}.  Returns (prebinds, [coq]) in the callee's parameter order; Python
        evaluates positional arguments, then keyword arguments, left to right."""
        names = callee.all_names
        if len(args) > len(names):
            fail(node, f"too many arguments for {callee.coq}")
        given: Dict[str, ast.AST] = {}
        order = []
        for n_, a in zip(names, args):
            given[n_] = a
            order.append(n_)
        for k, a in kwargs.items():
            if k not in names or k in given:
                fail(node, f"keyword argument {k} of {callee.coq}")
            given[k] = a
            order.append(k)
        vals, pre = {}, []
        ptypes = {n_: (t, d) for n_, t, d in callee.params}
        for n_ in order:
            if n_ in callee.msg_params:
                # the value is only used in messages; the argument expression is still evaluated (it may raise)
                try:
                    self.check_message(given[n_], env)
                except Unsupported:
                    p, _, _ = self.tx(given[n_], env)
                    pre += p
                continue
            p, c, t = self.tx(given[n_], env)
            pre += p
            vals[n_] = self.coerce(c, t, ptypes[n_][0], given[n_], f"argument {n_} of {callee.coq}")
        out = []
        for n_, t, d in callee.params:
            if n_ in vals:
                out.append(vals[n_])
            elif d is not None:
                if not (isinstance(d, ast.Constant) and isinstance(d.value, bool) and rt(t) == "B"):
                    fail(node, f"default value of parameter {n_}")
                out.append("true" if d.value else "false")
            else:
                fail(node, f"missing argument {n_} of {callee.coq}")
        for n_ in callee.msg_params:
            if n_ not in given:
                fail(node, f"missing argument {n_} of {callee.coq}")
        return pre, out

    def call_callee(self, node, callee: Callee, args, kwargs, env, recv=None):
        pre, cs = self.fill_args(node, callee, args, kwargs, env)
        call = " ".join([callee.coq] + ([recv] if recv is not None else []) + cs)
        if callee.monadic:
            tmp = self.fresh("v")
            return pre + [(tmp, call)], tmp, callee.rtype
        return pre, f"({call})", callee.rtype

    def tx_call(self, e, env):
        f = e.func
        if any(isinstance(a, ast.Starred) for a in e.args):
            fail(e, "*args")
        star = [k for k in e.keywords if k.arg is None]
        kwargs = {k.arg: k.value for k in e.keywords if k.arg is not None}
        if len(kwargs) != len(e.keywords) - len(star):
            fail(e, "repeated keyword argument")
        name, root = self.dotted(f)
        if root is not None and root in env:
            name = None                                   # a method call on a local
        # ---- f(**d)
        if star:
            if len(star) != 1 or e.args or kwargs or name is None:
                fail(e, "**kwargs mixed with other arguments")
            target = self.w.resolve(name)
            if target not in self.w.kw_callees:
                fail(e, f"f(**d) for {name}")
            coq, required, optional, rtype = self.w.kw_callees[target]
            p, c, t = self.tx(star[0].value, env)
            if rt(t) != "J":
                fail(e, f"**d with d of static type {tshow(t)}")
            tmp = self.fresh("v")
            args = [f"(kwarg {coq_str(k)} {c})" for k in required] + \
                   [f"(kwarg_default {coq_str(k)} {d} {c})" for k, d in optional]
            req = "[" + "; ".join(coq_str(k) for k in required) + "]"
            opt = "[" + "; ".join(coq_str(k) for k, _ in optional) + "]"
            return p + [("_", f"call_kwargs {req} {opt} {c}"), (tmp, " ".join([coq] + args))], tmp, rtype
        if name is not None:
            if isinstance(f, ast.Name):
                r = self.builtin_call(e, f.id, kwargs, env)
                if r is not None:
                    return r
            target = self.w.resolve(name)
            if target in self.w.callees:
                return self.call_callee(e, self.w.callees[target], e.args, kwargs, env)
            if target == "polyhedra.PolyhedralTermList":
                if kwargs or len(e.args) != 1:
                    fail(e, "arguments of PolyhedralTermList(...)")
                p, c, t = self.tx(e.args[0], env)
                if not same(t, ("L", "T")):
                    fail(e, f"PolyhedralTermList of a value of type {tshow(t)}")
                return p, c, "TL"
            fail(e, f"call to {name}" + (f" (= {target})" if target != name else ""))
        if not isinstance(f, ast.Attribute):
            fail(e, "call form")
        # ---- method call on a local value
        p0, c0, t0 = self.tx(f.value, env)
        t0 = rt(t0)
        if (t0, f.attr) in self.w.methods:
            pre, c, t = self.call_callee(e, self.w.methods[(t0, f.attr)], e.args, kwargs, env, recv=c0)
            return p0 + pre, c, t
        fail(e, f"method {f.attr} on a value of type {tshow(t0)}")

    def builtin_call(self, e, fname, kwargs, env):
        if fname in env:
            fail(e, "call of a local")
        if fname not in {"isinstance", "float", "str", "Var", "all", "len", "zip"}:
            return None
        if kwargs:
            fail(e, f"keyword arguments in a call of {fname}")
        if fname == "Var" and self.w.resolve("Var") != "iocontract.Var":
            return None
        if fname == "isinstance":
            if len(e.args) != 2:
                fail(e, "isinstance arity")
            p, c, t = self.tx(e.args[0], env)
            if rt(t) != "J":
                fail(e, f"isinstance on a value of static type {tshow(t)}")
            cl = e.args[1]
            cls = list(cl.elts) if isinstance(cl, ast.Tuple) else [cl]
            names = []
            for x in cls:
                if not (isinstance(x, ast.Name) and x.id in PYCLASS and x.id not in env):
                    fail(e, f"isinstance against {ast.unparse(x)}")
                names.append(PYCLASS[x.id])
            if not names:
                fail(e, "isinstance against an empty tuple")
            return p, f"(py_isinstance {c} [{'; '.join(names)}])", "B"
        if fname == "all":
            if len(e.args) != 1 or not isinstance(e.args[0], ast.GeneratorExp):
                fail(e, "all(...) of something else than a generator expression")
            g = e.args[0]
            pi, ci, pat, env2, conds = self.comp_head(g, env)
            if conds:
                fail(e, "condition in the generator of all(...)")
            pe, ce, te = self.tx(g.elt, env2)
            if rt(te) != "B":
                fail(e, f"all(...) over values of type {tshow(te)}")
            if not pe:
                return pi, f"(py_all {ci} (fun {pat} => {ce}))", "B"
            tmp = self.fresh("b")
            return pi + [(tmp, f"all_m {ci} (fun {pat} => {self.inline_m(pe, ce)})")], tmp, "B"
        if fname == "zip":
            if len(e.args) != 2:
                fail(e, "zip arity")
            p, c, ety = self.zip_source(e, env)
            return p, c, ("L", ety)                     # a one-shot iterator: see tr_assign
        if len(e.args) != 1:
            fail(e, f"{fname} arity")
        p, c, t = self.tx(e.args[0], env)
        t = rt(t)
        if fname == "float":
            if t == "J":
                tmp = self.fresh("f")
                return p + [(tmp, f"json_float s2f {c}")], tmp, "F"
            if t == "F":
                return p, f"(PyDict.py_float {c})", "F"
        if fname == "str":
            if t == "V":
                return p, f"(var_name {c})", "S"
            if t == "S":
                return p, c, "S"
        if fname == "Var":
            if t == "J":
                return p, f"(json_var pstr {c})", "V"
            if t == "S":
                return p, f"(Var {c})", "V"
        if fname == "len" and isinstance(t, tuple) and t[0] == "L":
            return p, f"(len {c})", "N"
        fail(e, f"call {fname}(...) on a value of type {tshow(t)}")

    # ------------------------------------------------------------ statements
    def is_dropped(self, s, env) -> bool:
        if isinstance(s, ast.Pass):
            return True
        if isinstance(s, ast.Expr):
            v = s.value
            if isinstance(v, ast.Constant) and isinstance(v.value, str):
                return True
            if isinstance(v, ast.Call) and isinstance(v.func, ast.Name) and v.func.id == "print" and "print" not in env:
                for a in v.args:
                    self.check_message(a, env)
                if v.keywords:
                    fail(s, "keyword argument of print")
                self.assumptions.append(f"{self.label}: print(...) ignored (argument checked to be total)")
                return True
            if isinstance(v, ast.Call) and isinstance(v.func, ast.Attribute) and isinstance(v.func.value, ast.Name) \
                    and v.func.value.id == "logging" and "logging" not in env \
                    and v.func.attr in {"debug", "info", "warning", "error"}:
                for a in v.args:
                    self.check_message(a, env)
                if v.keywords:
                    fail(s, "keyword argument of logging")
                self.assumptions.append(f"{self.label}: logging.{v.func.attr}(...) ignored")
                return True
        return False

    def terminates(self, stmts) -> bool:
        if not stmts:
            return False
        s = stmts[-1]
        if isinstance(s, (ast.Raise, ast.Return, ast.Break)):
            return True
        if isinstance(s, ast.If):
            return bool(s.orelse) and self.terminates(s.body) and self.terminates(s.orelse)
        return False

    def assigned(self, stmts) -> List[str]:
        out: List[str] = []

        def add(n):
            if n not in out:
                out.append(n)

        def target(n):
            if isinstance(n, ast.Name):
                add(n.id)
            elif isinstance(n, ast.Tuple):
                for x in n.elts:
                    target(x)
            elif isinstance(n, ast.Subscript) and isinstance(n.value, ast.Name):
                add(n.value.id)
            elif isinstance(n, ast.Attribute) and isinstance(n.value, ast.Name) and n.value.id == "self":
                add("self_" + n.attr)
            else:
                fail(n, "assignment target")

        for s in stmts:
            if isinstance(s, ast.Assign):
                for t in s.targets:
                    target(t)
            elif isinstance(s, (ast.AugAssign, ast.AnnAssign)):
                target(s.target)
            elif isinstance(s, ast.Expr) and isinstance(s.value, ast.Call) and isinstance(s.value.func, ast.Attribute) \
                    and isinstance(s.value.func.value, ast.Name) and s.value.func.attr == "append":
                add(s.value.func.value.id)
            elif isinstance(s, ast.If):
                for n in self.assigned(s.body) + self.assigned(s.orelse):
                    add(n)
            elif isinstance(s, ast.For):
                for n in self.assigned(s.body):
                    add(n)
        return out

    def block(self, stmts, env, ind, ctx) -> str:
        if not stmts:
            return ctx.fall(env, ind)
        s, rest = stmts[0], list(stmts[1:])
        if self.is_dropped(s, env):
            return self.block(rest, env, ind, ctx)
        if isinstance(s, ast.Return):
            if rest:
                fail(s, "statements after return")
            if not ctx.ret_ok:
                fail(s, "return inside a loop or inside an if whose branches are joined")
            if s.value is None or (isinstance(s.value, ast.Constant) and s.value.value is None):
                if rt(self.rtype) != "U":
                    fail(s, "bare return in a function that returns a value")
                return f"{ind}{self.ret('tt')}"
            pre, c, t = self.tx(s.value, env)
            c = self.coerce(c, t, self.rtype, s, "returned value")
            if pre and pre[-1][0] == c:
                self.need_monad(c)
                return self.emit_binds(pre[:-1], f"{ind}{pre[-1][1]}", ind)
            return self.emit_binds(pre, f"{ind}{self.ret(c)}", ind)
        if isinstance(s, ast.Raise):
            if rest:
                fail(s, "statements after raise")
            return self.tr_raise(s, env, ind)
        if isinstance(s, ast.Break):
            if rest:
                fail(s, "statements after break")
            if ctx.brk is None:
                fail(s, "break outside a loop body (or inside joined branches)")
            return ctx.brk(env, ind)
        if isinstance(s, ast.Assign):
            if len(s.targets) != 1:
                fail(s, "multiple assignment targets")
            return self.tr_assign(s, s.targets[0], s.value, None, rest, env, ind, ctx)
        if isinstance(s, ast.AnnAssign):
            if s.value is None or not s.simple:
                fail(s, "annotation without a value")
            return self.tr_assign(s, s.target, s.value, ast.unparse(s.annotation), rest, env, ind, ctx)
        if isinstance(s, ast.AugAssign):
            return self.tr_augassign(s, rest, env, ind, ctx)
        if isinstance(s, ast.Expr):
            return self.tr_expr_stmt(s, rest, env, ind, ctx)
        if isinstance(s, ast.Assert):
            if s.msg is not None:
                self.check_message(s.msg, env)
            pre, c, t = self.tx(s.test, env)
            if rt(t) != "B":
                fail(s, f"assert on a value of type {tshow(t)}")
            return self.emit_binds(pre + [("_", f"py_assert {c}")], "", ind) + self.block(rest, env, ind, ctx)
        if isinstance(s, ast.If):
            return self.tr_if(s, rest, env, ind, ctx)
        if isinstance(s, ast.For):
            return self.tr_for(s, rest, env, ind, ctx)
        fail(s, "statement form")

    def tr_raise(self, s, env, ind):
        exc = s.exc
        if s.cause is not None or exc is None:
            fail(s, "raise form")
        if isinstance(exc, ast.Call) and isinstance(exc.func, ast.Name) and not exc.keywords:
            name = exc.func.id
            for a in exc.args:
                self.check_message(a, env)
        elif isinstance(exc, ast.Name):
            name = exc.id
        else:
            fail(s, "raise form")
        if name in env or name not in ERRKIND or not self.w.exception_ok(name):
            fail(s, f"exception class {name}")
        self.need_monad("raise")
        return f"{ind}raise {ERRKIND[name]}"

    def bind_value(self, name, pre, c, ind):
        if pre and pre[-1][0] == c:
            return self.emit_binds(pre[:-1], "", ind) + self.emit_binds([(name, pre[-1][1])], "", ind)
        return self.emit_binds(pre, f"{ind}let {name} := {c} in\n", ind)

    @staticmethod
    def is_fresh(value):
        return isinstance(value, (ast.List, ast.Dict, ast.ListComp, ast.DictComp))

    ANNOT_LOCAL = {"List[Any]": ("L", "ANY"), "Dict[str, Any]": ("D", "S", "J")}

    def tr_assign(self, s, tgt, value, annot, rest, env, ind, ctx):
        if isinstance(tgt, ast.Name):
            if tgt.id == "self" or tgt.id in self.msg_params:
                fail(s, f"assignment to {tgt.id}")
            pre, c, t = self.tx(value, env)
            if annot is not None:
                want = self.ANNOT_LOCAL.get(annot)
                if want is not None:
                    if not same(t, want):
                        fail(s, f"annotation {annot} on a value of type {tshow(t)}")
                elif not re.match(r"^[A-Za-z_\[\], .]+$", annot):
                    fail(s, f"annotation {annot}")
            env2 = dict(env)
            env2[tgt.id] = t
            env2 = self.disown_mentions(env2, value)
            env2 = self.with_owned(env2, tgt.id, self.is_fresh(value))
            if isinstance(value, ast.Call) and isinstance(value.func, ast.Name) and value.func.id == "zip":
                # a zip object is consumed by its first iteration: exactly one use, by a for loop of the same block
                uses = [n for n in ast.walk(self.f) if isinstance(n, ast.Name) and n.id == tgt.id
                        and isinstance(n.ctx, ast.Load)]
                stores = [n for n in ast.walk(self.f) if isinstance(n, ast.Name) and n.id == tgt.id
                          and isinstance(n.ctx, ast.Store)]
                if len(uses) != 1 or len(stores) != 1 or ctx.brk is not None or not ctx.ret_ok:
                    fail(s, "a zip object must be bound once, at the top level of the function, and iterated once")
                self.once.add(tgt.id)
            return self.bind_value(cid(tgt.id), pre, c, ind) + self.block(rest, env2, ind, ctx)
        if isinstance(tgt, ast.Attribute) and isinstance(tgt.value, ast.Name) and tgt.value.id == "self":
            if self.f.name != "__init__":
                fail(s, "assignment to a field of self outside __init__")
            fld = tgt.attr
            fty = {"variables": ("D", "V", "F"), "constant": "F"}.get(fld) or fail(s, f"field {fld}")
            if fld in self.fields:
                fail(s, f"field {fld} assigned twice")
            pre, c, t = self.tx(value, env)
            if not same(t, fty):
                fail(s, f"field {fld} assigned a value of type {tshow(t)}")
            if fld == "variables" and not (isinstance(value, ast.Name) and value.id in self.owned(env)):
                fail(s, "self.variables must be assigned a dict built by __init__ itself")
            local = "self_" + fld
            self.fields[fld] = local
            env2 = dict(env)
            env2[local] = fty
            env2 = self.disown_mentions(env2, value)
            return self.bind_value(local, pre, c, ind) + self.block(rest, env2, ind, ctx)
        if isinstance(tgt, ast.Subscript) and isinstance(tgt.value, ast.Name):
            # d[k] = v : Python evaluates v, then d, then k
            d = tgt.value.id
            td = rt(env.get(d)) if d in env else fail(s, f"unbound name {d}")
            if not (isinstance(td, tuple) and td[0] == "D"):
                fail(s, f"item assignment on a value of type {tshow(td)}")
            if d not in self.owned(env):
                fail(s, f"in-place update of `{d}`, which is not known to be a fresh, unaliased object of this function")
            pre, c, t = self.tx(value, env)
            pk, ck, tk = self.tx(tgt.slice, env)
            if rt(tk) not in {"S", "V"} or not same(td[1], tk):
                fail(s, f"dict key of type {tshow(tk)}")
            if isinstance(rt(td[2]), TV):
                same(td[2], "J" if rt(tk) == "S" else t)      # a dict with str keys holds values of any type
            c = self.coerce(c, t, td[2], value, "stored value")
            env2 = self.disown_mentions(env, value)
            return self.emit_binds(pre + pk, f"{ind}let {cid(d)} := (sdict_set {cid(d)} {ck} {c}) in\n", ind) \
                + self.block(rest, env2, ind, ctx)
        fail(s, "assignment target")

    def tr_augassign(self, s, rest, env, ind, ctx):
        tgt = s.target
        if not (isinstance(tgt, ast.Name) and isinstance(s.op, ast.Add) and tgt.id in env):
            fail(s, "augmented assignment form")
        t0 = rt(env[tgt.id])
        if not (isinstance(t0, tuple) and t0[0] == "L"):
            fail(s, f"+= on a value of type {tshow(t0)}")
        if tgt.id not in self.owned(env):
            fail(s, f"in-place `+=` on `{tgt.id}`, which is not known to be a fresh, unaliased list of this function")
        pre, c, t = self.tx(s.value, env)
        if not same(t, t0):
            fail(s, f"+= of a value of type {tshow(t)} to a {tshow(t0)}")
        n = cid(tgt.id)
        return self.emit_binds(pre, f"{ind}let {n} := ({n} ++ {c})%list in\n", ind) + self.block(rest, env, ind, ctx)

    def tr_expr_stmt(self, s, rest, env, ind, ctx):
        v = s.value
        if not isinstance(v, ast.Call):
            fail(s, "expression statement")
        if isinstance(v.func, ast.Attribute) and v.func.attr == "append" and isinstance(v.func.value, ast.Name) \
                and v.func.value.id in env and not v.keywords and len(v.args) == 1:
            base = v.func.value.id
            t0 = rt(env[base])
            if not (isinstance(t0, tuple) and t0[0] == "L"):
                fail(s, f"append to a value of type {tshow(t0)}")
            if base not in self.owned(env):
                fail(s, f"append to `{base}`, which is not known to be a fresh, unaliased list of this function")
            pre, c, t = self.tx(v.args[0], env)
            et = rt(t0[1])
            if isinstance(et, TV):
                same(et, t)
            c = self.coerce(c, t, t0[1], s, "appended value")
            n = cid(base)
            env2 = self.disown_mentions(env, v.args[0])
            return self.emit_binds(pre, f"{ind}let {n} := ({n} ++ [{c}])%list in\n", ind) \
                + self.block(rest, env2, ind, ctx)
        pre, c, t = self.tx(v, env)
        if rt(t) != "U":
            fail(s, f"the result (type {tshow(t)}) of a call is discarded")
        env2 = self.disown_mentions(env, v)
        if pre and pre[-1][0] == c:
            return self.emit_binds(pre[:-1] + [("_", pre[-1][1])], "", ind) + self.block(rest, env2, ind, ctx)
        return self.emit_binds(pre, "", ind) + self.block(rest, env2, ind, ctx)

    def str_guard(self, s, env):
        """`if isinstance(x, str): raise ... else: S` with x a Var in the typed model -> S"""
        t = s.test
        if isinstance(t, ast.Call) and ast.unparse(t.func) == "isinstance" and len(t.args) == 2 \
                and isinstance(t.args[0], ast.Name) and rt(env.get(t.args[0].id)) == "V" \
                and ast.unparse(t.args[1]) == "str" and len(s.body) == 1 and isinstance(s.body[0], ast.Raise):
            self.assumptions.append(f"{self.label}: `isinstance({t.args[0].id}, str)` is False in the typed model "
                                    "(the key is a Var); the raising branch is dropped")
            return list(s.orelse)
        return None

    def class_dispatch(self, s, env):
        """if isinstance(c, A): ... elif isinstance(c, B): ... else: ...  on an IoContract of unknown class"""
        arms, cur = [], s
        var = None
        while True:
            t = cur.test
            if not (isinstance(t, ast.Call) and isinstance(t.func, ast.Name) and t.func.id == "isinstance"
                    and len(t.args) == 2 and isinstance(t.args[0], ast.Name) and rt(env.get(t.args[0].id)) == "AC"
                    and isinstance(t.args[1], ast.Name)):
                return None
            if var not in (None, t.args[0].id):
                return None
            var = t.args[0].id
            arms.append((self.w.resolve(t.args[1].id), list(cur.body)))
            if len(cur.orelse) == 1 and isinstance(cur.orelse[0], ast.If):
                cur = cur.orelse[0]
            else:
                return var, arms, list(cur.orelse)

    def tr_if(self, s, rest, env, ind, ctx):
        repl = self.str_guard(s, env)
        if repl is not None:
            return self.block(repl + rest, env, ind, ctx)
        disp = self.class_dispatch(s, env)
        if disp is not None:
            return self.tr_dispatch(s, disp, rest, env, ind, ctx)
        pre, c, t = self.tx(s.test, env)
        if rt(t) != "B":
            fail(s.test, f"truthiness of a value of type {tshow(t)} (only bool conditions are supported)")
        body, orelse = list(s.body), list(s.orelse)
        tb, te = self.terminates(body), self.terminates(orelse)
        ind2 = ind + "  "
        if (tb and te) and rest:
            fail(s, "unreachable code after if")
        if tb or te or not rest:
            then_txt = self.block(body + ([] if tb else rest), env, ind2, ctx)
            else_txt = self.block(orelse + ([] if te else rest), env, ind2, ctx)
            return self.emit_binds(pre, f"{ind}if {c} then\n{then_txt}\n{ind}else\n{else_txt}", ind)
        return self.join([(f"if {c} then", body), ("else", orelse)], "", pre, s, rest, env, ind, ctx)

    def join(self, arms, closing, pre, s, rest, env, ind, ctx, arm_envs=None, opening=""):
        """several branches that fall through, followed by `rest`: join on the variables they assign"""
        allst = [x for _, b in arms for x in b]
        names = [n for n in self.assigned(allst) if n in env]
        if set(self.assigned(allst)) - set(names):
            fail(s, "branches (re)bind a name that is not defined before the if (it would be local to the branch)")
        cn = [cid(n) for n in names]
        tup = "tt" if not cn else ("(" + ", ".join(cn) + ")" if len(cn) > 1 else cn[0])
        pat = "_" if not cn else ("'" + tup if len(cn) > 1 else cn[0])
        envs = []

        def thunk():
            del envs[:]

            def fall(env2, i2):
                envs.append(env2)
                return f"{i2}{self.ret(tup)}"

            jctx = Ctx(fall)
            ind3 = ind + "    "
            txt = ""
            for i, (head, b) in enumerate(arms):
                e0 = arm_envs[i] if arm_envs else env
                txt += f"{ind}   {head}\n" + self.block(b, e0, ind3, jctx) + "\n"
            return (f"{ind}  ({opening}\n{txt}{ind}   {closing})" if closing
                    else f"{ind}  ({opening}\n{txt.rstrip()})")

        txt, mon = self.sub(thunk)
        env3 = dict(env)
        for n in names:
            for e2 in envs:
                if not same(e2[n], env[n]):
                    fail(s, f"joined variable {n} changes type")
        own = self.owned(env)
        for e2 in envs:
            own = own & self.owned(e2)
        env3["%owned"] = own
        head = f"{ind}{pat} <-\n{txt} ;;\n" if mon else f"{ind}let {pat} :=\n{txt} in\n"
        return self.emit_binds(pre, head, ind) + self.block(rest, env3, ind, ctx)

    def tr_dispatch(self, s, disp, rest, env, ind, ctx):
        var, arms, orelse = disp
        want = {"pc.PolyhedralIoContract": ("APoly", "C"), "pc.PolyhedralIoContractCompound": ("ACompound", "K")}
        seen, coq_arms, arm_envs = [], [], []
        for cls, body in arms:
            if cls not in want or cls in seen:
                fail(s, f"isinstance dispatch on class {cls}")
            seen.append(cls)
            ctor, ty = want[cls]
            e2 = dict(env)
            e2[var] = ty                       # inside the arm the object has that class
            coq_arms.append((f"| {ctor} {cid(var)} =>", body))
            arm_envs.append(e2)
        self.assumptions.append(f"{self.label}: isinstance(c, PolyhedralIoContract) / isinstance(c, "
                                "PolyhedralIoContractCompound) on an element of List[IoContract] is a match on "
                                "any_contract (checked: neither class derives from the other)")
        heads = coq_arms + [("| _ =>", orelse)]
        arm_envs.append(env)
        # the default arm: every constructor not matched above
        bodies = [b for _, b in heads]
        term = [self.terminates(b) for b in bodies]
        hd = f"match {cid(var)} with"
        if all(term) and rest:
            fail(s, "unreachable code after if")
        ind2 = ind + "    "
        if not rest or sum(1 for t_ in term if not t_) <= 1:
            txt = f"{ind}{hd}\n"
            for (h, b), t_, e2 in zip(heads, term, arm_envs):
                txt += f"{ind}{h}\n" + self.block(b + ([] if t_ else rest), e2, ind2, ctx) + "\n"
            return txt + f"{ind}end"
        # several arms fall through: join (arms that raise are kept inside the joined expression)
        return self.join([(h, b) for h, b in heads], "end", [], s, rest, env, ind, ctx, arm_envs=arm_envs, opening=hd)

    def tr_for(self, s, rest, env, ind, ctx):
        if s.orelse:
            fail(s, "for ... else")
        pi, ci, ety = self.iter_source(s.iter, env)
        pat, targets, env2 = self.bind_target(s.target, ety, env)
        body_assigned = self.assigned(list(s.body))
        if set(body_assigned) & set(targets):
            fail(s, "loop body rebinds the loop variable")
        for n in ast.walk(s.iter):
            if isinstance(n, ast.Name) and n.id in body_assigned:
                fail(s, "loop body updates the object it iterates over")
        accs = [n for n in body_assigned if n in env]
        cn = [cid(n) for n in accs]
        tup = "tt" if not cn else ("(" + ", ".join(cn) + ")" if len(cn) > 1 else cn[0])
        apat = "_" if not cn else ("'" + tup if len(cn) > 1 else cn[0])
        envs = []
        # names first bound inside the body are local to one iteration
        for n in body_assigned:
            if n not in env:
                for st in rest:
                    if any(isinstance(x, ast.Name) and x.id == n for x in ast.walk(st)):
                        fail(s, f"{n} is first bound inside the loop and used after it")

        def thunk():
            del envs[:]

            def fall(e3, i3):
                envs.append(e3)
                return f"{i3}{self.ret(f'(Continue {tup})')}"

            def brk(e3, i3):
                envs.append(e3)
                return f"{i3}{self.ret(f'(Break {tup})')}"

            return self.block(list(s.body), env2, ind + "    ", Ctx(fall, brk))

        body, mon = self.sub(thunk)
        for n in accs:
            for e3 in envs:
                if not same(e3[n], env[n]):
                    fail(s, f"loop variable {n} changes type")
        env3 = dict(env)
        own = self.owned(env)
        for e3 in envs:
            own = own & self.owned(e3)
        env3["%owned"] = own
        call = f"for_list{'_m' if mon else ''} {ci} {tup} (fun {apat} {pat} =>\n{body})"
        txt = f"{ind}{apat} <- {call} ;;\n" if mon else f"{ind}let {apat} := {call} in\n"
        if not mon and not cn:
            txt = ""          # a loop without effect
            fail(s, "loop without any effect")
        return self.emit_binds(pi, txt, ind) + self.block(rest, env3, ind, ctx)

    # ------------------------------------------------------------ whole function
    def end_of_function(self, env, ind):
        if self.f.name == "__init__":
            if set(self.fields) != {"variables", "constant"}:
                fail(self.f, f"__init__ assigns fields {sorted(self.fields)}")
            return f"{ind}{self.ret('(mkT self_variables self_constant)')}"
        if rt(self.rtype) == "U":
            return f"{ind}{self.ret('tt')}"
        if self.final is not None:
            return self.final(env, ind)
        fail(self.f, "function falls off the end (returns None)")

    final = None

    def translate(self, params, body=None) -> Tuple[str, bool]:
        env = {n: t for n, t in params}
        env["%owned"] = frozenset()
        stmts = list(self.f.body) if body is None else body

        def run():
            self.tmp = 0
            self.fields = {}
            self.once = set()
            return self.block(stmts, env, "  ", Ctx(self.end_of_function, None, True))

        saved = list(self.assumptions)
        self.monadic = False
        try:
            return run(), False
        except NeedMonad:
            self.assumptions[:] = saved
            self.monadic = True
            return run(), True


# ---------------------------------------------------------------- the modules
class JWorld:
    def __init__(self):
        self.callees: Dict[str, Callee] = {}          # canonical name -> function / constructor
        self.methods: Dict[Tuple[str, str], Callee] = {}   # (receiver type, method) -> callee (receiver first)
        self.kw_callees: Dict[str, tuple] = {}        # canonical name -> (coq, required, [(optional, default coq)], rtype)
        self.aliases: Dict[str, str] = {}             # dotted prefix in the CURRENT module -> canonical prefix
        self.exceptions: set = set()                  # exception class names usable in the current module

    def resolve(self, name: str) -> str:
        parts = name.split(".")
        for i in range(len(parts), 0, -1):
            pre = ".".join(parts[:i])
            if pre in self.aliases:
                return ".".join([self.aliases[pre]] + parts[i:])
        return name

    def exception_ok(self, name):
        return name in self.exceptions


def fun_def(mod, name, where):
    fs = [n for n in mod.body if isinstance(n, ast.FunctionDef) and n.name == name]
    if len(fs) != 1:
        raise Unsupported(f"{where}: function {name} defined {len(fs)} times")
    f = fs[0]
    if f.decorator_list:
        raise Unsupported(f"{where}: decorators of {name}")
    return f


def plain_args(f, where, skip_self=False, static=False):
    a = f.args
    if a.vararg or a.kwarg or a.kwonlyargs or a.posonlyargs:
        raise Unsupported(f"{where}: signature of {f.name}")
    args = list(a.args)
    defaults = [None] * (len(args) - len(a.defaults)) + list(a.defaults)
    pairs = list(zip(args, defaults))
    if skip_self:
        if not pairs or pairs[0][0].arg != "self":
            raise Unsupported(f"{where}: {f.name} is expected to take self")
        pairs = pairs[1:]
    elif pairs and pairs[0][0].arg == "self":
        raise Unsupported(f"{where}: {f.name} is not expected to take self")
    return pairs


ANNOT = {"Dict": "J", "dict": "J", "object": "J", "bool": "B", "str": "MSG", "Dict[Var, numeric]": ("D", "V", "J"),
         "numeric": "J", "List[iocontract.IoContract]": ("L", "AC"), "List[str]": ("L", "S")}
RANNOT = {"None": "U", "bool": "B", "ser_contract": "J", "dict": "J", "PolyhedralIoContract": "C"}


def signature(f, where, skip_self=False, rtype=None):
    params, msg, names = [], [], []
    for arg, d in plain_args(f, where, skip_self=skip_self):
        ann = ast.unparse(arg.annotation) if arg.annotation is not None else None
        if ann not in ANNOT:
            fail(arg, f"{where}: annotation {ann} of parameter {arg.arg} of {f.name}")
        names.append(arg.arg)
        if ANNOT[ann] == "MSG":
            if d is not None:
                fail(arg, "default value of a str parameter")
            msg.append(arg.arg)
        else:
            if d is not None and not (isinstance(d, ast.Constant) and isinstance(d.value, bool)):
                fail(arg, "default value")
            params.append((arg.arg, ANNOT[ann], d))
    if rtype is None:
        rann = ast.unparse(f.returns) if f.returns is not None else None
        if rann not in RANNOT:
            fail(f, f"{where}: return annotation {rann} of {f.name}")
        rtype = RANNOT[rann]
    return params, msg, names, rtype


def class_methods(cdef, where, allow_attrs=False):
    ms = {}
    for n in cdef.body:
        if isinstance(n, ast.FunctionDef):
            if n.name in ms:
                raise Unsupported(f"{where}.{n.name} defined twice")
            ms[n.name] = n
        elif isinstance(n, ast.Expr) and isinstance(n.value, ast.Constant) and isinstance(n.value.value, str):
            continue
        elif allow_attrs and isinstance(n, (ast.Assign, ast.AnnAssign)) and all(
                isinstance(t, ast.Name) and not t.id.startswith("__") and t.id not in ("to_str_list", "terms")
                for t in (n.targets if isinstance(n, ast.Assign) else [n.target])):
            continue                      # a class attribute that is not one of the names the translation relies on
        else:
            fail(n, f"class-level statement in {where}")
    return ms


def define(world, f, coq, label, params, msg, rtype, assumptions, selfparam=None, body=None, final=None, pysig=None):
    fn = JFn(world, f, label, rtype, assumptions, msg_params=msg)
    fn.final = final
    ps = ([(selfparam[0], selfparam[1])] if selfparam else []) + [(n, t) for n, t, _ in params]
    text, mon = fn.translate(ps, body=body)
    sig = " ".join(f"({cid(n) if n != 'self' else 'self'} : {coqty(t)})" for n, t in ps)
    r = coqty(rtype)
    if pysig is None:
        pysig = next(l for l in ast.unparse(f).split("\n") if l.startswith("def "))
    if msg:
        assumptions.append(f"{label}: parameter(s) {', '.join(msg)} only occur in messages (checked) and are dropped")
    return (f"(* {comment_safe(pysig)} *)\nDefinition {coq} {sig} : {'M (' + r + ')' if mon else r} :=\n{text}.\n\n"), mon


def want_imports(mod, where, wanted):
    imported = n_imports(mod)
    for name, want in wanted:
        if imported.get(name) != want:
            raise Unsupported(f"{where}: module-level name {name} is {imported.get(name)}, expected {want}")
    return imported


def no_inner_rebinding(f, names, where):
    """the builtins / module-level names the translation gives a meaning to are not rebound inside the function"""
    for n in ast.walk(f):
        if isinstance(n, ast.Name) and isinstance(n.ctx, (ast.Store, ast.Del)) and n.id in names:
            fail(n, f"{where}: {n.id} is rebound inside {f.name}")
        if isinstance(n, ast.arg) and n.arg in names:
            fail(n, f"{where}: parameter named {n.arg} in {f.name}")
        if isinstance(n, (ast.Global, ast.Nonlocal, ast.Lambda, ast.FunctionDef, ast.ClassDef, ast.Import,
                          ast.ImportFrom, ast.Try, ast.While, ast.Yield, ast.YieldFrom, ast.Await, ast.NamedExpr,
                          ast.Delete)) and n is not f:
            fail(n, f"{where}: construct outside the translated subset in {f.name}")


GEN_ORDER = ["serializer__is_number", "serializer__check_clause", "serializer_validate_contract_dict",
             "PolyhedralTerm_init_dyn", "PolyhedralIoContract_to_machine_dict", "PolyhedralIoContract_to_dict",
             "PolyhedralIoContract_from_dict", "fileio_read_contracts_from_file", "fileio_write_contracts_to_file"]


def gen_json(repo) -> Tuple[str, List[str]]:
    src = f"{repo}/src/pacti"
    paths = {"serializer": f"{src}/terms/polyhedra/serializer.py", "polyhedra": f"{src}/terms/polyhedra/polyhedra.py",
             "pc": f"{src}/contracts/polyhedral_iocontract.py", "fileio": f"{src}/utils/fileio.py",
             "iocontract": f"{src}/iocontract/iocontract.py", "compound": f"{src}/iocontract/compundiocontract.py",
             "errors": f"{src}/utils/errors.py"}
    text = {k: open(p).read() for k, p in paths.items()}
    mods = {k: ast.parse(t) for k, t in text.items()}
    assumptions: List[str] = []
    GEN_NAMES.clear()
    GEN_NAMES.update(GEN_ORDER)
    w = JWorld()
    segs: List[str] = []             # source segments of everything translated (for the sha line)
    out_defs = ""

    # ---------------- exception classes
    emod = mods["errors"]
    ecls = {n.name: [ast.unparse(b) for b in n.bases] for n in emod.body if isinstance(n, ast.ClassDef)}
    if ecls.get("ContractFormatError") != ["FileDataFormatError"] or ecls.get("FileDataFormatError") != ["Exception"] \
            or ecls.get("IncompatibleArgsError") != ["ValueError"]:
        raise Unsupported("errors.py: ContractFormatError / FileDataFormatError / IncompatibleArgsError are expected to "
                          "derive from FileDataFormatError / Exception / ValueError")
    assumptions.append("json: exception TYPES are kept (ContractFormatError -> FormatErr, ValueError -> ValueErr, "
                       "IncompatibleArgsError -> IncompatibleArgs); messages are dropped after checking that they are "
                       "f-strings / constants over bound names (total)")

    # ---------------- serializer.py
    smod = mods["serializer"]
    want_imports(smod, "serializer.py", [("ContractFormatError", "pacti.utils.errors.ContractFormatError")])
    n_no_redefinition(smod, BUILTINS + ["ContractFormatError"], [])
    w.aliases = {"_is_number": "serializer._is_number", "_check_clause": "serializer._check_clause",
                 "validate_contract_dict": "serializer.validate_contract_dict"}
    w.exceptions = {"ContractFormatError", "ValueError"}
    for pyname in ("_is_number", "_check_clause", "validate_contract_dict"):
        f = fun_def(smod, pyname, "serializer.py")
        segs.append(ast.get_source_segment(text["serializer"], f) or "")
        strip_doc(f)
        no_inner_rebinding(f, set(BUILTINS) | set(w.aliases) | {"ContractFormatError"}, "serializer.py")
        params, msg, names, rtype = signature(f, "serializer.py")
        coq = "serializer_" + pyname
        d, mon = define(w, f, coq, f"serializer.{pyname}", params, msg, rtype, assumptions)
        out_defs += d
        c = Callee(coq, params, rtype, mon, msg_params=msg)
        c.all_names = names
        w.callees["serializer." + pyname] = c

    # ---------------- iocontract.py: Var, IoContract.__init__ (signature only: it is translated in gen/AlgebraGen.v)
    imod = mods["iocontract"]
    vm = class_methods(class_def(imod, "Var"), "Var")
    for m, want in (("__init__", "self._name = str(varname)"), ("name", "return self._name"),
                    ("__str__", "return self.name"), ("__eq__", None), ("__hash__", "return hash(self.name)")):
        if m not in vm:
            raise Unsupported(f"Var.{m} missing")
        body = [x for x in strip_doc(vm[m]).body]
        if want is not None and (len(body) != 1 or ast.unparse(body[0]) != want):
            raise Unsupported(f"Var.{m} is expected to be `{want}`")
    if ast.unparse(vm["__eq__"].body[-1]) != "return self.name == other.name":
        raise Unsupported("Var.__eq__ is expected to compare names")
    assumptions.append("json: a Var is its name (var = string; checked: Var.__init__ stores str(varname), __str__/name "
                       "return it, __eq__/__hash__ go by name): Var(k) of a str is k, Var(x) of any other value is "
                       "pstr x (= str(x), a parameter as in model/Json.v), str(v) of a Var is its name")
    im = class_methods(class_def(imod, "IoContract"), "IoContract")
    if "__init__" not in im:
        raise Unsupported("IoContract.__init__ missing")
    ipairs = plain_args(im["__init__"], "iocontract.py", skip_self=True)
    if [(a.arg, ast.unparse(a.annotation) if a.annotation else None, ast.unparse(d) if d is not None else None)
            for a, d in ipairs] != [("assumptions", "TermList_t", None), ("guarantees", "TermList_t", None),
                                    ("input_vars", "List[Var]", None), ("output_vars", "List[Var]", None),
                                    ("simplify", "bool", "True")]:
        raise Unsupported("signature of IoContract.__init__")
    init_c = Callee("contract_init", [("assumptions", "TL", None), ("guarantees", "TL", None),
                                      ("input_vars", ("L", "V"), None), ("output_vars", ("L", "V"), None),
                                      ("simplify", "B", ipairs[4][1])], "C", True)
    init_c.all_names = ["assumptions", "guarantees", "input_vars", "output_vars", "simplify"]
    assumptions.append("json: PolyhedralIoContract(...) runs IoContract.__init__ (checked: the subclass defines no "
                       "__init__), which is translated in gen/AlgebraGen.v; here it is the section parameter "
                       "contract_init, as model/Json.v parameterises it (pc_init)")

    # ---------------- polyhedra.py: PolyhedralTerm.__init__ over dynamically typed values; PolyhedralTermList.__init__
    pmod = mods["polyhedra"]
    want_imports(pmod, "polyhedra.py", [("Var", "pacti.iocontract.Var")])
    n_no_redefinition(pmod, BUILTINS, ["PolyhedralTerm", "PolyhedralTermList"])
    ptc = class_def(pmod, "PolyhedralTerm")
    if [ast.unparse(b) for b in ptc.bases] != ["Term"] or ptc.keywords or ptc.decorator_list:
        raise Unsupported("PolyhedralTerm is expected to be a plain subclass of Term")
    ptm = class_methods(ptc, "PolyhedralTerm")
    if "__init__" not in ptm or "__new__" in ptm:
        raise Unsupported("PolyhedralTerm.__init__ missing (or __new__ defined)")
    pinit = ptm["__init__"]
    if pinit.decorator_list:
        raise Unsupported("decorators of PolyhedralTerm.__init__")
    segs.append(ast.get_source_segment(text["polyhedra"], pinit) or "")
    strip_doc(pinit)
    w.aliases = {"Var": "iocontract.Var"}
    w.exceptions = {"ValueError"}
    no_inner_rebinding(pinit, set(BUILTINS), "polyhedra.py")
    params, msg, names, _ = signature(pinit, "polyhedra.py", skip_self=True, rtype="T")
    d, mon = define(w, pinit, "PolyhedralTerm_init_dyn", "PolyhedralTerm.__init__ (dynamic)", params, msg, "T", assumptions)
    out_defs += d
    pt_c = Callee("PolyhedralTerm_init_dyn", params, "T", mon)
    pt_c.all_names = names
    assumptions.append("json: PolyhedralTerm.__init__ is translated a second time (PolyhedralTerm_init_dyn) with "
                       "`variables` a dict from Var to values of unknown type and `constant` a value of unknown type, "
                       "which is what from_dict hands it (gen/TermGen.v has the statically typed reading)")
    ptl = class_def(pmod, "PolyhedralTermList")
    ptlm = class_methods(ptl, "PolyhedralTermList", allow_attrs=True)
    tl_init = strip_doc(ptlm.get("__init__") or fail(ptl, "PolyhedralTermList.__init__ missing"))
    want_tl = ("if terms is None:\n    self.terms = []\nelif all((isinstance(t, PolyhedralTerm) for t in terms)):\n"
               "    self.terms = terms.copy()\nelse:\n    raise ValueError('PolyhedralTermList constructor argument must be "
               "a list of PolyhedralTerms.')")
    got_tl = "\n".join(ast.unparse(x) for x in tl_init.body)
    if [a.arg for a in tl_init.args.args] != ["self", "terms"] or got_tl != want_tl or "__new__" in ptlm:
        raise Unsupported("PolyhedralTermList.__init__ is expected to store a copy of a list of PolyhedralTerms "
                          f"(got: {got_tl[:120]!r})")
    assumptions.append("json: PolyhedralTermList(l) with l a list of PolyhedralTerm objects built by a comprehension "
                       "is l (checked: __init__ stores terms.copy() when every element is a PolyhedralTerm; value model: "
                       "copy is the identity); x.terms of a PolyhedralTermList is that list")
    tsl = ptlm.get("to_str_list") or fail(ptl, "PolyhedralTermList.to_str_list missing")
    if [a.arg for a in tsl.args.args] != ["self"] or (ast.unparse(tsl.returns) if tsl.returns else None) != "List[str]":
        raise Unsupported("signature of PolyhedralTermList.to_str_list")

    # ---------------- polyhedral_iocontract.py
    cmod = mods["pc"]
    want_imports(cmod, "polyhedral_iocontract.py",
                 [("IoContract", "pacti.iocontract.IoContract"), ("Var", "pacti.iocontract.Var"),
                  ("serializer", "pacti.terms.polyhedra.serializer"),
                  ("PolyhedralTerm", "pacti.terms.polyhedra.polyhedra.PolyhedralTerm"),
                  ("PolyhedralTermList", "pacti.terms.polyhedra.polyhedra.PolyhedralTermList"),
                  ("IoContractCompound", "pacti.iocontract.IoContractCompound")])
    n_no_redefinition(cmod, BUILTINS + ["IoContract", "serializer", "PolyhedralTerm", "PolyhedralTermList"],
                      ["PolyhedralIoContract", "PolyhedralIoContractCompound"])
    pcc, pkc = class_def(cmod, "PolyhedralIoContract"), class_def(cmod, "PolyhedralIoContractCompound")
    if [ast.unparse(b) for b in pcc.bases] != ["IoContract"] or pcc.keywords or pcc.decorator_list \
            or [ast.unparse(b) for b in pkc.bases] != ["IoContractCompound"] or pkc.keywords or pkc.decorator_list:
        raise Unsupported("bases of PolyhedralIoContract / PolyhedralIoContractCompound")
    kcc = class_def(mods["compound"], "IoContractCompound")
    if any("IoContract" == ast.unparse(b) for b in kcc.bases):
        raise Unsupported("IoContractCompound derives from IoContract")
    pcm, pkm = class_methods(pcc, "PolyhedralIoContract"), class_methods(pkc, "PolyhedralIoContractCompound")
    for m in ("__init__", "__new__"):
        if m in pcm:
            raise Unsupported(f"PolyhedralIoContract.{m} is defined (PolyhedralIoContract(...) would no longer be "
                              "IoContract.__init__)")
    for m in ("to_machine_dict", "to_dict", "from_dict", "from_strings"):
        if m not in pcm:
            raise Unsupported(f"PolyhedralIoContract.{m} missing")
    for m in ("from_strings", "to_dict"):
        if m not in pkm:
            raise Unsupported(f"PolyhedralIoContractCompound.{m} missing")
    for cls, ms, m, deco in (("PolyhedralIoContract", pcm, "to_machine_dict", []), ("PolyhedralIoContract", pcm, "to_dict", []),
                             ("PolyhedralIoContract", pcm, "from_dict", ["staticmethod"]),
                             ("PolyhedralIoContract", pcm, "from_strings", ["staticmethod"]),
                             ("PolyhedralIoContractCompound", pkm, "from_strings", ["staticmethod"]),
                             ("PolyhedralIoContractCompound", pkm, "to_dict", [])):
        if [ast.unparse(x) for x in ms[m].decorator_list] != deco:
            raise Unsupported(f"decorators of {cls}.{m}")
    # f(**d): the parameter names and defaults of the two from_strings
    kw_ctx = []
    for cls, ms in (("PolyhedralIoContract", pcm), ("PolyhedralIoContractCompound", pkm)):
        req, opt = [], []
        for a, d in plain_args(ms["from_strings"], f"{cls}.from_strings"):
            if d is None:
                if opt:
                    fail(a, "parameter without default after one with a default")
                req.append(a.arg)
            elif isinstance(d, ast.Constant) and isinstance(d.value, bool):
                opt.append((a.arg, f"(JBool {'true' if d.value else 'false'})"))
            else:
                fail(a, f"default value of {cls}.from_strings")
        coq = f"{cls}_from_strings"
        w.kw_callees[f"pc.{cls}.from_strings"] = (coq, req, opt, "ANY")
        kw_ctx.append((coq, len(req) + len(opt), cls, req, opt))
    assumptions.append("json: PolyhedralIoContract.from_strings / PolyhedralIoContractCompound.from_strings (string "
                       "parsing: model/ParseAll.v) are section parameters; f(**d) binds the keyword arguments by the "
                       "parameter names and defaults READ from their signatures (call_kwargs: TypeError on an unknown "
                       "or a missing name)")
    w.aliases = {"Var": "iocontract.Var", "serializer": "serializer", "PolyhedralTerm": "polyhedra.PolyhedralTerm",
                 "PolyhedralTermList": "polyhedra.PolyhedralTermList", "PolyhedralIoContract": "pc.PolyhedralIoContract"}
    w.exceptions = {"ValueError"}
    w.callees["polyhedra.PolyhedralTerm"] = pt_c
    w.callees["pc.PolyhedralIoContract"] = init_c
    tsl_c = Callee("to_str_list", [], ("L", "S"), False)
    w.methods[("TL", "to_str_list")] = tsl_c
    assumptions.append("json: PolyhedralTermList.to_str_list (the string printer: model/Printer.v) is the section "
                       "parameter to_str_list")
    for pyname, static in (("to_machine_dict", False), ("to_dict", False), ("from_dict", True)):
        f = pcm[pyname]
        segs.append(ast.get_source_segment(text["pc"], f) or "")
        strip_doc(f)
        no_inner_rebinding(f, set(BUILTINS) | set(w.aliases), "polyhedral_iocontract.py")
        params, msg, names, rtype = signature(f, "polyhedral_iocontract.py", skip_self=not static)
        coq = "PolyhedralIoContract_" + pyname
        d, mon = define(w, f, coq, f"PolyhedralIoContract.{pyname}", params, msg, rtype, assumptions,
                        selfparam=None if static else ("self", "C"))
        out_defs += d
        c = Callee(coq, params, rtype, mon, msg_params=msg)
        c.all_names = names
        if static:
            w.callees["pc.PolyhedralIoContract." + pyname] = c
        else:
            w.methods[("C", pyname)] = c
    ktd = pkm["to_dict"]
    if [a.arg for a in ktd.args.args] != ["self"]:
        raise Unsupported("signature of PolyhedralIoContractCompound.to_dict")
    w.methods[("K", "to_dict")] = Callee("PolyhedralIoContractCompound_to_dict", [], "J", False)

    # ---------------- fileio.py
    fmod = mods["fileio"]
    want_imports(fmod, "fileio.py", [("json", "json"), ("os", "os"), ("iocontract", "pacti.iocontract"),
                                     ("PolyhedralIoContract", "pacti.contracts.PolyhedralIoContract"),
                                     ("PolyhedralIoContractCompound", "pacti.contracts.PolyhedralIoContractCompound"),
                                     ("polyhedra", "pacti.terms.polyhedra"),
                                     ("ContractFormatError", "pacti.utils.errors.ContractFormatError")])
    n_no_redefinition(fmod, BUILTINS + ["json", "os", "polyhedra", "PolyhedralIoContract", "PolyhedralIoContractCompound",
                                        "ContractFormatError"], [])
    cinit = open(f"{src}/contracts/__init__.py").read()
    if "from .polyhedral_iocontract import PolyhedralIoContract, PolyhedralIoContractCompound" not in cinit.splitlines():
        raise Unsupported("pacti/contracts/__init__.py is expected to re-export the two classes of polyhedral_iocontract.py")
    pinit_txt = open(f"{src}/terms/polyhedra/__init__.py").read()
    if not any(l.startswith("from .serializer import ") for l in pinit_txt.splitlines()):
        raise Unsupported("pacti/terms/polyhedra/__init__.py is expected to import its submodule serializer")
    w.aliases = {"polyhedra.serializer": "serializer", "PolyhedralIoContract": "pc.PolyhedralIoContract",
                 "PolyhedralIoContractCompound": "pc.PolyhedralIoContractCompound"}
    w.exceptions = {"ContractFormatError", "ValueError"}
    del w.callees["pc.PolyhedralIoContract"]          # fileio.py never calls the constructor directly
    reserved = set(BUILTINS) | {"json", "os", "polyhedra", "PolyhedralIoContract", "PolyhedralIoContractCompound",
                                "ContractFormatError", "iocontract"}
    # read_contracts_from_file: the I/O prologue is the boundary
    f = fun_def(fmod, "read_contracts_from_file", "fileio.py")
    segs.append(ast.get_source_segment(text["fileio"], f) or "")
    strip_doc(f)
    if [a.arg for a, _ in plain_args(f, "fileio.py")] != ["file_name"] or len(f.body) < 3:
        raise Unsupported("signature of read_contracts_from_file")
    s0, s1 = f.body[0], f.body[1]
    ok0 = isinstance(s0, ast.If) and ast.unparse(s0.test) == "not os.path.isfile(file_name)" and not s0.orelse \
        and len(s0.body) == 1 and isinstance(s0.body[0], ast.Raise) and isinstance(s0.body[0].exc, ast.Call) \
        and ast.unparse(s0.body[0].exc.func) == "ValueError"
    ok1 = isinstance(s1, ast.With) and len(s1.items) == 1 and ast.unparse(s1.items[0].context_expr) == "open(file_name)" \
        and isinstance(s1.items[0].optional_vars, ast.Name) and len(s1.body) == 1 and isinstance(s1.body[0], ast.Assign) \
        and len(s1.body[0].targets) == 1 and isinstance(s1.body[0].targets[0], ast.Name) \
        and ast.unparse(s1.body[0].value) == f"json.load({s1.items[0].optional_vars.id})"
    if not (ok0 and ok1):
        raise Unsupported("read_contracts_from_file is expected to start with the path check and "
                          "`with open(file_name) as f: <data> = json.load(f)`")
    data_name = s1.body[0].targets[0].id
    body = list(f.body[2:])
    for n in ast.walk(ast.Module(body=body, type_ignores=[])):
        if isinstance(n, ast.Name) and n.id in {"file_name", s1.items[0].optional_vars.id}:
            fail(n, "use of the file name / file object after the I/O prologue")
        if isinstance(n, ast.Name) and n.id == data_name and isinstance(n.ctx, ast.Store):
            fail(n, f"{data_name} is rebound")
        if isinstance(n, ast.With):
            fail(n, "with statement after the I/O prologue")
    no_inner_rebinding(f, reserved, "fileio.py")
    assumptions.append("fileio.read_contracts_from_file: the path check (ValueError when the path is not a file), open "
                       f"and json.load are the I/O boundary; the translated function takes the loaded value `{data_name}`")
    assumptions.append("fileio.read_contracts_from_file: List[Any] is the sum type `loaded` of model/Json.v; a "
                       "PolyhedralIoContract is injected by LMachine, what the two from_strings return is the section "
                       "parameters' business")
    d, mon = define(w, f, "fileio_read_contracts_from_file", "fileio.read_contracts_from_file", [(data_name, "J", None)],
                    [], ("P", ("L", "ANY"), ("L", "J")), assumptions, body=body,
                    pysig=f"def read_contracts_from_file(file_name)  [after json.load: {data_name}]")
    out_defs += d
    # write_contracts_to_file: the I/O epilogue is the boundary
    f = fun_def(fmod, "write_contracts_to_file", "fileio.py")
    segs.append(ast.get_source_segment(text["fileio"], f) or "")
    strip_doc(f)
    pairs = plain_args(f, "fileio.py")
    if [(a.arg, ast.unparse(a.annotation) if a.annotation else None, ast.unparse(d_) if d_ is not None else None)
            for a, d_ in pairs] != [("contracts", "List[iocontract.IoContract]", None), ("names", "List[str]", None),
                                    ("file_name", "str", None), ("machine_representation", "bool", "False")] \
            or len(f.body) < 2:
        raise Unsupported("signature of write_contracts_to_file")
    last = f.body[-1]
    okw = isinstance(last, ast.With) and len(last.items) == 1 \
        and ast.unparse(last.items[0].context_expr) == "open(file_name, 'w')" \
        and isinstance(last.items[0].optional_vars, ast.Name) and len(last.body) == 1 \
        and isinstance(last.body[0], ast.Expr) and isinstance(last.body[0].value, ast.Call)
    dumped = None
    if okw:
        call = last.body[0].value
        fo = last.items[0].optional_vars.id
        if ast.unparse(call.func) == f"{fo}.write" and len(call.args) == 1 and not call.keywords \
                and isinstance(call.args[0], ast.Call) and ast.unparse(call.args[0].func) == "json.dumps" \
                and len(call.args[0].args) == 1 and isinstance(call.args[0].args[0], ast.Name) \
                and all(k.arg == "indent" for k in call.args[0].keywords):
            dumped = call.args[0].args[0].id
    if dumped is None:
        raise Unsupported("write_contracts_to_file is expected to end with "
                          "`with open(file_name, 'w') as f: f.write(json.dumps(<data>, indent=...))`")
    body = list(f.body[:-1]) + [ast.copy_location(ast.Return(value=ast.copy_location(ast.Name(id=dumped, ctx=ast.Load()), last)), last)]
    for n in ast.walk(ast.Module(body=list(f.body[:-1]), type_ignores=[])):
        if isinstance(n, ast.Name) and n.id == "file_name":
            fail(n, "use of the file name before the I/O epilogue")
        if isinstance(n, (ast.With, ast.Return)):
            fail(n, "with / return before the I/O epilogue")
    no_inner_rebinding(f, reserved, "fileio.py")
    assumptions.append("fileio.write_contracts_to_file: open / json.dumps / write are the I/O boundary; the translated "
                       f"function returns the value `{dumped}` handed to json.dumps")
    wparams = [("contracts", ("L", "AC"), None), ("names", ("L", "S"), None), ("machine_representation", "B", pairs[3][1])]
    d, mon = define(w, f, "fileio_write_contracts_to_file", "fileio.write_contracts_to_file", wparams, ["file_name"], "J",
                    assumptions, body=body,
                    pysig="def write_contracts_to_file(contracts, names, file_name, machine_representation=False)  "
                          f"[returns {dumped}, the argument of json.dumps]")
    out_defs += d

    # ---------------- the file
    sha = hashlib.sha256("\n".join(segs).encode()).hexdigest()
    ctx_lines = ""
    for coq, n, cls, req, opt in kw_ctx:
        ctx_lines += (f"(* {cls}.from_strings({', '.join(req + [k + '=' + d_ for k, d_ in opt])}): not translated "
                      "(string parsing) *)\n"
                      f"Context ({coq} : {' -> '.join(['json'] * n)} -> M loaded).\n")
    header = (
        "(* GENERATED by /verif/translator/py2coq_json.py (run by py2coq.py) — do not edit.\n"
        "   from src/pacti/terms/polyhedra/serializer.py (_is_number, _check_clause, validate_contract_dict),\n"
        "        src/pacti/terms/polyhedra/polyhedra.py (PolyhedralTerm.__init__ over dynamically typed values),\n"
        "        src/pacti/contracts/polyhedral_iocontract.py (PolyhedralIoContract.to_machine_dict, to_dict, from_dict),\n"
        "        src/pacti/utils/fileio.py (read_contracts_from_file, write_contracts_to_file minus the file I/O)\n"
        f"   sha256 of the translated function sources: {sha}\n"
        "   vocabulary: base/PyJson.v (operations on values of unknown type: the [json] of model/Json.v), base/PyDict.v and\n"
        "   base/PyLoop.v (loops, enumerate, py_all).  Monadic (M _) exactly where the body contains an operation that may\n"
        "   raise.  Exception messages, print and logging are dropped; exception TYPES are kept. *)\n"
        "From Coq Require Import List String Bool QArith Arith.\nImport ListNotations.\n"
        "Require Import Py Sem PyDict PyLoop Term Json PyJson.\nOpen Scope py_scope.\nLocal Open Scope string_scope.\n\n"
        "Section JsonGen.\n"
        "(* float(s) of a str and str(x) of a non-str: parameters, as in model/Json.v *)\n"
        "Context (s2f : string -> option Q) (pstr : json -> string).\n"
        "(* IoContract.__init__(assumptions, guarantees, input_vars, output_vars, simplify): gen/AlgebraGen.v *)\n"
        "Context (contract_init : list pterm -> list pterm -> list var -> list var -> bool -> M pcontract).\n"
        "(* PolyhedralTermList.to_str_list: model/Printer.v *)\n"
        "Context (to_str_list : list pterm -> list string).\n"
        + ctx_lines +
        "(* PolyhedralIoContractCompound objects and their to_dict *)\n"
        "Context {K : Type} (PolyhedralIoContractCompound_to_dict : K -> json).\n\n")
    return header + out_defs + "End JsonGen.\n", sorted(set(assumptions))


if __name__ == "__main__":
    txt, ass = gen_json(sys.argv[1])
    sys.stdout.write(txt)
    for a in ass:
        sys.stderr.write("assumption: " + a + "\n")
