#!/usr/bin/env python3
"""T1 generator for the LP / numpy part of pacti.terms.polyhedra.polyhedra -> coq/gen/PolyGen.v, over the vocabularies
of coq/base/PyDict.v, PyLoop.v, PyTermList.v and PyNumpy.v.  proofs/PolyGen*.v prove every generated function EQUAL to
the hand model of model/Poly.v (the oracle O instantiates the one abstract primitive np_linprog).

Translated: PolyhedralTerm.term_to_polytope, PolyhedralTerm.polytope_to_term, TermList.__sub__ (inherited),
PolyhedralTermList.termlist_to_polytope, polytope_to_termlist, reduce_polytope, simplify, is_polytope_empty, is_empty,
verify_polytope_containment, refines, optimize.  Called, not translated here: the PolyhedralTerm methods of gen/TermGen.v
and __init__ / vars / copy / lacks_constraints of gen/TermListGen.v.

Fail closed: anything outside the subset raises Unsupported, and py2coq.main poisons gen/PolyGen.v only.
"""
from __future__ import annotations

import ast
import hashlib
import os
import re
import sys
from typing import List, Tuple

_main = sys.modules.get("__main__")
if _main is not None and os.path.basename(getattr(_main, "__file__", "") or "") == "py2coq.py" and hasattr(_main, "NFn"):
    P = _main
else:                                                                        # pragma: no cover
    import py2coq as P
import py2coq_termlist as T

Unsupported, fail, check_message_total, qlit, strip_doc, class_def = \
    P.Unsupported, P.fail, P.check_message_total, P.qlit, P.strip_doc, P.class_def
COQ_KEYWORDS, ERRKIND = P.COQ_KEYWORDS, P.ERRKIND

PTL, PT = "PolyhedralTermList", "PolyhedralTerm"

# ---------------------------------------------------------------- types
# V var, LV list var, F float, LF list of floats, LLF list of lists of floats, N int that counts / indexes, LN list
# of such ints (also a .shape), B bool, T term, LT python list of terms, TL PolyhedralTermList object (= its list of
# terms), D dict Var->float, ARR numpy array of floats, BARR numpy array of bools, RES linprog result, O<x> Optional
COQTY = {
    "V": "var", "LV": "list var", "F": "Q", "LF": "list Q", "LLF": "list (list Q)", "N": "nat", "LN": "list nat",
    "B": "bool", "T": "pterm", "LT": "list pterm", "TL": "list pterm", "OTL": "option (list pterm)", "D": "pvars",
    "ARR": "ndarray", "OARR": "option ndarray", "BARR": "barray", "RES": "lp_result", "OF": "option Q",
    "OLF": "option (list Q)", "OLT": "option (list pterm)",
}
ELEM = {"LV": "V", "LF": "F", "LLF": "LF", "LN": "N", "LT": "T"}
LISTOF = {v: k for k, v in ELEM.items()}
OPT = {"OTL": "TL", "OARR": "ARR", "OF": "F", "OLF": "LF", "OLT": "LT"}
MUTABLE = {"LV", "LF", "LLF", "LN", "LT", "D", "ARR", "BARR"}
ANNOT = {
    "PolyhedralTermList": "TL", "PolyhedralTerm": "T", "np.ndarray": "ARR", "Optional[np.ndarray]": "OARR",
    "List[Var]": "LV", "List[numeric]": "LF", "numeric": "F", "bool": "B", "Dict[Var, numeric]": "D",
    "Optional[PolyhedralTermList]": "OTL", "TermList_t": "TL", "float": "F", "int": "N",
}


def TUP(*parts):
    return ("TUP", tuple(parts))


RANNOT = {
    "PolyhedralTermList": "TL", "TermList_t": "TL", "bool": "B", "PolyhedralTerm": "T", "Optional[numeric]": "OF",
    "Tuple[List[numeric], numeric]": TUP("LF", "F"),
    "Tuple[List[Var], np.ndarray, np.ndarray, np.ndarray, np.ndarray]": TUP("LV", "ARR", "ARR", "ARR", "ARR"),
    "Tuple[np.ndarray, np.ndarray]": TUP("ARR", "ARR"),
}
POLY_T = TUP("LV", "ARR", "ARR", "ARR", "ARR")
VOCAB = {
    # Coq
    "fst", "snd", "map", "filter", "length", "app", "nil", "cons", "repeat", "combine", "nth", "seq", "rev", "concat",
    "fold_left", "fold_right", "existsb", "forallb", "negb", "andb", "orb", "true", "false", "Some", "None", "S", "O",
    "pair", "tt", "unit", "Q", "Z", "nat", "bool", "list", "option", "string", "inl", "inr", "plus", "mult", "pred",
    # Py.v
    "M", "ret", "raise", "bind", "err", "var", "py_eqb", "py_in", "nonempty", "opt_list", "is_none", "len", "has_dup",
    "ValueErr", "IncompatibleArgs", "Escape", "OracleMiss", "term", "stats", "try_value_error",
    # Sem / PyDict / PyLoop / PyTermList
    "pterm", "pvars", "tvars", "tconst", "mkT", "qzero", "qadd", "qsub", "qmul", "qdiv", "qneg", "qabs", "qle", "qlt",
    "qge", "qgt", "q_eqb", "q_neb", "py_float", "py_div", "assoc", "has_key", "dict_set", "dict_pop", "keys",
    "dict_empty", "dict_keys", "py_list", "dict_get", "Continue", "Break", "for_list", "for_list_m", "for_items",
    "for_items_m", "ctl", "enumerate", "map_m", "filter_m", "py_in_m", "list_intersection_m", "list_diff_m",
    "list_union_m", "list_get_m", "list_set_m", "py_range", "py_list_copy", "py_num", "py_deref", "try_except",
    "list_union", "list_diff", "list_intersection", "matrix", "vector", "Var",
    # PyNumpy.v
    "ndarr", "ndarray", "barray", "A1", "A2", "same_len", "wf_arr", "np_array_1d", "np_array_2d", "np_zeros_2d",
    "np_copy", "np_shape", "np_len", "np_size", "py_unpack2", "remove_nth", "np_row", "np_index_arr", "np_item",
    "np_row_list", "np_rows", "np_take", "np_setitem", "np_delete_axis0", "np_delete_flat", "np_concatenate", "np_map",
    "np_scale", "np_add_scalar", "np_sub_scalar", "np_neg", "np_abs", "np_div_scalar", "np_flat", "np_max", "np_lt",
    "np_le", "np_gt", "np_ge", "np_eq", "np_ne", "np_any", "np_all", "np_invert", "np_rtol", "np_atol", "np_isclose",
    "np_isclose_arr", "np_array_equal", "np_where", "py_nat_sub", "while_m", "lp_result", "mkRes", "res_status",
    "res_fun", "res_x", "res_slack", "LPSolver", "np_linprog", "REFINEMENT_TOLERANCE", "lp_vars",
}
# calls that build a new object and keep no reference to their arguments
NON_RETAINING = {"len", "list", "range", "enumerate", "abs", "float", "isinstance", "linprog", "list_union",
                 "list_diff", "list_intersection"}


class NumTV:
    """type of an int literal until a typed use fixes it: F or N"""

    def __init__(self):
        self.t = None


class ListTV:
    """type of an empty list literal until a typed use fixes it"""

    def __init__(self):
        self.t = None


def rt(t):
    while isinstance(t, (NumTV, ListTV)) and t.t is not None:
        t = t.t
    if isinstance(t, tuple) and t[0] == "TUP":
        return ("TUP", tuple(rt(x) for x in t[1]))
    return t


def is_open(t):
    return isinstance(rt(t), (NumTV, ListTV))


def is_tup(t):
    t = rt(t)
    return isinstance(t, tuple) and t[0] == "TUP"


def show(t):
    t = rt(t)
    if is_tup(t):
        return "(" + ", ".join(show(x) for x in t[1]) + ")"
    if isinstance(t, NumTV):
        return "<int literal>"
    if isinstance(t, ListTV):
        return "<empty list>"
    return str(t)


def coq_type(t) -> str:
    t = rt(t)
    if is_tup(t):
        return "(" + " * ".join(coq_type(x) for x in t[1]) + ")"
    if not isinstance(t, str) or t not in COQTY:
        raise Unsupported(f"a value whose type was never fixed or cannot be rendered: {show(t)}")
    return COQTY[t]


def cid(name: str) -> str:
    if re.match(r"^[a-z]_\d+$", name) or name.endswith("_") or name.startswith((PTL + "_", PT + "_", "np_", "py_")):
        raise Unsupported(f"local name {name} collides with generated names")
    if name in COQ_KEYWORDS or name in VOCAB:
        return name + "_"
    return name


LITMARK = "\x01"
JOINMARK = "\x02"


class Ctx:
    """what falling off the end / break / continue / return mean where a block is translated"""

    def __init__(self, fall, brk=None, cont=None, ret=None):
        self.fall, self.brk, self.cont, self.ret = fall, brk, cont, ret


class World:
    def __init__(self):
        self.term_sigs = {}     # PolyhedralTerm method -> (coq, monadic, params, rtype)   (gen/TermGen.v)
        self.tl = {}            # PolyhedralTermList helper -> (coq, monadic, params, rtype)   (gen/TermListGen.v)
        self.funs = {}          # (class, name) -> (coq, params, rtype, static, ghost)    generated here
        self.consts = {}        # module constant -> (coq, type)


class PFn:
    """Translate one function.  Every generated function is monadic."""

    def __init__(self, w: World, cls: str, fdef: ast.FunctionDef, rtype, assumptions: List[str], ghost: bool):
        self.w, self.cls, self.f, self.rtype, self.assumptions, self.ghost = w, cls, fdef, rtype, assumptions, ghost
        self.tmp = 0
        self.gid = 0
        self.lits = []
        self.joins = {}
        self.where = f"{cls}.{fdef.name}"

    # ---------------------------------------------------------------- helpers
    def fresh(self, base="t"):
        self.tmp += 1
        return f"{base}_{self.tmp}"

    def lit(self, value):
        tv = NumTV()
        self.lits.append((value, tv))
        return f"{LITMARK}{len(self.lits) - 1}{LITMARK}", tv

    def render_literals(self, text):
        def repl(m):
            value, tv = self.lits[int(m.group(1))]
            t = rt(tv)
            if t == "F":
                return qlit(value) + "%Q"
            if t == "N":
                if value < 0 or value > 5000:
                    raise Unsupported(f"{self.where}: int literal {value} used as a count or an index")
                return f"{value}%nat"
            raise Unsupported(f"{self.where}: int literal {value} whose kind (float / count) is never fixed by a use")
        return re.sub(LITMARK + r"(\d+)" + LITMARK, repl, text)

    def same(self, t1, t2, node, what="types"):
        a, b = rt(t1), rt(t2)
        if isinstance(a, NumTV):
            if isinstance(b, NumTV):
                if a is not b:
                    a.t = b
                return b
            if b not in ("F", "N"):
                fail(node, f"{what}: an int literal used at type {show(b)}")
            a.t = b
            return b
        if isinstance(b, NumTV):
            return self.same(t2, t1, node, what)
        if isinstance(a, ListTV):
            if isinstance(b, ListTV):
                if a is not b:
                    a.t = b
                return b
            if b not in ELEM:
                fail(node, f"{what}: an empty list literal used at type {show(b)}")
            a.t = b
            return b
        if isinstance(b, ListTV):
            return self.same(t2, t1, node, what)
        if is_tup(a) and is_tup(b) and len(a[1]) == len(b[1]):
            return ("TUP", tuple(self.same(x, y, node, what) for x, y in zip(a[1], b[1])))
        if a != b:
            fail(node, f"{what}: {show(a)} vs {show(b)}")
        return a

    def coerce(self, c, t, want, node, what):
        r, want = rt(t), rt(want)
        if isinstance(want, (NumTV, ListTV)):
            self.same(t, want, node, what)
            return c
        if isinstance(r, NumTV):
            if want == "OF":
                self.same(t, "F", node, what)
                return f"(Some {c})"
            self.same(t, want, node, what)
            return c
        if isinstance(r, ListTV):
            if want in OPT and OPT[want] in ELEM:
                self.same(t, OPT[want], node, what)
                return f"(Some {c})"
            if want == "TL":
                want = "LT"
            self.same(t, want, node, what)
            return c
        if r == want:
            return c
        if is_tup(r) and is_tup(want) and len(r[1]) == len(want[1]):
            self.same(r, want, node, what)
            return c
        if isinstance(want, str) and want in OPT:
            if r == "NONE":
                return "None"
            if r == OPT[want] or (OPT[want] == "TL" and r == "LT"):
                return f"(Some {c})"
        if (r, want) in {("LT", "TL"), ("TL", "LT")}:
            fail(node, f"{what}: a PolyhedralTermList object and a list of terms are different Python objects")
        fail(node, f"{what}: expected {show(want)}, got {show(r)}")

    def truth(self, c, t, node):
        t = rt(t)
        if t == "B":
            return c
        if t in ELEM or t == "D" or isinstance(t, ListTV):
            return f"(nonempty {c})"
        if t == "OTL":
            self.assumptions.append(f"{PTL}: truthiness of an Optional[{PTL}] is `is not None` (checked: neither {PTL} nor "
                                    "TermList defines __bool__ / __len__)")
            return f"(negb (is_none {c}))"
        fail(node, f"truthiness of a value of type {show(t)}")

    # ---------------------------------------------------------------- ownership (in-place updates as rebinding)
    # env["%grp"]: name -> group id of the mutable object it refers to; env["%fresh"]: groups whose object was built by
    # this function and has not been handed to anything that may keep it; env["%stale"]: names whose object has been
    # updated in place through another name since (the value model would still show the old contents)
    @staticmethod
    def grp(env):
        return env.get("%grp", {})

    def new_group(self, env, name, fresh):
        env2 = dict(env)
        g = dict(self.grp(env))
        self.gid += 1
        g[name] = self.gid
        env2["%grp"] = g
        fr = set(env.get("%fresh", frozenset()))
        if fresh:
            fr.add(self.gid)
        env2["%fresh"] = frozenset(fr)
        env2["%stale"] = frozenset(set(env.get("%stale", frozenset())) - {name})
        return env2

    def join_group(self, env, name, other):
        env2 = dict(env)
        g = dict(self.grp(env))
        if other not in g:
            self.gid += 1
            g[other] = self.gid
        g[name] = g[other]
        env2["%grp"] = g
        env2["%stale"] = frozenset(set(env.get("%stale", frozenset())) - {name})
        return env2

    def drop_group(self, env, name):
        env2 = dict(env)
        g = dict(self.grp(env))
        g.pop(name, None)
        env2["%grp"] = g
        env2["%stale"] = frozenset(set(env.get("%stale", frozenset())) - {name})
        return env2

    def unfresh(self, env, name):
        g = self.grp(env).get(name)
        if g is None or g not in env.get("%fresh", frozenset()):
            return env
        env2 = dict(env)
        env2["%fresh"] = frozenset(set(env["%fresh"]) - {g})
        return env2

    def update_in_place(self, env, name, node, what):
        g = self.grp(env).get(name)
        if g is None or g not in env.get("%fresh", frozenset()):
            fail(node, f"in-place {what} of `{name}`, which is not known to be an object built by this function that "
                       "nothing else may refer to (a parameter or a shared object would be mutated)")
        others = {n for n, k in self.grp(env).items() if k == g and n != name}
        env2 = dict(env)
        env2["%stale"] = frozenset(set(env.get("%stale", frozenset())) | others)
        return env2

    def escaped(self, env, node):
        """env after evaluating node: mutable locals handed to a call that may keep them, or stored in a tuple / list
        display (other than the argument display of a numpy call), are no longer exclusively owned"""
        out = [env]

        def non_retaining(f):
            if isinstance(f, ast.Name) and f.id in NON_RETAINING:
                return True
            return isinstance(f, ast.Attribute) and isinstance(f.value, ast.Name) and f.value.id == "np"

        def visit(n, safe):
            if isinstance(n, ast.Call):
                ok = non_retaining(n.func)
                visit(n.func, False)
                for a in list(n.args) + [k.value for k in n.keywords]:
                    if isinstance(a, ast.Name):
                        if not ok:
                            out[0] = self.unfresh(out[0], a.id)
                    else:
                        visit(a, ok)
            elif isinstance(n, (ast.Tuple, ast.List)) and isinstance(n.ctx, ast.Load):
                for a in n.elts:
                    if isinstance(a, ast.Name):
                        if not safe:
                            out[0] = self.unfresh(out[0], a.id)
                    else:
                        visit(a, safe)
            else:
                for c in ast.iter_child_nodes(n):
                    visit(c, False)
        visit(node, False)
        return out[0]

    def meet(self, env, envs):
        """ownership after a join / a loop: an object is fresh only if it is fresh on every path; two names may alias
        if they alias on some path; stale if stale on some path.  Names not known on every path lose their group."""
        if not envs:
            return env
        common = set(self.grp(envs[0]))
        for e in envs[1:]:
            common &= set(self.grp(e))
        parent = {n: n for n in common}

        def find(n):
            while parent[n] != n:
                n = parent[n]
            return n
        for e in envs:
            g = self.grp(e)
            by = {}
            for n in sorted(common):
                by.setdefault(g[n], []).append(n)
            for ns in by.values():
                for n in ns[1:]:
                    parent[find(n)] = find(ns[0])
        g3, fresh, stale = {}, set(), set()
        roots = {}
        for n in sorted(common):
            r = find(n)
            if r not in roots:
                self.gid += 1
                roots[r] = self.gid
            g3[n] = roots[r]
        for r, gid in roots.items():
            members = [n for n in common if find(n) == r]
            if all(self.grp(e)[n] in e.get("%fresh", frozenset()) for e in envs for n in members):
                fresh.add(gid)
        for e in envs:
            stale |= set(e.get("%stale", frozenset()))
        env2 = dict(env)
        env2["%grp"], env2["%fresh"], env2["%stale"] = g3, frozenset(fresh), frozenset(n for n in stale if n in env)
        return env2

    @staticmethod
    def own_key(env):
        g = env.get("%grp", {})
        fr = env.get("%fresh", frozenset())
        part = sorted((tuple(sorted(m for m in g if g[m] == g[n])), g[n] in fr) for n in g)
        return (tuple(part), tuple(sorted(env.get("%stale", frozenset()))))

    def is_fresh_expr(self, value):
        if isinstance(value, (ast.List, ast.ListComp, ast.Dict, ast.BinOp, ast.UnaryOp)):
            return True
        if isinstance(value, ast.Call):
            f = value.func
            if isinstance(f, ast.Name) and f.id in {"list", "list_union", "list_diff", "list_intersection", "range"}:
                return True
            if isinstance(f, ast.Attribute) and isinstance(f.value, ast.Name) and f.value.id == "np":
                return True
            if isinstance(f, ast.Attribute) and f.attr == "copy":
                return True
        if isinstance(value, ast.Subscript) and isinstance(value.slice, ast.Tuple) and value.slice.elts \
                and isinstance(value.slice.elts[0], ast.List):
            return True          # fancy indexing copies
        return False

    # ---------------------------------------------------------------- emission
    @staticmethod
    def emit_binds(pre, body, ind):
        return "".join(f"{ind}{pat} <- {m} ;;\n" for pat, m in pre) + body

    @staticmethod
    def inline_m(pre, c):
        if pre and pre[-1][0] == c:
            return "".join(f"{n} <- {m} ;; " for n, m in pre[:-1]) + pre[-1][1]
        return "".join(f"{n} <- {m} ;; " for n, m in pre) + f"ret {c}"

    def bind_value(self, name, pre, c, ind):
        if pre and pre[-1][0] == c:
            return self.emit_binds(pre[:-1], "", ind) + self.emit_binds([(name, pre[-1][1])], "", ind)
        return self.emit_binds(pre, f"{ind}let {name} := {c} in\n", ind)

    def tuple_proj(self, c, n, k):
        pat = ", ".join(("x_" if i == k else "_") for i in range(n))
        return f"(let '({pat}) := {c} in x_)"

    # ---------------------------------------------------------------- expressions
    def tx(self, e, env, want=None):
        if isinstance(e, ast.Name):
            if e.id in env and not e.id.startswith("%"):
                if e.id in env.get("%stale", frozenset()):
                    fail(e, f"`{e.id}` is read after the object it refers to was updated in place through another name "
                            "(the value model would show its old contents)")
                return [], cid(e.id), env[e.id]
            if e.id in self.w.consts:
                return [], self.w.consts[e.id][0], self.w.consts[e.id][1]
            fail(e, "unbound name")
        if isinstance(e, ast.Constant):
            if e.value is True:
                return [], "true", "B"
            if e.value is False:
                return [], "false", "B"
            if e.value is None:
                return [], "None", "NONE"
            if isinstance(e.value, int):
                c, tv = self.lit(e.value)
                return [], c, tv
            if isinstance(e.value, float):
                return [], qlit(e.value) + "%Q", "F"
            fail(e, "constant")
        if isinstance(e, ast.List):
            if not e.elts:
                return [], "[]", ListTV()
            parts = [self.tx(v, env) for v in e.elts]
            ty = parts[0][2]
            for _, _, t in parts[1:]:
                ty = self.same(ty, t, e, "list display")
            if isinstance(rt(ty), ListTV):
                self.same(ty, "LF", e, "nested empty list display")      # [[]] : rows of floats
            if isinstance(rt(ty), NumTV):
                self.same(ty, "F", e, "list display of int literals")
            lt = LISTOF.get(rt(ty)) or fail(e, f"list display of {show(ty)}")
            return [b for p, _, _ in parts for b in p], "[" + "; ".join(c for _, c, _ in parts) + "]", lt
        if isinstance(e, ast.Set):
            if not e.elts or not all(isinstance(v, ast.Constant) and isinstance(v.value, int)
                                     and not isinstance(v.value, bool) and v.value >= 0 for v in e.elts):
                fail(e, "set display other than a set of non-negative int constants")
            self.assumptions.append(f"{self.where}: a set display of ints is a list (only `in` is applied to it)")
            return [], "[" + "; ".join(f"{v.value}%nat" for v in e.elts) + "]", "LN"
        if isinstance(e, ast.Dict):
            if e.keys:
                fail(e, "non-empty dict display")
            return [], "dict_empty", "D"
        if isinstance(e, ast.Attribute):
            return self.tx_attr(e, env)
        if isinstance(e, ast.Subscript):
            return self.tx_subscript(e, env, want)
        if isinstance(e, ast.Call):
            return self.tx_call(e, env, want)
        if isinstance(e, ast.BinOp):
            return self.tx_binop(e, env, want)
        if isinstance(e, ast.UnaryOp):
            return self.tx_unary(e, env)
        if isinstance(e, ast.BoolOp):
            parts = []
            for v in e.values:
                p, c, t = self.tx(v, env)
                parts.append((p, self.truth(c, t, v)))
            return self.short_circuit(parts, isinstance(e.op, ast.And))
        if isinstance(e, ast.Compare):
            return self.tx_compare(e, env)
        if isinstance(e, ast.Tuple) and isinstance(e.ctx, ast.Load):
            parts = [self.tx(v, env) for v in e.elts]
            return ([b for p, _, _ in parts for b in p], "(" + ", ".join(c for _, c, _ in parts) + ")",
                    ("TUP", tuple(t for _, _, t in parts)))
        fail(e, "expression form")

    def short_circuit(self, parts, is_and):
        if not any(p for p, _ in parts[1:]):
            op = " && " if is_and else " || "
            if len(parts) == 1:
                return parts[0][0], parts[0][1], "B"
            return parts[0][0], "(" + op.join(c for _, c in parts) + ")", "B"
        pn, cn = parts[-1]
        acc = self.inline_m(pn, cn)
        for p, c in reversed(parts[:-1]):
            inner = f"if {c} then ({acc}) else ret false" if is_and else f"if {c} then ret true else ({acc})"
            acc = "".join(f"{n} <- {m} ;; " for n, m in p) + inner
        tmp = self.fresh("b")
        return [(tmp, f"({acc})")], tmp, "B"

    def tx_attr(self, e, env):
        a = e.attr
        p, c, t = self.tx(e.value, env)
        t = rt(t)
        if t in ("ARR", "BARR"):
            if a == "shape":
                return p, f"(np_shape {c})", "LN"
            if a == "size":
                return p, f"(np_size {c})", "N"
        if t == "TL":
            if a == "terms":
                return p, c, "LT"
            if a == "vars":
                name, mon, _, rty = self.w.tl["vars"]
                return p, f"({name} {c})", "LV"
        if t == "T":
            if a == "vars":
                name, mon, _, rty = self.w.term_sigs["vars"]
                if mon or rty != "LV":
                    fail(e, f"{PT}.vars is expected to be pure")
                return p, f"({name} {c})", "LV"
            if a == "variables":
                return p, f"(tvars {c})", "D"
            if a == "constant":
                return p, f"(tconst {c})", "F"
        fail(e, f"attribute {a} of a value of type {show(t)}")

    def index_nat(self, e, env):
        p, c, t = self.tx(e, env)
        return p, self.coerce(c, t, "N", e, "index")

    def tx_subscript(self, e, env, want=None):
        if not isinstance(e.ctx, ast.Load):
            fail(e, "subscript context")
        p, c, t = self.tx(e.value, env)
        t = rt(t)
        sl = e.slice
        if t == "RES":
            fields = {"status": ("res_status", "N"), "fun": ("res_fun", "OF"), "x": ("res_x", "OLF"),
                      "slack": ("res_slack", "OLF")}
            if isinstance(sl, ast.Constant) and sl.value in fields:
                self.assumptions.append(f"{PTL}: res[\"status\"] / res[\"fun\"] / res[\"x\"] / res[\"slack\"] are fields of the "
                                        "record lp_result (an OptimizeResult returned by linprog always has these keys; fun, x, "
                                        "slack are None unless status == 0)")
                return p, f"({fields[sl.value][0]} {c})", fields[sl.value][1]
            fail(e, "field of the linprog result other than status / fun / x / slack")
        if is_tup(t):
            n = len(t[1])
            if not (isinstance(sl, ast.Constant) and isinstance(sl.value, int) and not isinstance(sl.value, bool)
                    and 0 <= sl.value < n):
                fail(e, "tuple index")
            return p, self.tuple_proj(c, n, sl.value), t[1][sl.value]
        if t == "ARR":
            if isinstance(sl, ast.Tuple):
                if len(sl.elts) != 2 or ast.unparse(sl.elts[1]) != ":":
                    fail(e, "array index other than a[i, :] / a[[i, ...], :]")
                first = sl.elts[0]
                if isinstance(first, ast.List):
                    pi, ci, ti = self.tx(first, env)
                    ci = self.coerce(ci, ti, "LN", e, "row index list")
                    tmp = self.fresh("t")
                    return p + pi + [(tmp, f"np_rows {c} {ci}")], tmp, "ARR"
                pi, ci = self.index_nat(first, env)
                tmp = self.fresh("t")
                return p + pi + [(tmp, f"np_row {c} {ci}")], tmp, "ARR"
            if isinstance(sl, ast.Slice):
                fail(e, "array slice")
            pi, ci, ti = self.tx(sl, env)
            tmp = self.fresh("t")
            if rt(ti) == "LN" or isinstance(sl, ast.List):
                ci = self.coerce(ci, ti, "LN", e, "index list")
                return p + pi + [(tmp, f"np_take {c} {ci}")], tmp, "ARR"
            ci = self.coerce(ci, ti, "N", e, "array index")
            if want == "ARR":
                return p + pi + [(tmp, f"np_index_arr {c} {ci}")], tmp, "ARR"
            if want == "LF":
                return p + pi + [(tmp, f"np_row_list {c} {ci}")], tmp, "LF"
            return p + pi + [(tmp, f"np_item {c} {ci}")], tmp, "F"
        if t in ELEM:
            if isinstance(sl, (ast.Slice, ast.Tuple)):
                fail(e, "list slice")
            pi, ci = self.index_nat(sl, env)
            tmp = self.fresh("t")
            return p + pi + [(tmp, f"list_get_m {c} {ci}")], tmp, ELEM[t]
        if t == "D":
            pk, ck, tk = self.tx(sl, env)
            if rt(tk) != "V":
                fail(e, f"dict key of type {show(tk)}")
            tmp = self.fresh("t")
            return p + pk + [(tmp, f"dict_get {c} {ck}")], tmp, "F"
        fail(e, f"subscript on a value of type {show(t)}")

    def num_arg(self, pre, c, t, node, what):
        """a scalar operand: an Optional float raises TypeError when None"""
        if rt(t) == "OF":
            tmp = self.fresh("t")
            return pre + [(tmp, f"py_num {c}")], tmp, "F"
        return pre, c, t

    def tx_unary(self, e, env):
        if isinstance(e.op, ast.Not):
            p, c, t = self.tx(e.operand, env)
            return p, f"(negb {self.truth(c, t, e)})", "B"
        if isinstance(e.op, ast.Invert):
            p, c, t = self.tx(e.operand, env)
            if rt(t) != "BARR":
                fail(e, "~ on something else than a boolean array")
            return p, f"(np_invert {c})", "BARR"
        if isinstance(e.op, ast.USub):
            o = e.operand
            if isinstance(o, ast.Constant) and isinstance(o.value, (int, float)) and not isinstance(o.value, bool):
                if isinstance(o.value, float):
                    return [], qlit(-o.value) + "%Q", "F"
                c, tv = self.lit(-o.value)
                return [], c, tv
            p, c, t = self.tx(o, env)
            if rt(t) == "ARR":
                return p, f"(np_neg {c})", "ARR"
            p, c, t = self.num_arg(p, c, t, e, "operand of unary minus")
            c = self.coerce(c, t, "F", e, "operand of unary minus")
            return p, f"(qneg {c})", "F"
        fail(e, "unary operator")

    def tx_binop(self, e, env, want=None):
        op = e.op
        # which operand is the array of an array-scalar product?
        lw = rw = None
        if want == "ARR" and isinstance(op, ast.Mult):
            def scalarish(x):
                if isinstance(x, ast.Constant) or (isinstance(x, ast.UnaryOp) and isinstance(x.operand, ast.Constant)):
                    return True
                return isinstance(x, ast.Name) and x.id in env and (is_open(env[x.id]) or rt(env[x.id]) in ("F", "N", "OF"))
            if scalarish(e.left) and not scalarish(e.right):
                rw = "ARR"
            elif scalarish(e.right) and not scalarish(e.left):
                lw = "ARR"
        (p1, c1, t1), (p2, c2, t2) = self.tx(e.left, env, lw), self.tx(e.right, env, rw)
        a, b = rt(t1), rt(t2)
        if a == "TL" and b == "TL" and isinstance(op, ast.Sub):
            return self.call_entry(e, self.w.funs[("TermList", "__sub__")], c1, [(p2, c2, t2)], {}, p1, env)
        if a == "ARR" or b == "ARR":
            if a == "ARR" and b == "ARR":
                fail(e, "arithmetic on two arrays")
            if a == "ARR":
                ps, cs, ts = self.num_arg(p1 + p2, c2, t2, e, "scalar operand")
                ca = c1
            else:
                if not isinstance(op, (ast.Mult, ast.Add)):
                    fail(e, "scalar on the left of a non-commutative array operation")
                ps, cs, ts = self.num_arg(p1 + p2, c1, t1, e, "scalar operand")
                ca = c2
            cs = self.coerce(cs, ts, "F", e, "scalar operand of an array operation")
            prim = {ast.Mult: "np_scale", ast.Add: "np_add_scalar", ast.Sub: "np_sub_scalar"}.get(type(op))
            if prim:
                return ps, f"({prim} {ca} {cs})", "ARR"
            if isinstance(op, ast.Div):
                tmp = self.fresh("t")
                return ps + [(tmp, f"np_div_scalar {ca} {cs}")], tmp, "ARR"
            fail(e, "array operator")
        pre = p1 + p2
        pre, c1, t1 = self.num_arg(pre, c1, t1, e, "operand")
        pre, c2, t2 = self.num_arg(pre, c2, t2, e, "operand")
        a, b = rt(t1), rt(t2)
        ok = lambda x: isinstance(x, NumTV) or x in {"F", "N"}  # noqa: E731
        if not (ok(a) and ok(b)):
            fail(e, f"binary operator on {show(a)}, {show(b)}")
        if isinstance(op, ast.Div):
            self.same(t1, "F", e)
            self.same(t2, "F", e)
            tmp = self.fresh("t")
            return pre + [(tmp, f"py_div {c1} {c2}")], tmp, "F"
        ty = rt(self.same(t1, t2, e, "operands"))
        if isinstance(ty, NumTV):
            if want in ("F", "N"):
                ty = self.same(ty, want, e)
            else:
                fail(e, "arithmetic on two int literals whose kind nothing fixes")
        if ty == "F":
            prim = {ast.Add: "qadd", ast.Sub: "qsub", ast.Mult: "qmul"}.get(type(op)) or fail(e, "float operator")
            return pre, f"({prim} {c1} {c2})", "F"
        if isinstance(op, ast.Add):
            return pre, f"(Nat.add {c1} {c2})", "N"
        if isinstance(op, ast.Mult):
            return pre, f"(Nat.mul {c1} {c2})", "N"
        if isinstance(op, ast.Sub):
            self.assumptions.append(f"{PTL}: ints that count or index are nat; a subtraction on them is py_nat_sub, which raises "
                                    "Escape \"NegativeCount\" when the Python int would become negative (the model does not follow it)")
            tmp = self.fresh("t")
            return pre + [(tmp, f"py_nat_sub {c1} {c2}")], tmp, "N"
        fail(e, "operator on counts")

    def tx_compare(self, e, env):
        if len(e.ops) != 1:
            fail(e, "chained comparison")
        op = e.ops[0]
        (p1, c1, t1), (p2, c2, t2) = self.tx(e.left, env), self.tx(e.comparators[0], env)
        pre = p1 + p2
        a, b = rt(t1), rt(t2)
        if isinstance(op, (ast.Is, ast.IsNot)):
            if b == "NONE" and isinstance(a, str) and a in OPT:
                r = f"(is_none {c1})"
                return pre, r if isinstance(op, ast.Is) else f"(negb {r})", "B"
            fail(e, f"`is` on {show(a)}, {show(b)}")
        if isinstance(op, (ast.In, ast.NotIn)):
            if b in ("LN", "LV"):
                c1 = self.coerce(c1, t1, ELEM[b], e, "`in`")
                r = f"(py_in {c1} {c2})"
                return pre, f"(negb {r})" if isinstance(op, ast.NotIn) else r, "B"
            fail(e, f"`in` on {show(a)}, {show(b)}")
        if a == "ARR":
            pre, c2, t2 = self.num_arg(pre, c2, t2, e, "scalar")
            c2 = self.coerce(c2, t2, "F", e, "scalar compared with an array")
            prim = {ast.Lt: "np_lt", ast.LtE: "np_le", ast.Gt: "np_gt", ast.GtE: "np_ge", ast.Eq: "np_eq",
                    ast.NotEq: "np_ne"}.get(type(op)) or fail(e, "array comparison")
            return pre, f"({prim} {c1} {c2})", "BARR"
        if b == "ARR":
            fail(e, "array on the right of a comparison")
        pre, c1, t1 = self.num_arg(pre, c1, t1, e, "operand")
        pre, c2, t2 = self.num_arg(pre, c2, t2, e, "operand")
        a, b = rt(t1), rt(t2)
        num = lambda x: isinstance(x, NumTV) or x in {"F", "N"}  # noqa: E731
        if num(a) and num(b):
            ty = rt(self.same(t1, t2, e, "comparison"))
            if isinstance(ty, NumTV):
                fail(e, "comparison of two int literals")
            if ty == "F":
                prim = {ast.Eq: "q_eqb", ast.NotEq: "q_neb", ast.Lt: "qlt", ast.LtE: "qle", ast.Gt: "qgt",
                        ast.GtE: "qge"}.get(type(op)) or fail(e, "comparison")
                return pre, f"({prim} {c1} {c2})", "B"
            r = {ast.Eq: f"(Nat.eqb {c1} {c2})", ast.NotEq: f"(negb (Nat.eqb {c1} {c2}))",
                 ast.Gt: f"(Nat.ltb {c2} {c1})", ast.Lt: f"(Nat.ltb {c1} {c2})",
                 ast.GtE: f"(Nat.leb {c2} {c1})", ast.LtE: f"(Nat.leb {c1} {c2})"}.get(type(op))
            return pre, r or fail(e, "comparison"), "B"
        if isinstance(op, (ast.Eq, ast.NotEq)) and a == b and a == "B":
            r = f"(Bool.eqb {c1} {c2})"
            return pre, f"(negb {r})" if isinstance(op, ast.NotEq) else r, "B"
        fail(e, f"comparison {type(op).__name__} on {show(a)}, {show(b)}")

    # ---------------------------------------------------------------- calls
    def args_of(self, e, env, wants=None):
        if any(k.arg is None for k in e.keywords) or any(isinstance(a, ast.Starred) for a in e.args):
            fail(e, "*args / **kwargs")
        wants = wants or {}
        parts = [self.tx(a, env, wants.get(i)) for i, a in enumerate(e.args)]
        kparts = {k.arg: self.tx(k.value, env, wants.get(k.arg)) for k in e.keywords}
        return parts, kparts

    def call_entry(self, node, entry, recv, parts, kparts, pre, env):
        """call of a function generated here: (coq, params, rtype, static, ghost)"""
        coq, params, rty, static, ghost = entry
        if len(parts) > len(params) or set(kparts) - {pn for pn, _, _ in params}:
            fail(node, f"arguments of {coq}")
        full = []
        pre = list(pre)
        for i, (pn, pt, pd) in enumerate(params):
            if i < len(parts):
                if pn in kparts:
                    fail(node, f"argument {pn} given twice")
                p, c, t = parts[i]
            elif pn in kparts:
                p, c, t = kparts[pn]
            elif pd is not None:
                if not (isinstance(pd, ast.Constant) and (pd.value is None or isinstance(pd.value, bool))):
                    fail(node, f"default value of {pn}")
                p, c, t = self.tx(pd, {})
            else:
                fail(node, f"missing argument {pn} of {coq}")
            pre += p
            full.append(self.coerce(c, t, pt, node, f"argument {pn} of {coq}"))
        head = [coq]
        if ghost:
            head.append(self.lp_vars(env, node))
        if recv is not None:
            head.append(recv)
        tmp = self.fresh("v")
        return pre + [(tmp, " ".join(head + full))], tmp, rty

    def lp_vars(self, env, node):
        """the ghost argument naming the LP columns"""
        src = env.get("%lpvars")
        if src is None:
            fail(node, "an LP is solved here, but no variable list names its columns: the function neither has the ghost "
                       "parameter lp_vars nor unpacks the result of exactly one termlist_to_polytope call before")
        return src

    def ext_call(self, node, entry, recv, parts, kparts, pre):
        """call of a function generated by another generator: (coq, monadic, params, rtype)"""
        coq, mon, params, rty = entry
        if len(parts) > len(params) or set(kparts) - {pn for pn, _, _ in params}:
            fail(node, f"arguments of {coq}")
        full = []
        pre = list(pre)
        for i, (pn, pt, pd) in enumerate(params):
            if i < len(parts):
                if pn in kparts:
                    fail(node, f"argument {pn} given twice")
                p, c, t = parts[i]
            elif pn in kparts:
                p, c, t = kparts[pn]
            elif pd is not None:
                if not (isinstance(pd, ast.Constant) and (pd.value is None or isinstance(pd.value, bool))):
                    fail(node, f"default value of {pn}")
                p, c, t = self.tx(pd, {})
            else:
                fail(node, f"missing argument {pn} of {coq}")
            pre += p
            full.append(self.coerce(c, t, pt, node, f"argument {pn} of {coq}"))
        call = " ".join([coq] + ([recv] if recv is not None else []) + full)
        if mon:
            tmp = self.fresh("v")
            return pre + [(tmp, call)], tmp, rty
        return pre, f"({call})", rty

    def tx_linprog(self, e, env):
        kws = {k.arg: k.value for k in e.keywords}
        if e.args or set(kws) != {"c", "A_ub", "b_ub", "bounds"} or ast.unparse(kws["bounds"]) != "(None, None)":
            fail(e, "linprog call other than linprog(c=, A_ub=, b_ub=, bounds=(None, None))")
        pre, cs = [], []
        for name in ("c", "A_ub", "b_ub"):
            p, c, t = self.tx(kws[name], env, "ARR")
            pre += p
            cs.append(self.coerce(c, t, "ARR", e, f"argument {name} of linprog"))
        tmp = self.fresh("v")
        return pre + [(tmp, f"np_linprog {self.lp_vars(env, e)} " + " ".join(cs))], tmp, "RES"

    def tx_np(self, e, m, env, want):
        """np.<m>(...)"""
        kw = {k.arg: k.value for k in e.keywords}
        a = list(e.args)
        if None in kw:
            fail(e, "**kwargs")

        def arr(x):
            p, c, t = self.tx(x, env, "ARR")
            return p, self.coerce(c, t, "ARR", e, f"argument of np.{m}")

        if m == "array" and len(a) == 1 and not kw:
            x = a[0]
            p, c, t = self.tx(x, env)
            r = rt(t)
            if isinstance(r, ListTV):
                # np.array([]) : the 1-D empty array
                self.same(t, "LF", e, "np.array([])")
                return p, f"(np_array_1d {c})", "ARR"
            if r == "LF":
                return p, f"(np_array_1d {c})", "ARR"
            if r == "LLF":
                tmp = self.fresh("v")
                return p + [(tmp, f"np_array_2d {c}")], tmp, "ARR"
            fail(e, f"np.array of a value of type {show(r)}")
        if m == "copy" and len(a) == 1 and not kw:
            p, c = arr(a[0])
            return p, f"(np_copy {c})", "ARR"
        if m == "concatenate" and len(a) == 1 and set(kw) <= {"axis"}:
            if "axis" in kw and ast.unparse(kw["axis"]) != "0":
                fail(e, "np.concatenate with an axis other than 0")
            if not (isinstance(a[0], ast.Tuple) and len(a[0].elts) == 2):
                fail(e, "np.concatenate of something else than a pair")
            (p1, c1), (p2, c2) = arr(a[0].elts[0]), arr(a[0].elts[1])
            tmp = self.fresh("v")
            return p1 + p2 + [(tmp, f"np_concatenate {c1} {c2}")], tmp, "ARR"
        if m == "delete" and len(a) in (2, 3) and not kw:
            p1, c1 = arr(a[0])
            p2, c2 = self.index_nat(a[1], env)
            tmp = self.fresh("v")
            if len(a) == 3:
                if ast.unparse(a[2]) != "0":
                    fail(e, "np.delete with an axis other than 0")
                return p1 + p2 + [(tmp, f"np_delete_axis0 {c1} {c2}")], tmp, "ARR"
            return p1 + p2 + [(tmp, f"np_delete_flat {c1} {c2}")], tmp, "ARR"
        if m in ("any", "all") and len(a) == 1 and not kw:
            p, c, t = self.tx(a[0], env)
            if rt(t) != "BARR":
                fail(e, f"np.{m} of something else than an element-wise comparison")
            return p, f"(np_{m} {c})", "B"
        if m == "abs" and len(a) == 1 and not kw:
            p, c, t = self.tx(a[0], env)
            if rt(t) == "ARR":
                return p, f"(np_abs {c})", "ARR"
            p, c, t = self.num_arg(p, c, t, e, "argument of np.abs")
            return p, f"(qabs {self.coerce(c, t, 'F', e, 'argument of np.abs')})", "F"
        if m == "max" and len(a) == 1 and not kw:
            p, c = arr(a[0])
            tmp = self.fresh("v")
            return p + [(tmp, f"np_max {c}")], tmp, "F"
        if m == "zeros" and len(a) == 1 and not kw and isinstance(a[0], ast.Tuple) and len(a[0].elts) == 2:
            (p1, c1), (p2, c2) = self.index_nat(a[0].elts[0], env), self.index_nat(a[0].elts[1], env)
            return p1 + p2, f"(np_zeros_2d {c1} {c2})", "ARR"
        if m == "isclose" and len(a) == 2 and not kw:
            p1, c1, t1 = self.tx(a[0], env)
            p2, c2, t2 = self.tx(a[1], env)
            pre = p1 + p2
            pre, c2, t2 = self.num_arg(pre, c2, t2, e, "argument of np.isclose")
            c2 = self.coerce(c2, t2, "F", e, "second argument of np.isclose")
            if rt(t1) == "ARR":
                return pre, f"(np_isclose_arr {c1} {c2})", "BARR"
            pre, c1, t1 = self.num_arg(pre, c1, t1, e, "argument of np.isclose")
            c1 = self.coerce(c1, t1, "F", e, "first argument of np.isclose")
            return pre, f"(np_isclose {c1} {c2})", "B"
        if m == "array_equal" and len(a) == 2 and not kw:
            (p1, c1), (p2, c2) = arr(a[0]), arr(a[1])
            return p1 + p2, f"(np_array_equal {c1} {c2})", "B"
        if m == "where" and len(a) == 3 and not kw:
            p0, c0, t0 = self.tx(a[0], env)
            if rt(t0) != "BARR":
                fail(e, "np.where whose condition is not an element-wise comparison")
            p1, c1 = arr(a[1])
            p2, c2, t2 = self.tx(a[2], env)
            c2 = self.coerce(c2, t2, "F", e, "third argument of np.where (a scalar)")
            tmp = self.fresh("v")
            return p0 + p1 + p2 + [(tmp, f"np_where {c0} {c1} {c2}")], tmp, "ARR"
        fail(e, f"call to np.{m}")

    def ctor_tl(self, e, env):
        """PolyhedralTermList(...)"""
        parts, kparts = self.args_of(e, env)
        pre = [b for p, _, _ in parts for b in p] + [b for p, _, _ in kparts.values() for b in p]
        parts = [([], c, t) for _, c, t in parts]
        return self.ext_call(e, self.w.tl["__init__"], None, parts, {k: ([], c, t) for k, (_, c, t) in kparts.items()}, pre)

    def tx_call(self, e, env, want=None):
        f = e.func
        # type(self)(...)
        if isinstance(f, ast.Call) and isinstance(f.func, ast.Name) and f.func.id == "type" and len(f.args) == 1 \
                and isinstance(f.args[0], ast.Name) and f.args[0].id == "self" and not f.keywords and "type" not in env:
            if rt(env.get("self")) != "TL":
                fail(e, "type(self)(...)")
            self.assumptions.append(f"{PTL}: type(self)(...) in the methods inherited from TermList is "
                                    f"{PTL}.__init__ (checked: the receiver class is {PTL} itself)")
            return self.ctor_tl(e, env)
        if isinstance(f, ast.Name):
            if f.id in env:
                fail(e, "call of a local")
            if f.id == "linprog":
                return self.tx_linprog(e, env)
            if f.id == PTL:
                return self.ctor_tl(e, env)
            if f.id == PT:
                parts, kparts = self.args_of(e, env)
                return self.ext_call(e, self.w.term_sigs["__init__"], None, parts, kparts, [])
            if e.keywords:
                fail(e, f"keyword arguments in a call of {f.id}")
            if f.id == "list" and len(e.args) == 1:
                x = e.args[0]
                if isinstance(x, ast.Subscript) and not isinstance(x.slice, (ast.Tuple, ast.Slice, ast.List)):
                    pv, cv, tv = self.tx(x.value, env)
                    if rt(tv) == "ARR":
                        return self.tx_subscript(x, env, "LF")
                p, c, t = self.tx(x, env)
                if rt(t) in ELEM:
                    return p, f"(py_list_copy {c})", rt(t)
                fail(e, f"list() of a value of type {show(t)}")
            parts, _ = self.args_of(e, env)
            pre = [b for p, _, _ in parts for b in p]
            tys = [rt(t) for _, _, t in parts]
            if f.id in P.LIST_FUNS and len(parts) == 2:
                ty = rt(self.same(parts[0][2], parts[1][2], e, f"arguments of {f.id}"))
                if ty in {"LV", "LN"}:
                    return pre, f"({f.id} {parts[0][1]} {parts[1][1]})", ty
                if ty == "LT":
                    tmp = self.fresh("v")
                    return pre + [(tmp, f"{f.id}_m {self.eq_name()} {parts[0][1]} {parts[1][1]}")], tmp, "LT"
                fail(e, f"{f.id} on {show(ty)}")
            if f.id == "len" and len(parts) == 1:
                if tys[0] in ELEM or isinstance(tys[0], ListTV):
                    return pre, f"(len {parts[0][1]})", "N"
                if tys[0] in ("ARR", "BARR"):
                    return pre, f"(np_len {parts[0][1]})", "N"
            if f.id == "range" and len(parts) == 1:
                c = self.coerce(parts[0][1], parts[0][2], "N", e, "argument of range()")
                return pre, f"(py_range {c})", "LN"
            if f.id == "abs" and len(parts) == 1:
                pre, c, t = self.num_arg(pre, parts[0][1], parts[0][2], e, "argument of abs")
                return pre, f"(qabs {self.coerce(c, t, 'F', e, 'argument of abs')})", "F"
            if f.id == "float" and len(parts) == 1:
                pre, c, t = self.num_arg(pre, parts[0][1], parts[0][2], e, "argument of float")
                return pre, f"(py_float {self.coerce(c, t, 'F', e, 'argument of float()')})", "F"
            fail(e, f"call to {f.id} on {[show(t) for t in tys]}")
        if not isinstance(f, ast.Attribute):
            fail(e, "call form")
        m = f.attr
        if isinstance(f.value, ast.Name) and f.value.id not in env:
            mod = f.value.id
            if mod == "np":
                return self.tx_np(e, m, env, want)
            if mod in (PTL, PT):
                key = (mod, m)
                if key not in self.w.funs:
                    fail(e, f"{mod}.{m} is not translated (or not generated yet)")
                entry = self.w.funs[key]
                if not entry[3]:
                    fail(e, f"{mod}.{m} is not a static method")
                wants = {}
                for i, (pn, pt, _) in enumerate(entry[1]):
                    wants[i] = wants[pn] = pt
                parts, kparts = self.args_of(e, env, wants)
                return self.call_entry(e, entry, None, parts, kparts, [], env)
            fail(e, f"call to {mod}.{m}")
        p0, c0, t0 = self.tx(f.value, env)
        t0 = rt(t0)
        if m == "copy" and t0 in ELEM and not e.args and not e.keywords:
            return p0, f"(py_list_copy {c0})", t0
        if t0 == "ARR" and m == "max" and not e.args and not e.keywords:
            tmp = self.fresh("v")
            return p0 + [(tmp, f"np_max {c0}")], tmp, "F"
        if t0 == "T":
            if m.startswith("__") or m == "vars" or m not in self.w.term_sigs:
                fail(e, f"method {m} of {PT}")
            parts, kparts = self.args_of(e, env)
            return self.ext_call(e, self.w.term_sigs[m], c0, parts, kparts, p0)
        if t0 == "TL":
            if ("TL", m) in self.w.funs and not m.startswith("__"):
                entry = self.w.funs[("TL", m)]
                parts, kparts = self.args_of(e, env)
                return self.call_entry(e, entry, c0, parts, kparts, p0, env)
            if m in self.w.tl and not m.startswith("__") and m != "vars":
                parts, kparts = self.args_of(e, env)
                return self.ext_call(e, self.w.tl[m], c0, parts, kparts, p0)
            fail(e, f"method {m} of {PTL} is not translated (or not generated yet)")
        fail(e, f"method {m} on a value of type {show(t0)}")

    def eq_name(self):
        name, mon, _, _ = self.w.term_sigs["__eq__"]
        if not mon:
            fail(self.f, f"{PT}.__eq__ is expected to be rendered as a function that may raise")
        return name

    # ---------------------------------------------------------------- statements
    def is_dropped(self, s, env) -> bool:
        if isinstance(s, ast.Expr):
            v = s.value
            if isinstance(v, ast.Constant) and isinstance(v.value, str):
                return True
            if isinstance(v, ast.Call) and isinstance(v.func, ast.Attribute) and isinstance(v.func.value, ast.Name) \
                    and v.func.value.id == "logging" and v.func.attr == "debug" and "logging" not in env:
                if v.keywords:
                    fail(s, "keyword argument of logging.debug")
                try:
                    for a in v.args:
                        check_message_total(a)
                except Unsupported:
                    return False          # an argument that may raise: evaluated for its exceptions (tr_expr_stmt)
                return True
        if isinstance(s, ast.Pass):
            return True
        return False

    def terminates(self, stmts) -> bool:
        stmts = [s for s in stmts if not self.is_dropped(s, {})]
        if not stmts:
            return False
        s = stmts[-1]
        if isinstance(s, (ast.Raise, ast.Return, ast.Break, ast.Continue)):
            return True
        if isinstance(s, ast.If):
            return bool(s.orelse) and self.terminates(s.body) and self.terminates(s.orelse)
        return False

    def assigned(self, stmts) -> List[str]:
        out: List[str] = []

        def add(n):
            if n not in out:
                out.append(n)

        def target(n):
            if isinstance(n, ast.Name):
                add(n.id)
            elif isinstance(n, ast.Tuple):
                for x in n.elts:
                    target(x)
            elif isinstance(n, ast.Subscript):
                b = n.value
                if not isinstance(b, ast.Name):
                    fail(n, "assignment target")
                add(b.id)
            else:
                fail(n, "assignment target")

        for s in stmts:
            if isinstance(s, ast.Assign):
                for t in s.targets:
                    target(t)
            elif isinstance(s, (ast.AugAssign, ast.AnnAssign)):
                target(s.target)
            elif isinstance(s, ast.Expr) and isinstance(s.value, ast.Call) and isinstance(s.value.func, ast.Attribute) \
                    and s.value.func.attr == "append":
                target(s.value.func.value)
            elif isinstance(s, ast.If):
                for n in self.assigned(s.body) + self.assigned(s.orelse):
                    add(n)
            elif isinstance(s, (ast.For, ast.While)):
                for n in self.assigned(s.body):
                    add(n)
            elif isinstance(s, ast.Try):
                for n in self.assigned(s.body) + [x for h in s.handlers for x in self.assigned(h.body)]:
                    add(n)
        return out

    def definitely_assigned(self, stmts):
        out = set()
        for s in stmts:
            if isinstance(s, ast.If):
                a, b = self.definitely_assigned(s.body), self.definitely_assigned(s.orelse)
                if self.terminates(s.body):
                    out |= b
                elif self.terminates(s.orelse):
                    out |= a
                else:
                    out |= a & b
            elif isinstance(s, ast.Try):
                a = self.definitely_assigned(s.body)
                for h in s.handlers:
                    if not self.terminates(h.body):
                        a &= self.definitely_assigned(h.body)
                out |= a
            elif isinstance(s, (ast.Assign, ast.AnnAssign, ast.AugAssign)):
                out |= set(self.assigned([s]))
        return out

    def join_names(self, branches, env):
        names = []
        for b in branches:
            for n in self.assigned(b):
                if n not in names:
                    names.append(n)
        live = [b for b in branches if not self.terminates(b)]
        return [n for n in env if n in names and not n.startswith("%")] \
            + [n for n in names if n not in env and live and all(n in self.definitely_assigned(b) for b in live)]

    def tupv(self, names):
        cn = [cid(n) for n in names]
        if not cn:
            return "tt", "_"
        if len(cn) == 1:
            return cn[0], cn[0]
        t = "(" + ", ".join(cn) + ")"
        return t, "'" + t

    def block(self, stmts, env, ind, ctx: Ctx) -> str:
        if not stmts:
            return ctx.fall(env, ind)
        s, rest = stmts[0], list(stmts[1:])
        if self.is_dropped(s, env):
            return self.block(rest, env, ind, ctx)
        if isinstance(s, ast.Return):
            if rest:
                fail(s, "statements after return")
            if ctx.ret is None:
                fail(s, "return inside a loop or inside branches that are joined")
            if s.value is None:
                fail(s, "bare return")
            pre, c = self.tx_expect(s.value, env, self.rtype, "returned value")
            return self.emit_binds(pre, ctx.ret(env, ind, c), ind)
        if isinstance(s, ast.Raise):
            if rest:
                fail(s, "statements after raise")
            return self.tr_raise(s, env, ind)
        if isinstance(s, (ast.Break, ast.Continue)):
            if rest:
                fail(s, "statements after break/continue")
            k = ctx.brk if isinstance(s, ast.Break) else ctx.cont
            if k is None:
                fail(s, "break/continue outside a loop body (or inside branches that are joined)")
            return k(env, ind)
        if isinstance(s, ast.Assert):
            if s.msg is not None:
                check_message_total(s.msg)
            pre, c, t = self.tx(s.test, env)
            cond = self.truth(c, t, s.test)
            body = self.block(rest, self.escaped(env, s.test), ind + "  ", ctx)
            return self.emit_binds(pre, f"{ind}if {cond} then\n{body}\n{ind}else\n{ind}  raise (Escape \"AssertionError\")", ind)
        if isinstance(s, ast.AnnAssign):
            if s.value is None or not isinstance(s.target, ast.Name):
                fail(s, "annotated assignment form")
            ann = ast.unparse(s.annotation)
            if ann not in ANNOT:
                fail(s, f"unknown annotation {ann}")
            return self.tr_assign(s.target, s.value, rest, env, ind, ctx, hint=ANNOT[ann], node=s)
        if isinstance(s, ast.Assign):
            if len(s.targets) != 1:
                fail(s, "multiple assignment targets")
            return self.tr_assign(s.targets[0], s.value, rest, env, ind, ctx, node=s)
        if isinstance(s, ast.AugAssign):
            return self.tr_augassign(s, rest, env, ind, ctx)
        if isinstance(s, ast.Expr):
            return self.tr_expr_stmt(s, rest, env, ind, ctx)
        if isinstance(s, ast.If):
            return self.tr_if(s, rest, env, ind, ctx)
        if isinstance(s, ast.For):
            return self.tr_for(s, rest, env, ind, ctx)
        if isinstance(s, ast.While):
            return self.tr_while(s, rest, env, ind, ctx)
        if isinstance(s, ast.Try):
            return self.tr_try(s, rest, env, ind, ctx)
        fail(s, "statement form")

    def tx_expect(self, e, env, want, what):
        want = rt(want)
        if isinstance(e, ast.Tuple) and is_tup(want):
            if len(want[1]) != len(e.elts):
                fail(e, f"{what}: tuple of {len(e.elts)} for {show(want)}")
            pre, cs = [], []
            for v, w in zip(e.elts, want[1]):
                p, c, t = self.tx(v, env, w if isinstance(w, str) else None)
                pre += p
                cs.append(self.coerce(c, t, w, e, what))
            return pre, "(" + ", ".join(cs) + ")"
        p, c, t = self.tx(e, env, want if isinstance(want, str) else None)
        return p, self.coerce(c, t, want, e, what)

    def bind_name(self, env, name, t, value, node):
        """env after `name = value` (t: type of the value)"""
        if name == "self" or name in self.w.consts or name in ("lp_vars",):
            fail(node, f"assignment to {name}")
        env2 = dict(env)
        if name in env:
            told = rt(env[name])
            if isinstance(told, str) and told in OPT and rt(t) == OPT[told]:
                pass            # an Optional local gets a definite value
            else:
                t = self.same(env[name], t, node, f"{name} is re-assigned")
        env2[name] = t
        env2 = self.escaped(env2, value)
        r = rt(t)
        mutable = isinstance(r, ListTV) or (isinstance(r, str) and r in MUTABLE)
        if not mutable:
            return self.drop_group(env2, name)
        if isinstance(value, ast.Name) and value.id in env:
            return self.join_group(env2, name, value.id)
        if isinstance(value, ast.Subscript) and isinstance(value.value, ast.Name) and value.value.id in env \
                and not self.is_fresh_expr(value):
            return self.join_group(env2, name, value.value.id)       # a view of the array
        return self.new_group(env2, name, self.is_fresh_expr(value))

    def tr_assign(self, tgt, value, rest, env, ind, ctx, hint=None, node=None):
        if isinstance(tgt, ast.Name):
            if tgt.id == "_":
                fail(node, "assignment to _")
            want = rt(env[tgt.id]) if tgt.id in env else hint
            pre, c, t = self.tx(value, env, want if isinstance(want, str) else None)
            if hint is not None and not (hint == "F" and rt(t) == "OF"):
                c = self.coerce(c, t, hint, node, "annotated assignment")
                t = hint
            if rt(t) == "NONE":
                fail(node, "assignment of None")
            env2 = self.bind_name(env, tgt.id, t, value, node)
            env2 = self.note_polytope(env2, tgt.id, None, value, t)
            return self.bind_value(cid(tgt.id), pre, c, ind) + self.block(rest, env2, ind, ctx)
        if isinstance(tgt, ast.Tuple) and all(isinstance(x, ast.Name) for x in tgt.elts):
            pre, c, t = self.tx(value, env)
            t = rt(t)
            names = [x.id for x in tgt.elts]
            real = [n for n in names if n != "_"]
            if len(set(real)) != len(real) or "self" in names:
                fail(node, "tuple target")
            if t == "LN":
                if len(names) != 2:
                    fail(node, "unpacking a shape into other than two names")
                tmp = self.fresh("t")
                pre, c, tys = pre + [(tmp, f"py_unpack2 {c}")], tmp, ["N", "N"]
            elif is_tup(t):
                tys = list(t[1])
                if len(tys) != len(names):
                    fail(node, f"tuple arity vs type {show(t)}")
            else:
                fail(node, f"unpacking a value of type {show(t)}")
            env2 = self.escaped(env, value)
            pats = []
            is_poly = self.is_polytope_call(value)
            for k, (n, ty) in enumerate(zip(names, tys)):
                if n == "_":
                    pats.append("lp_vars" if (is_poly and k == 0) else "_")
                    continue
                if is_open(ty):
                    fail(node, "unpacking of a tuple display with untyped components")
                env2 = self.bind_name(env2, n, ty, ast.Constant(value=None), node)
                env2 = self.new_group(env2, n, False) if rt(ty) in MUTABLE else env2
                pats.append(cid(n))
            if is_poly:
                env2 = dict(env2)
                self.set_lpvars(env2, pats[0], node)
            pat = "'(" + ", ".join(pats) + ")"
            return self.bind_value(pat, pre, c, ind) + self.block(rest, env2, ind, ctx)
        if isinstance(tgt, ast.Subscript) and isinstance(tgt.value, ast.Name) and tgt.value.id in env:
            name = tgt.value.id
            ctype = rt(env[name])
            pre, c, t = self.tx(value, env)
            self.tx(tgt.value, env)          # stale check
            env2 = self.update_in_place(self.escaped(env, value), name, node, "update")
            n = cid(name)
            if ctype == "D":
                pk, ck, tk = self.tx(tgt.slice, env)
                if rt(tk) != "V":
                    fail(node, f"dict key of type {show(tk)}")
                pre, c, t = self.num_arg(pre, c, t, node, "dict value")
                c = self.coerce(c, t, "F", node, "dict value")
                return self.emit_binds(pre + pk, f"{ind}let {n} := (dict_set {n} {ck} {c}) in\n", ind) \
                    + self.block(rest, env2, ind, ctx)
            pi, ci = self.index_nat(tgt.slice, env)
            if ctype == "ARR":
                pre, c, t = self.num_arg(pre, c, t, node, "array element")
                c = self.coerce(c, t, "F", node, "array element")
                return self.emit_binds(pre + pi + [(n, f"np_setitem {n} {ci} {c}")], "", ind) + self.block(rest, env2, ind, ctx)
            if ctype in ELEM:
                c = self.coerce(c, t, ELEM[ctype], node, "list element")
                return self.emit_binds(pre + pi + [(n, f"list_set_m {n} {ci} {c}")], "", ind) + self.block(rest, env2, ind, ctx)
            fail(node, f"subscript assignment on a value of type {show(ctype)}")
        fail(node, "assignment target")

    # --- the ghost argument of linprog
    def is_polytope_call(self, value):
        return isinstance(value, ast.Call) and isinstance(value.func, ast.Attribute) \
            and value.func.attr == "termlist_to_polytope" and isinstance(value.func.value, ast.Name) \
            and value.func.value.id == PTL

    def set_lpvars(self, env2, src, node):
        if self.ghost:
            fail(node, "termlist_to_polytope is called in a function that takes the LP column names as a ghost parameter")
        if env2.get("%lpvars") is not None:
            fail(node, "a second termlist_to_polytope call in the same function: which variable list names the LP columns?")
        env2["%lpvars"] = src
        self.assumptions.append(f"{PTL}: the columns of every LP are named by the variable list returned by the termlist_to_polytope "
                                "call of the same function (ghost argument lp_vars of np_linprog and of reduce_polytope, "
                                "is_polytope_empty, verify_polytope_containment, which take matrices only); the Python passes no names")

    def note_polytope(self, env2, name, _unused, value, t):
        if self.is_polytope_call(value):
            env2 = dict(env2)
            self.set_lpvars(env2, self.tuple_proj(cid(name), 5, 0), value)
        return env2

    def tr_augassign(self, s, rest, env, ind, ctx):
        tgt = s.target
        if isinstance(tgt, ast.Name):
            if tgt.id not in env:
                fail(s, "augmented assignment to an undefined name")
            if rt(env[tgt.id]) in MUTABLE:
                fail(s, f"augmented assignment to a whole {show(env[tgt.id])} (in-place numpy / list update)")
            fake = ast.BinOp(left=ast.Name(id=tgt.id, ctx=ast.Load()), op=s.op, right=s.value)
            ast.copy_location(fake, s)
            ast.fix_missing_locations(fake)
            pre, c, t = self.tx(fake, env, rt(env[tgt.id]) if isinstance(rt(env[tgt.id]), str) else None)
            self.same(env[tgt.id], t, s, "augmented assignment")
            return self.bind_value(cid(tgt.id), pre, c, ind) + self.block(rest, self.escaped(env, s.value), ind, ctx)
        opn = {ast.Add: "qadd", ast.Sub: "qsub", ast.Mult: "qmul"}.get(type(s.op)) or fail(s, "augmented operator")
        if isinstance(tgt, ast.Subscript) and isinstance(tgt.value, ast.Name) and tgt.value.id in env:
            # x[j] op= e : evaluates x, j, loads x[j], then e, then stores
            name = tgt.value.id
            ctype = rt(env[name])
            if ctype not in ("ARR", "LF"):
                fail(s, f"augmented assignment to an element of {show(ctype)}")
            self.tx(tgt.value, env)
            env2 = self.update_in_place(self.escaped(env, s.value), name, s, "update")
            n = cid(name)
            pi, ci = self.index_nat(tgt.slice, env)
            old = self.fresh("t")
            pre, c, t = self.tx(s.value, env)
            pre, c, t = self.num_arg(pre, c, t, s, "augmented assignment")
            c = self.coerce(c, t, "F", s, "augmented assignment")
            get, put = ("np_item", "np_setitem") if ctype == "ARR" else ("list_get_m", "list_set_m")
            binds = pi + [(old, f"{get} {n} {ci}")] + pre + [(n, f"{put} {n} {ci} ({opn} {old} {c})")]
            return self.emit_binds(binds, "", ind) + self.block(rest, env2, ind, ctx)
        fail(s, "augmented assignment target")

    def tr_expr_stmt(self, s, rest, env, ind, ctx):
        v = s.value
        if isinstance(v, ast.Call) and isinstance(v.func, ast.Attribute) and not v.keywords and len(v.args) == 1 \
                and v.func.attr == "append" and isinstance(v.func.value, ast.Name) and v.func.value.id in env:
            name = v.func.value.id
            self.tx(v.func.value, env)
            pre, c, t = self.tx(v.args[0], env)
            if is_open(t) and isinstance(rt(t), NumTV):
                self.same(t, "F", s, "append of an int literal")
            want = LISTOF.get(rt(t)) or fail(s, f"append of a value of type {show(t)}")
            self.same(env[name], want, s, "append")
            env2 = self.update_in_place(env, name, s, "append")
            if isinstance(v.args[0], ast.Name):
                env2 = self.unfresh(env2, v.args[0].id)          # the list keeps a reference
            env2 = self.escaped(env2, v.args[0])
            n = cid(name)
            return self.emit_binds(pre, f"{ind}let {n} := ({n} ++ [{c}])%list in\n", ind) + self.block(rest, env2, ind, ctx)
        if isinstance(v, ast.Call) and isinstance(v.func, ast.Attribute) and isinstance(v.func.value, ast.Name) \
                and v.func.value.id == "logging" and v.func.attr == "debug" and "logging" not in env:
            pre = []
            for a in v.args:
                try:
                    check_message_total(a)
                except Unsupported:
                    pre += self.tx(a, env)[0]
            self.assumptions.append(f"{PTL}: an argument of logging.debug that is not built from total operations only is "
                                    "evaluated for the exception it may raise; its value is dropped")
            return self.emit_binds(pre, "", ind) + self.block(rest, env, ind, ctx)
        if isinstance(v, ast.Call):
            pre, c, t = self.tx(v, env)
            if not pre:
                fail(s, "expression statement without effect")
            return self.emit_binds(pre, "", ind) + self.block(rest, self.escaped(env, v), ind, ctx)
        fail(s, "expression statement")

    # --- if
    def narrowing(self, test, env):
        """tests that decide whether an Optional local is None: (name, inner type, branch taken when None)"""
        neg = False
        t = test
        if isinstance(t, ast.UnaryOp) and isinstance(t.op, ast.Not):
            neg, t = True, t.operand
        # isinstance(X, np.ndarray) on an Optional[np.ndarray]
        if isinstance(t, ast.Call) and isinstance(t.func, ast.Name) and t.func.id == "isinstance" and "isinstance" not in env \
                and len(t.args) == 2 and not t.keywords and isinstance(t.args[0], ast.Name) \
                and ast.unparse(t.args[1]) == "np.ndarray" and t.args[0].id in env:
            ty = rt(env[t.args[0].id])
            if ty == "OARR":
                self.assumptions.append(f"{PTL}: isinstance(x, np.ndarray) on an Optional[np.ndarray] parameter is `x is not None` "
                                        "(typed model: the value is an array or None)")
                return t.args[0].id, "ARR", neg
            fail(test, f"isinstance(.., np.ndarray) on a value of type {show(ty)}")
        if isinstance(t, ast.Compare) and len(t.ops) == 1 and isinstance(t.ops[0], (ast.Is, ast.IsNot)) \
                and isinstance(t.left, ast.Name) and isinstance(t.comparators[0], ast.Constant) \
                and t.comparators[0].value is None and t.left.id in env:
            ty = rt(env[t.left.id])
            if isinstance(ty, str) and ty in OPT:
                is_none = isinstance(t.ops[0], ast.Is)
                return t.left.id, OPT[ty], (is_none != neg)
        if isinstance(t, ast.Name) and t.id in env and rt(env[t.id]) == "OTL":
            self.assumptions.append(f"{PTL}: truthiness of an Optional[{PTL}] is `is not None` (checked: neither {PTL} nor "
                                    "TermList defines __bool__ / __len__)")
            return t.id, "TL", neg
        return None

    def join_fall(self, names, envs, key):
        def fall(env2, i2):
            envs.append(env2)
            return f"{i2}ret {JOINMARK}{key}:{len(envs) - 1}{JOINMARK}"
        return fall

    def join_fill(self, text, names, key):
        val, _ = self.tupv(names)
        return re.sub(JOINMARK + str(key) + r":(\d+)" + JOINMARK, lambda m: val, text)

    def join_env(self, names, env, envs, node):
        env3 = dict(env)
        for n in names:
            ty = None
            for e2 in envs:
                if n not in e2:
                    fail(node, f"joined variable {n} is not defined on every path")
                ty = e2[n] if ty is None else self.same(ty, e2[n], node, f"joined variable {n}")
            if ty is None:
                ty = env.get(n) or fail(node, f"joined variable {n}")
            env3[n] = ty
        env3 = self.meet(env3, envs)
        srcs = {e2.get("%lpvars") for e2 in envs}
        if len(srcs) == 1:
            env3["%lpvars"] = srcs.pop()
        elif srcs - {env.get("%lpvars")}:
            fail(node, "branches that name the LP columns differently")
        return env3

    def tr_if(self, s, rest, env, ind, ctx):
        body, orelse = list(s.body), list(s.orelse)
        nar = self.narrowing(s.test, env)
        if nar is not None:
            x, inner, none_is_then = nar
            self.tx(ast.Name(id=x, ctx=ast.Load()), env)
            pre, cond = [], None
            env_some = dict(env)
            env_some[x] = inner
            env_then, env_else = (env, env_some) if none_is_then else (env_some, env)
        else:
            pre, c, t = self.tx(s.test, env)
            cond = self.truth(c, t, s.test)
            env = self.escaped(env, s.test)
            env_then = env_else = env
        tb, te = self.terminates(body), self.terminates(orelse)
        if tb and te and rest:
            fail(s, "unreachable code after if")

        def render(t_then, t_else, i, join):
            if cond is not None:
                if join:
                    return f"{i}  (if {cond} then\n{t_then}\n{i}   else\n{t_else})"
                return f"{i}if {cond} then\n{t_then}\n{i}else\n{t_else}"
            t_none, t_some = (t_then, t_else) if none_is_then else (t_else, t_then)
            j = i + "  " if join else i
            return (f"{j}{'(' if join else ''}match {cid(x)} with\n{j}| None =>\n{t_none}\n"
                    f"{j}| Some {cid(x)} =>\n{t_some}\n{j}end{')' if join else ''}")

        ind2 = ind + "  "
        if tb or te or not rest:
            then_txt = self.block(body + ([] if tb else rest), env_then, ind2, ctx)
            else_txt = self.block(orelse + ([] if te else rest), env_else, ind2, ctx)
            return self.emit_binds(pre, render(then_txt, else_txt, ind, False), ind)
        names = self.join_names([body, orelse], env)
        if nar is not None and x not in names and any(x in self.assigned(b) for b in (body, orelse)):
            names.append(x)
        envs = []
        self.tmp += 1
        key = self.tmp
        jctx = Ctx(self.join_fall(names, envs, key), ctx.brk, ctx.cont, None)
        ind3 = ind + "    "
        t_body = self.block(body, env_then, ind3, jctx)
        t_else = self.block(orelse, env_else, ind3, jctx)
        env3 = self.join_env(names, env, envs, s)
        t_body, t_else = self.join_fill(t_body, names, key), self.join_fill(t_else, names, key)
        _, pat = self.tupv(names)
        txt = render(t_body, t_else, ind, True)
        return self.emit_binds(pre, f"{ind}{pat} <-\n{txt} ;;\n", ind) + self.block(rest, env3, ind, ctx)

    # --- loops
    def loop_body(self, s, env, env_body, accs, ind, targets):
        """translate the body of a loop; iterate once more if the ownership facts at the end of the body differ from
        those assumed at its beginning (the second pass must be stable)"""
        val, pat = self.tupv(accs)
        for attempt in range(3):
            envs = []

            def leave(kind):
                def k(e3, i3):
                    envs.append(e3)
                    return f"{i3}ret ({kind} {val})"
                return k

            saved = (self.tmp, len(self.lits))
            body = self.block(list(s.body), env_body, ind + "    ", Ctx(leave("Continue"), leave("Break"), leave("Continue"), None))
            for n in accs:
                for e3 in envs:
                    self.same(env[n], e3[n], s, f"loop variable {n}")
            after = self.meet(env, [env] + [{k: v for k, v in e3.items()} for e3 in envs])
            for t_ in targets:
                after = self.drop_group(after, t_)
            if self.own_key(after) == self.own_key(env):
                return body, after
            # redo with the weaker facts
            self.tmp = saved[0]
            del self.lits[saved[1]:]
            env = after
            env_body = dict(env_body)
            for k in ("%grp", "%fresh", "%stale"):
                env_body[k] = after.get(k, env_body.get(k))
        fail(s, "ownership facts of the loop body do not stabilise")

    def tr_for(self, s, rest, env, ind, ctx):
        if s.orelse:
            fail(s, "for ... else")
        env2 = dict(env)
        it = s.iter
        if isinstance(it, ast.Call) and isinstance(it.func, ast.Name) and it.func.id == "enumerate" \
                and "enumerate" not in env and len(it.args) == 1 and not it.keywords:
            pi, ci, ti = self.tx(it.args[0], env)
            elty = ELEM.get(rt(ti)) or fail(s, f"loop over a value of type {show(ti)}")
            if not (isinstance(s.target, ast.Tuple) and len(s.target.elts) == 2
                    and all(isinstance(x, ast.Name) for x in s.target.elts)):
                fail(s, "target of a loop over enumerate(...)")
            targets = [x.id for x in s.target.elts]
            env2[targets[0]], env2[targets[1]] = "N", elty
            ci = f"(enumerate {ci})"
            loopvars = f"'({cid(targets[0])}, {cid(targets[1])})"
        else:
            pi, ci, ti = self.tx(it, env)
            elty = ELEM.get(rt(ti)) or fail(s, f"loop over a value of type {show(ti)}")
            if not isinstance(s.target, ast.Name):
                fail(s, "loop target")
            targets = [s.target.id]
            env2[s.target.id] = elty
            loopvars = cid(s.target.id)
        if len(set(targets)) != len(targets) or "_" in targets:
            fail(s, "loop targets")
        env, env2 = self.escaped(env, s.iter), self.escaped(env2, s.iter)
        body_assigned = self.assigned(list(s.body))
        if set(body_assigned) & set(targets):
            fail(s, "loop body rebinds the loop variable")
        for t_ in targets:
            if t_ in env:
                fail(s, f"loop variable {t_} shadows a local (it would stay bound after the loop)")
            env2 = self.new_group(env2, t_, False) if elty in MUTABLE else env2
        alias = it
        if isinstance(alias, ast.Call) and isinstance(alias.func, ast.Name) and alias.func.id == "enumerate":
            alias = alias.args[0]
        while isinstance(alias, ast.Attribute):
            alias = alias.value
        if isinstance(alias, ast.Name) and alias.id in body_assigned:
            fail(s, "loop body updates the object it iterates over")
        if any(isinstance(n, ast.Return) for st in s.body for n in ast.walk(st)):
            fail(s, "return inside a loop")
        accs = [n for n in env if n in body_assigned and not n.startswith("%")]
        val, pat = self.tupv(accs)
        body, env_after = self.loop_body(s, env, env2, accs, ind, targets)
        call = f"for_list_m {ci} {val} (fun {pat} {loopvars} =>\n{body})"
        return self.emit_binds(pi, f"{ind}{pat} <- {call} ;;\n", ind) + self.block(rest, env_after, ind, ctx)

    def tr_while(self, s, rest, env, ind, ctx):
        if s.orelse:
            fail(s, "while ... else")
        t = s.test
        if not (isinstance(t, ast.Compare) and len(t.ops) == 1 and isinstance(t.ops[0], ast.Lt)
                and isinstance(t.left, ast.Name) and isinstance(t.comparators[0], ast.Name)
                and t.left.id in env and t.comparators[0].id in env):
            fail(s, "while loop other than `while i < n` on two int locals")
        lo, hi = t.left.id, t.comparators[0].id
        self.same(env[lo], "N", s, "while counter")
        self.same(env[hi], "N", s, "while bound")
        body_assigned = self.assigned(list(s.body))
        if any(isinstance(n, ast.Return) for st in s.body for n in ast.walk(st)):
            fail(s, "return inside a loop")
        accs = [n for n in env if n in body_assigned and not n.startswith("%")]
        if lo not in accs and hi not in accs:
            fail(s, "while loop whose body changes neither side of its test")
        val, pat = self.tupv(accs)
        p, cond, _ = self.tx(t, env)
        if p:
            fail(s, "while test that may raise")
        body, env_after = self.loop_body(s, env, dict(env), accs, ind, [])
        self.assumptions.append(f"{self.where}: `while {lo} < {hi}` is rendered as while_m with explicit fuel = the value of "
                                f"{hi} at loop entry (Escape \"fuel\" if the test still holds after that many iterations; the "
                                "equality proofs show that it never runs out: every iteration either increments "
                                f"{lo} or decrements {hi})")
        call = f"while_m {cid(hi)} {val} (fun {pat} => {cond}) (fun {pat} =>\n{body})"
        return f"{ind}{pat} <- {call} ;;\n" + self.block(rest, env_after, ind, ctx)

    # --- try / raise
    def tr_try(self, s, rest, env, ind, ctx):
        if s.orelse or s.finalbody or len(s.handlers) != 1 or not s.body:
            fail(s, "try form")
        h = s.handlers[0]
        if not (isinstance(h.type, ast.Name) and h.type.id == "ValueError" and "ValueError" not in env):
            fail(s, "except clause other than `except ValueError`")
        env_h = dict(env)
        if h.name is not None:
            if h.name in env:
                fail(s, f"exception name {h.name} shadows a local")
            env_h[h.name] = "EXC"
        if not self.terminates(list(h.body)):
            fail(s, "handler that falls through")
        ind2 = ind + "    "
        if not rest:
            b_txt = self.block(list(s.body), env, ind2, ctx)
            h_txt = self.block(list(h.body), env_h, ind2, ctx)
            return f"{ind}try_except\n{ind}  (\n{b_txt})\n{ind}  (\n{h_txt})"
        names = self.join_names([list(s.body)], env)
        envs = []
        self.tmp += 1
        key = self.tmp
        jctx = Ctx(self.join_fall(names, envs, key), None, None, None)
        b_txt = self.block(list(s.body), env, ind2, jctx)
        h_txt = self.block(list(h.body), env_h, ind2, Ctx(lambda e, i: fail(s, "handler that falls through"), None, None, None))
        env3 = self.join_env(names, env, envs, s)
        b_txt = self.join_fill(b_txt, names, key)
        _, pat = self.tupv(names)
        return f"{ind}{pat} <- try_except\n{ind}  (\n{b_txt})\n{ind}  (\n{h_txt}) ;;\n" + self.block(rest, env3, ind, ctx)

    def tr_raise(self, s, env, ind):
        exc = s.exc
        if s.cause is not None:
            if not (isinstance(s.cause, ast.Name) and env.get(s.cause.id) == "EXC"):
                fail(s, "raise ... from something else than the caught exception")
            self.assumptions.append(f"{PTL}: `raise X from e` raises X; the cause chain is not modelled")
        if isinstance(exc, ast.Call) and isinstance(exc.func, ast.Name) and not exc.keywords:
            name = exc.func.id
            for a in exc.args:
                check_message_total(a)
            if exc.args:
                self.assumptions.append(f"{PTL}: exception and assert messages are dropped (checked to be built from total "
                                        "operations); the exception TYPE is kept")
        else:
            fail(s, "raise form")
        if name not in ERRKIND or name in env:
            fail(s, f"exception class {name}")
        return f"{ind}raise {ERRKIND[name]}"

    # ---------------------------------------------------------------- whole function
    def translate(self, params, selfty) -> str:
        env = {}
        if selfty:
            env["self"] = selfty
        for n, t, _ in params:
            env[n] = t
        env["%grp"], env["%fresh"], env["%stale"] = {}, frozenset(), frozenset()
        env["%lpvars"] = "lp_vars" if self.ghost else None
        for n, t, _ in params:
            if t in MUTABLE or t in ("OARR",):
                env = self.new_group(env, n, False)

        def fall(e, i):
            fail(self.f, "function falls off the end (returns None)")
        body = self.block(list(self.f.body), env, "  ", Ctx(fall, None, None, lambda e, i, c: f"{i}ret {c}"))
        return self.render_literals(body)


# ================================================================ the generator
# (class, method, coq name, static?)
PLAN = [
    (PT, "term_to_polytope", f"{PT}_term_to_polytope", True),
    (PT, "polytope_to_term", f"{PT}_polytope_to_term", True),
    ("TermList", "__sub__", f"{PTL}_sub", False),
    (PTL, "termlist_to_polytope", f"{PTL}_termlist_to_polytope", True),
    (PTL, "polytope_to_termlist", f"{PTL}_polytope_to_termlist", True),
    (PTL, "reduce_polytope", f"{PTL}_reduce_polytope", True),
    (PTL, "simplify", f"{PTL}_simplify", False),
    (PTL, "is_polytope_empty", f"{PTL}_is_polytope_empty", True),
    (PTL, "is_empty", f"{PTL}_is_empty", False),
    (PTL, "verify_polytope_containment", f"{PTL}_verify_polytope_containment", True),
    (PTL, "refines", f"{PTL}_refines", False),
    (PTL, "optimize", f"{PTL}_optimize", False),
]
TL_EXPECT = {
    "__init__": (f"{PTL}_init", "(terms : option (list pterm)) : list pterm",
                 [("terms", "OLT", ast.Constant(value=None))], "TL"),
    "vars": (f"{PTL}_vars", "(self : list pterm) : list var", [], "LV"),
    "copy": (f"{PTL}_copy", "(self : list pterm) : list pterm", [], "TL"),
    "lacks_constraints": (f"{PTL}_lacks_constraints", "(self : list pterm) : bool", [], "B"),
    "get_terms_with_vars": (f"{PTL}_get_terms_with_vars", "(self : list pterm) (variable_list : list var) : list pterm",
                            [("variable_list", "LV", None)], "TL"),
}


def signature(cls, f, static):
    a = f.args
    if a.vararg or a.kwarg or a.kwonlyargs or a.posonlyargs:
        raise Unsupported(f"signature of {cls}.{f.name}")
    args = list(a.args)
    defaults = [None] * (len(args) - len(a.defaults)) + list(a.defaults)
    if not static:
        if not args or args[0].arg != "self":
            raise Unsupported(f"signature of {cls}.{f.name}: first parameter is not self")
        args, defaults = args[1:], defaults[1:]
    params = []
    for arg, d in zip(args, defaults):
        ann = ast.unparse(arg.annotation) if arg.annotation is not None else None
        ty = ANNOT.get(ann)
        if ty is None:
            fail(arg, f"annotation {ann} of parameter {arg.arg} of {cls}.{f.name}")
        if d is not None and not (isinstance(d, ast.Constant) and (d.value is None or isinstance(d.value, bool))):
            fail(arg, "default value")
        if d is not None and d.value is None and ty not in OPT:
            fail(arg, "None default of a non-optional parameter")
        params.append((arg.arg, ty, d))
    rann = ast.unparse(f.returns) if f.returns is not None else None
    rty = RANNOT.get(rann)
    if rty is None:
        fail(f, f"return annotation {rann} of {cls}.{f.name}")
    return params, rty


def calls_of(f):
    out = set()
    for n in ast.walk(f):
        if isinstance(n, ast.Call):
            if isinstance(n.func, ast.Name):
                out.add(n.func.id)
            elif isinstance(n.func, ast.Attribute):
                out.add(n.func.attr)
    return out


def gen_poly(repo) -> Tuple[str, List[str]]:
    poly_path = f"{repo}/src/pacti/terms/polyhedra/polyhedra.py"
    io_path = f"{repo}/src/pacti/iocontract/iocontract.py"
    src, io_src = open(poly_path).read(), open(io_path).read()
    mod, imod = ast.parse(src), ast.parse(io_src)
    assumptions: List[str] = []
    T.check_environment(mod)
    P.n_no_redefinition(mod, ["abs", "len", "list", "range", "enumerate", "isinstance", "type", "ValueError",
                              "REFINEMENT_TOLERANCE"][:-1], [PTL, PT])
    # REFINEMENT_TOLERANCE: one module-level float constant
    defs = [n for n in mod.body if isinstance(n, ast.Assign) and len(n.targets) == 1
            and isinstance(n.targets[0], ast.Name) and n.targets[0].id == "REFINEMENT_TOLERANCE"]
    stores = [n for n in ast.walk(mod) if isinstance(n, ast.Name) and n.id == "REFINEMENT_TOLERANCE"
              and isinstance(n.ctx, (ast.Store, ast.Del))]
    if len(defs) != 1 or len(stores) != 1 or not (isinstance(defs[0].value, ast.Constant)
                                                  and isinstance(defs[0].value.value, float)):
        raise Unsupported("REFINEMENT_TOLERANCE is expected to be one module-level float constant")
    cdef, tdef, bdef = class_def(mod, PTL), class_def(mod, PT), class_def(imod, "TermList")
    if [ast.unparse(b) for b in cdef.bases] != ["TermList"] or cdef.keywords or cdef.decorator_list:
        raise Unsupported(f"{PTL} is expected to be a plain subclass of TermList")
    own, pt, base = T.methods_of(cdef, PTL), T.methods_of(tdef, PT), T.methods_of(bdef, "TermList")
    for c, ms in ((PTL, own), ("TermList", base)):
        for dunder in ("__bool__", "__len__", "__getattr__", "__getattribute__"):
            if dunder in ms:
                raise Unsupported(f"{c} defines {dunder}")
    if "__sub__" in own or "copy" in own or "vars" in own:
        raise Unsupported(f"{PTL} overrides an inherited method that is translated from TermList")
    w = World()
    w.term_sigs = T.term_interface(poly_path)
    w.consts["REFINEMENT_TOLERANCE"] = ("REFINEMENT_TOLERANCE", "F")
    # the helpers of gen/TermListGen.v that are called here
    tl_text, _ = T.gen_termlist(repo)
    for meth, (coq, sig, params, rty) in TL_EXPECT.items():
        if not re.search(r"^Definition " + re.escape(coq) + " " + re.escape(sig) + r" :=$", tl_text, re.M):
            raise Unsupported(f"{coq} is not generated with the expected signature `{sig}` in gen/TermListGen.v")
        w.tl[meth] = (coq, False, params, rty)
    sources = {PTL: own, PT: pt, "TermList": base}
    texts, hashed = [], []
    ghosts = set()
    for cls, name, coq, static in PLAN:
        if name not in sources[cls]:
            raise Unsupported(f"{cls}.{name} missing")
        f = sources[cls][name]
        decos = [ast.unparse(d) for d in f.decorator_list]
        if decos != (["staticmethod"] if static else []):
            raise Unsupported(f"decorators of {cls}.{name}: {decos}")
        hashed.append(ast.get_source_segment(io_src if cls == "TermList" else src, f) or "")
        strip_doc(f)
        params, rty = signature(cls, f, static)
        calls = calls_of(f)
        if name in calls and name != "copy":
            raise Unsupported(f"{cls}.{name} calls itself")
        needs_lp = "linprog" in calls or bool(calls & ghosts)
        ghost = needs_lp and "termlist_to_polytope" not in calls
        if ghost and not static:
            raise Unsupported(f"{cls}.{name} solves an LP but neither is static nor calls termlist_to_polytope: nothing names "
                              "the columns")
        fn = PFn(w, PTL if cls == "TermList" else cls, f, rty, assumptions, ghost)
        try:
            body = P.with_fallback(f, lambda fd: PFn(w, PTL if cls == "TermList" else cls, fd, rty, assumptions, ghost).translate(params, None if static else "TL"))
        except Unsupported as ex:
            body = P.function_stub("PolyGen.v", f"{cls}.{name}", ex)
        ps = ([("lp_vars", "LV")] if ghost else []) + ([] if static else [("self", "TL")]) \
            + [(cid(n), t) for n, t, _ in params]
        sig = " ".join(f"({n} : {coq_type(t)})" for n, t in ps)
        rt_ = coq_type(rty)
        rt_ = f"M {rt_}" if rt_.startswith("(") else f"M ({rt_})"
        pysig = next(l for l in ast.unparse(f).split("\n") if l.startswith("def "))
        origin = "" if cls != "TermList" else "   (inherited from TermList, iocontract.py)"
        ghost_note = "   -- lp_vars: ghost, names the LP columns" if ghost else ""
        texts.append(f"(* {cls}.{name}: {pysig}{origin}{ghost_note} *)\nDefinition {coq} {sig} : {rt_} :=\n{body}.\n\n")
        key = ("TL", name) if not static else (cls, name)
        w.funs[key] = (coq, params, rty, static, ghost)
        if cls == "TermList":
            w.funs[("TermList", name)] = w.funs[key]
        if ghost:
            ghosts.add(name)
    assumptions.append(f"{PTL}: a {PTL} object is the list in its only field `terms`; int and float are exact rationals where they "
                       "are coefficients or bounds, nat where they count or index (negative indices are rejected); dtype, NaN, "
                       "inf, rounding and numpy warnings are not modelled")
    assumptions.append(f"{PTL}: a numpy array is its shape and its entries (base/PyNumpy.v: A1 v / A2 m rows); each numpy call is "
                       "one named primitive np_*; shape errors are ValueError, bad indices IndexError; x[i] used as a float "
                       "on a 2-D array (or as an array on a 1-D array) is Escape \"NumpyShape\": the model does not follow it")
    assumptions.append(f"{PTL}: in-place updates (l.append(x), d[k] = v, b[i] = v, b[i] += v) of lists / dicts / arrays built in the "
                       "same function (np.copy, np.delete, np.array, [] ...) are rendered as rebinding (checked: the object is "
                       "not a parameter, was not handed to a call that may keep it, and every other name that may alias it "
                       "is not read again before being re-assigned)")
    assumptions.append(f"{PTL}: scipy.optimize.linprog(c=, A_ub=, b_ub=, bounds=(None, None)) is the abstract primitive np_linprog "
                       "(class LPSolver); proofs/PolyGenBase.v instantiates it with the oracle of model/Poly.v behind scipy's "
                       "input validation (ValueError on an empty objective, a 1-D A_ub, mismatching sizes)")
    assumptions.append(f"{PTL}: `==`, `in` and list_diff on terms use {PT}.__eq__ as translated in gen/TermGen.v; logging and "
                       "docstrings are ignored")
    sha = hashlib.sha256("".join(hashed).encode()).hexdigest()
    ass = sorted(set(assumptions))
    header = ("(* GENERATED by /verif/translator/py2coq_poly.py from src/pacti/terms/polyhedra/polyhedra.py (and TermList.__sub__ of\n"
              "   iocontract.py) — do not edit.\n"
              f"   sha256 of the translated sources: {sha}\n"
              f"   translated: {', '.join(c + '.' + n for c, n, _, _ in PLAN)}\n"
              "   vocabulary: base/PyDict.v, base/PyLoop.v, base/PyTermList.v, base/PyNumpy.v, gen/TermGen.v, gen/TermListGen.v\n"
              "   (PolyhedralTermList_init / _vars / _copy / _lacks_constraints), gen/ListsGen.v, gen/ConstGen.v.\n"
              "   Every function is monadic.  Approximations (each is also an `assumption:` line of the translator):\n"
              + "".join("   - " + a.replace("*)", "* )") + "\n" for a in ass)
              + "*)\n"
              "From Coq Require Import List String Bool Arith ZArith QArith.\nImport ListNotations.\n"
              "Require Import Py ListsGen ConstGen Sem PyDict PyLoop TermGen PyTermList TermListGen PyNumpy.\n"
              "Open Scope py_scope.\n\nSection Poly.\nContext `{LPSolver}.\n\n")
    return header + "".join(texts) + "End Poly.\n", ass


if __name__ == "__main__":                                                   # pragma: no cover
    txt, ass_ = gen_poly(sys.argv[1])
    sys.stdout.write(txt)
