#!/usr/bin/env python3
"""T1, generator for the string PRINTER of polyhedral term lists -> coq/gen/PrinterGen.v.

Translated (fail closed on anything outside the subset, on a missing listed function, deterministic output):
  src/pacti/terms/polyhedra/serializer.py   _number_to_string, _are_numbers_approximatively_equal, _lhs_str,
                                            _are_polyhedral_terms_opposite, polyhedral_term_list_to_strings
                                            (+ any module-level helper of serializer.py these call, on demand)
  src/pacti/terms/polyhedra/polyhedra.py    PolyhedralTermList.to_str_list
Target vocabulary: coq/base/PyPrint.v on top of base/PyDict.v, PyLoop.v, PyTermList.v, PySyntax.v; the methods of
PolyhedralTerm that the printer calls (contains_var, __eq__ through list.remove, ...) are the translated ones of
gen/TermGen.v.  NOT translated, but named primitives (class PrintPrims of PyPrint.v): the number formatting
f"{x:.4g}" and np.isclose / math.isclose.  proofs/PrinterGen{Base,Opposite,Lhs,Fold,Facts}.v prove each generated
function EQUAL to the hand model of model/Printer.v.

Typing: every expression gets a static type (F float, B bool, S str, N int used as index, V Var, T PolyhedralTerm,
lists, pairs, dict {Var: float}); K is a condition decided by the static types (isinstance on a float).  Whether a
function (and each loop inside a monadic function) is monadic is INFERRED from its body.
"""
from __future__ import annotations

import ast
import hashlib
import re
import sys
from typing import Dict, List, Optional, Tuple

# py2coq.py is always run as a script: its classes live in __main__, not in a module called py2coq
_main = sys.modules.get("__main__")
if _main is not None and str(getattr(_main, "__file__", "")).endswith("py2coq.py") and hasattr(_main, "Unsupported"):
    P = _main
else:                                                  # imported from somewhere else (tests)
    import py2coq as P                                 # type: ignore

Unsupported, fail, strip_doc, class_def = P.Unsupported, P.fail, P.strip_doc, P.class_def
n_imports, n_no_redefinition, NeedMonad, COQ_KEYWORDS, qlit = (P.n_imports, P.n_no_redefinition, P.NeedMonad,
                                                               P.COQ_KEYWORDS, P.qlit)

SER_MOD = "pacti.terms.polyhedra.serializer"
LISTED = ["_number_to_string", "_are_numbers_approximatively_equal", "_lhs_str", "_are_polyhedral_terms_opposite",
          "polyhedral_term_list_to_strings"]
CONSTS = ["float_closeness_relative_tolerance", "float_closeness_absolute_tolerance"]     # read into gen/ConstGen.v
BUILTINS = ["isinstance", "float", "str", "bool", "list", "len", "enumerate", "sorted", "abs", "int", "print"]

VOCAB = {
    "format_4g", "np_isclose", "math_isclose", "math_isnan", "py_bool", "dict_items", "dict_values", "dict_keys",
    "dict_get", "list_truth", "py_slice_from", "py_slice_to", "py_slice_between", "py_append", "py_reverse",
    "insert_by_str", "list_sort_by_str", "while_fuel_m", "for_list", "for_list_m", "for_ret", "for_ret_m", "Continue",
    "Break", "Next", "Stop", "Return", "Done", "Returned", "step", "outcome", "ctl", "enumerate", "list_get_m",
    "list_remove_m", "py_list_copy", "var_name", "Var", "var", "pterm", "pvars", "mkT", "tvars", "tconst", "qneg",
    "qadd", "qsub", "qmul", "qabs", "qle", "qlt", "qge", "qgt", "q_eqb", "q_neb", "py_float", "len", "ret", "raise",
    "bind", "M", "Q", "bool", "list", "string", "nat", "unit", "tt", "true", "false", "negb", "andb", "orb", "fst",
    "snd", "pair", "nil", "cons", "app", "append", "rev", "map", "filter", "inl", "inr", "Some", "None", "option",
    "Escape", "ValueErr", "err", "term", "eqb", "String", "EmptyString", "Nat", "PrintPrims", "PP", "S", "O",
    "float_closeness_relative_tolerance", "float_closeness_absolute_tolerance", "REFINEMENT_TOLERANCE",
}
GEN_NAMES: set = set()


def cid(name: str) -> str:
    """Coq identifier for a Python local"""
    if re.match(r"^[a-z]+_\d+$", name):
        raise Unsupported(f"local name {name} collides with generated names")
    if not re.match(r"^[A-Za-z_][A-Za-z0-9_]*$", name) or name == "_":
        raise Unsupported(f"local name {name!r}")
    if name in COQ_KEYWORDS or name in VOCAB or name in GEN_NAMES or name.startswith("PolyhedralTerm_") \
            or name.startswith("serializer_"):
        return name + "_"
    return name


def coq_str(s: str) -> str:
    if not isinstance(s, str) or any(ord(ch) < 32 or ord(ch) > 126 for ch in s):
        raise Unsupported(f"string constant {s!r} (only printable ASCII is supported)")
    return '"' + s.replace('"', '""') + '"'


def comment_safe(s: str) -> str:
    return s.replace("(*", "( *").replace("*)", "* )")


# ---------------------------------------------------------------- types
class TV:
    """element type of an un-annotated `[]`, fixed by its first use"""

    def __init__(self):
        self.ref = None


def rt(t):
    while isinstance(t, TV) and t.ref is not None:
        t = t.ref
    if isinstance(t, tuple) and t[0] in ("L", "P"):
        return tuple([t[0]] + [rt(x) for x in t[1:]])
    return t


def tshow(t) -> str:
    t = rt(t)
    if isinstance(t, TV):
        return "?"
    if isinstance(t, tuple):
        if t[0] == "I":
            return f"int literal {t[1]}"
        if t[0] == "K":
            return f"static {t[1]}"
        return f"{t[0]}[{', '.join(tshow(x) for x in t[1:])}]"
    return t


ATOM_COQ = {"F": "Q", "B": "bool", "S": "string", "N": "nat", "V": "var", "T": "pterm", "U": "unit", "D": "pvars"}


def coqty(t) -> str:
    t = rt(t)
    if isinstance(t, TV):
        raise Unsupported("the element type of a list literal `[]` is never determined")
    if isinstance(t, tuple):
        if t[0] == "L":
            return f"list ({coqty(t[1])})"
        if t[0] == "P":
            return f"({coqty(t[1])} * {coqty(t[2])})"
        raise Unsupported(f"a value of type {tshow(t)} where a run-time value is needed")
    return ATOM_COQ[t]


def same(t1, t2) -> bool:
    t1, t2 = rt(t1), rt(t2)
    if isinstance(t1, TV):
        if t1 is not t2:
            t1.ref = t2
        return True
    if isinstance(t2, TV):
        t2.ref = t1
        return True
    if isinstance(t1, tuple) and isinstance(t2, tuple):
        if t1[0] in ("I", "K") or t2[0] in ("I", "K"):
            return False
        return t1[0] == t2[0] and len(t1) == len(t2) and all(same(a, b) for a, b in zip(t1[1:], t2[1:]))
    return t1 == t2


def is_list(t):
    t = rt(t)
    return isinstance(t, tuple) and t[0] == "L"


class PCtx:
    """what happens when a block falls off its end / breaks / returns (None: not allowed here)"""

    def __init__(self, fall, brk=None, ret=None):
        self.fall, self.brk, self.ret = fall, brk, ret


class Callee:
    def __init__(self, coq, params, rtype, monadic):
        self.coq, self.params, self.rtype, self.monadic = coq, params, rtype, monadic   # params: [(name, type)]


# external functions that are named primitives: canonical name -> (coq, positional names, {name: default}, ignored)
EXTERNAL = {
    "numpy.isclose": ("np_isclose", ["a", "b", "rtol", "atol", "equal_nan"], {"rtol": 1e-05, "atol": 1e-08}, ["equal_nan"]),
    "math.isclose": ("math_isclose", ["a", "b", "rel_tol", "abs_tol"], {"rel_tol": 1e-09, "abs_tol": 0.0}, []),
}
EXTERNAL_KWONLY = {"math.isclose": ["rel_tol", "abs_tol"]}


# ---------------------------------------------------------------- one function
class PFn:
    def __init__(self, world: "PWorld", fdef: ast.FunctionDef, label: str, rtype, assumptions: List[str]):
        self.w, self.f, self.label, self.rtype, self.assumptions = world, fdef, label, rtype, assumptions
        self.monadic = False
        self.tmp = 0

    # ------------------------------------------------------------ helpers
    def fresh(self, base="t"):
        self.tmp += 1
        return f"{base}_{self.tmp}"

    def ret(self, c):
        return f"ret {c}" if self.monadic else c

    def need_monad(self, what):
        if not self.monadic:
            raise NeedMonad(what)

    def emit_binds(self, pre, body, ind):
        out = ""
        for pat, m in pre:
            self.need_monad(m)
            out += f"{ind}{pat} <- {m} ;;\n"
        return out + body

    def inline_m(self, pre, c):
        self.need_monad(c)
        return "".join(f"{n} <- {m} ;; " for n, m in pre) + f"ret {c}"

    def sub(self, thunk):
        """translate a sub-block: pure if possible, otherwise monadic.  Returns (text, was_monadic)."""
        if not self.monadic:
            return thunk(), False
        saved_tmp, saved_ass = self.tmp, list(self.assumptions)
        self.monadic = False
        try:
            return thunk(), False
        except NeedMonad:
            self.tmp = saved_tmp
            self.assumptions[:] = saved_ass
            self.monadic = True
            return thunk(), True
        finally:
            self.monadic = True

    @staticmethod
    def owned(env):
        return env.get("%owned", frozenset())

    @staticmethod
    def with_owned(env, name, flag):
        env2 = dict(env)
        o = set(env.get("%owned", frozenset()))
        (o.add if flag else o.discard)(name)
        env2["%owned"] = frozenset(o)
        return env2

    def disown_mentions(self, env, node):
        o = set(self.owned(env))
        for n in ast.walk(node):
            if isinstance(n, ast.Name) and n.id in o:
                o.discard(n.id)
        env2 = dict(env)
        env2["%owned"] = frozenset(o)
        return env2

    def note(self, msg):
        a = f"{self.label}: {msg}"
        if a not in self.assumptions:
            self.assumptions.append(a)

    # ------------------------------------------------------------ coercions
    def coerce(self, c, t, want, node, what):
        t, want = rt(t), rt(want)
        if isinstance(t, tuple) and t[0] == "I":
            if want == "N":
                if t[1] < 0:
                    fail(node, f"{what}: negative int where an index is expected")
                return str(t[1])
            if want == "F":
                return qlit(t[1])
            if isinstance(want, TV):
                fail(node, f"{what}: int literal whose use does not fix its type")
            fail(node, f"{what}: int literal where {tshow(want)} is expected")
        if isinstance(t, tuple) and t[0] == "K":
            if want == "B":
                return "true" if t[1] else "false"
            fail(node, f"{what}: statically decided condition where {tshow(want)} is expected")
        if isinstance(t, tuple) and t[0] == "P" and isinstance(want, tuple) and want[0] == "P":
            # a pair built in place may contain int literals / empty lists: coerce componentwise when c is a literal pair
            pass
        if same(t, want):
            return c
        fail(node, f"{what}: expected {tshow(want)}, got {tshow(t)}")

    def as_bool(self, p, c, t, node):
        """truth value of an expression used as a condition"""
        t = rt(t)
        if t == "B" or (isinstance(t, tuple) and t[0] == "K"):
            return p, c, t
        if is_list(t):
            return p, f"(list_truth {c})", "B"
        fail(node, f"truthiness of a value of type {tshow(t)}")

    # ------------------------------------------------------------ expressions: (prebinds, coq, type)
    def tx(self, e, env):
        if isinstance(e, ast.Name):
            if not isinstance(e.ctx, ast.Load):
                fail(e, "name context")
            if e.id in env and not e.id.startswith("%"):
                return [], cid(e.id), env[e.id]
            if e.id in self.w.consts:
                self.w.used_consts.add(e.id)
                return [], e.id, "F"
            fail(e, f"unbound name {e.id}")
        if isinstance(e, ast.Constant):
            v = e.value
            if v is True:
                return [], "true", "B"
            if v is False:
                return [], "false", "B"
            if isinstance(v, str):
                return [], coq_str(v), "S"
            if isinstance(v, int):
                return [], str(v), ("I", v)
            if isinstance(v, float):
                return [], qlit(v), "F"
            fail(e, "constant")
        if isinstance(e, ast.JoinedStr):
            return self.tx_fstring(e, env)
        if isinstance(e, ast.Tuple) and isinstance(e.ctx, ast.Load):
            if len(e.elts) != 2:
                fail(e, "tuple of length other than 2")
            (p1, c1, t1), (p2, c2, t2) = self.tx(e.elts[0], env), self.tx(e.elts[1], env)
            return p1 + p2, f"({c1}, {c2})", ("P", t1, t2)
        if isinstance(e, ast.List) and isinstance(e.ctx, ast.Load):
            if not e.elts:
                return [], "[]", ("L", TV())
            parts = [self.tx(x, env) for x in e.elts]
            t0 = parts[0][2]
            for x, (_, _, t) in zip(e.elts, parts):
                if isinstance(rt(t), tuple) and rt(t)[0] in ("I", "K"):
                    fail(x, "list literal of int literals")
                if not same(t0, t):
                    fail(e, "list literal with elements of different static types")
            return [b for p, _, _ in parts for b in p], "[" + "; ".join(c for _, c, _ in parts) + "]", ("L", t0)
        if isinstance(e, ast.Attribute):
            return self.tx_attr(e, env)
        if isinstance(e, ast.Subscript):
            return self.tx_subscript(e, env)
        if isinstance(e, ast.Call):
            return self.tx_call(e, env)
        if isinstance(e, ast.UnaryOp):
            return self.tx_unary(e, env)
        if isinstance(e, ast.BinOp):
            return self.tx_binop(e, env)
        if isinstance(e, ast.BoolOp):
            return self.tx_boolop(e, env)
        if isinstance(e, ast.Compare):
            return self.tx_compare(e, env)
        if isinstance(e, ast.IfExp):
            pc, cc, tc = self.as_bool(*self.tx(e.test, env), e.test)
            if isinstance(rt(tc), tuple):
                return self.tx(e.body if rt(tc)[1] else e.orelse, env)
            (p1, c1, t1), (p2, c2, t2) = self.tx(e.body, env), self.tx(e.orelse, env)
            if p1 or p2:
                fail(e, "conditional expression whose branches may raise")
            if not same(t1, t2):
                fail(e, "conditional expression with branches of different types")
            return pc, f"(if {cc} then {c1} else {c2})", t1
        fail(e, "expression form")

    def tx_fstring(self, e, env):
        pre, parts = [], []
        for v in e.values:
            if isinstance(v, ast.Constant) and isinstance(v.value, str):
                if v.value != "":
                    parts.append(coq_str(v.value))
                continue
            if not isinstance(v, ast.FormattedValue) or v.conversion != -1:
                fail(e, "f-string piece")
            p, c, t = self.tx(v.value, env)
            t = rt(t)
            pre += p
            if v.format_spec is None:
                if t == "S":
                    parts.append(c)
                elif t == "V":
                    parts.append(f"(var_name {c})")
                else:
                    fail(v, f"f-string piece of type {tshow(t)} without a format specification")
                continue
            spec = v.format_spec
            if not (isinstance(spec, ast.JoinedStr) and len(spec.values) == 1 and isinstance(spec.values[0], ast.Constant)
                    and spec.values[0].value == ".4g"):
                fail(v, "format specification other than .4g")
            if t != "F":
                fail(v, f"format specification .4g on a value of type {tshow(t)}")
            parts.append(f"(format_4g {c})")
        if not parts:
            return pre, '""', "S"
        acc = parts[0]
        for x in parts[1:]:
            acc = f"({acc} ++ {x})"
        return pre, acc, "S"

    def tx_attr(self, e, env):
        if isinstance(e.value, ast.Name) and e.value.id not in env:
            fail(e, f"attribute of the unbound / module-level name {e.value.id}")
        p, c, t = self.tx(e.value, env)
        t = rt(t)
        table = {("T", "variables"): ("(tvars {0})", "D"), ("T", "constant"): ("(tconst {0})", "F"),
                 ("V", "name"): ("(var_name {0})", "S"), ("TL", "terms"): ("{0}", ("L", "T"))}
        if (t, e.attr) in table:
            pat, ty = table[(t, e.attr)]
            return p, pat.format(c), ty
        if t == "T" and e.attr in self.w.term_props:
            coq, mon, rty = self.w.term_props[e.attr]
            if mon:
                tmp = self.fresh("v")
                return p + [(tmp, f"{coq} {c}")], tmp, rty
            return p, f"({coq} {c})", rty
        fail(e, f"attribute {e.attr} of a value of type {tshow(t)}")

    def tx_index(self, node, env):
        p, c, t = self.tx(node, env)
        return p, self.coerce(c, t, "N", node, "index"), "N"

    def tx_subscript(self, e, env):
        if not isinstance(e.ctx, ast.Load):
            fail(e, "subscript context")
        p1, c1, t1 = self.tx(e.value, env)
        t1 = rt(t1)
        sl = e.slice
        if isinstance(sl, ast.Slice):
            if sl.step is not None:
                fail(e, "slice with a step")
            if not is_list(t1):
                fail(e, f"slice of a value of type {tshow(t1)}")
            if sl.lower is not None and sl.upper is None:
                p2, c2, _ = self.tx_index(sl.lower, env)
                return p1 + p2, f"(py_slice_from {c1} {c2})", t1
            if sl.lower is None and sl.upper is not None:
                p2, c2, _ = self.tx_index(sl.upper, env)
                return p1 + p2, f"(py_slice_to {c1} {c2})", t1
            if sl.lower is not None and sl.upper is not None:
                (p2, c2, _), (p3, c3, _) = self.tx_index(sl.lower, env), self.tx_index(sl.upper, env)
                return p1 + p2 + p3, f"(py_slice_between {c1} {c2} {c3})", t1
            return p1, f"(py_list_copy {c1})", t1
        if isinstance(t1, tuple) and t1[0] == "P":
            if isinstance(sl, ast.Constant) and sl.value in (0, 1) and type(sl.value) is int:
                return p1, f"({'fst' if sl.value == 0 else 'snd'} {c1})", t1[1 + sl.value]
            fail(e, "index of a pair other than the literals 0 / 1")
        if is_list(t1):
            p2, c2, _ = self.tx_index(sl, env)
            tmp = self.fresh("t")
            return p1 + p2 + [(tmp, f"list_get_m {c1} {c2}")], tmp, t1[1]
        if t1 == "D":
            p2, c2, t2 = self.tx(sl, env)
            if rt(t2) != "V":
                fail(e, f"dict key of type {tshow(t2)}")
            tmp = self.fresh("t")
            return p1 + p2 + [(tmp, f"dict_get {c1} {c2}")], tmp, "F"
        fail(e, f"subscript of a value of type {tshow(t1)}")

    def tx_unary(self, e, env):
        if isinstance(e.op, ast.USub):
            if isinstance(e.operand, ast.Constant) and isinstance(e.operand.value, (int, float)) \
                    and not isinstance(e.operand.value, bool):
                v = -e.operand.value
                return ([], str(v), ("I", v)) if isinstance(v, int) else ([], qlit(v), "F")
            p, c, t = self.tx(e.operand, env)
            if rt(t) != "F":
                fail(e, f"unary minus on a value of type {tshow(t)}")
            return p, f"(qneg {c})", "F"
        if isinstance(e.op, ast.Not):
            p, c, t = self.as_bool(*self.tx(e.operand, env), e.operand)
            t = rt(t)
            if isinstance(t, tuple):
                return p, "", ("K", not t[1])
            return p, f"(negb {c})", "B"
        fail(e, "unary operator")

    def tx_binop(self, e, env):
        (p1, c1, t1), (p2, c2, t2) = self.tx(e.left, env), self.tx(e.right, env)
        t1, t2 = rt(t1), rt(t2)
        pre = p1 + p2
        k1, k2 = isinstance(t1, tuple) and t1[0] == "K", isinstance(t2, tuple) and t2[0] == "K"
        i1, i2 = isinstance(t1, tuple) and t1[0] == "I", isinstance(t2, tuple) and t2[0] == "I"
        if isinstance(e.op, ast.BitAnd):
            if k1 and k2:
                return pre, "", ("K", t1[1] and t2[1])
            if t1 == "B" and t2 == "B":
                return pre, f"(andb {c1} {c2})", "B"
            fail(e, f"& on {tshow(t1)}, {tshow(t2)}")
        if isinstance(e.op, ast.BitOr):
            if k1 and k2:
                return pre, "", ("K", t1[1] or t2[1])
            if t1 == "B" and t2 == "B":
                return pre, f"(orb {c1} {c2})", "B"
            fail(e, f"| on {tshow(t1)}, {tshow(t2)}")
        if isinstance(e.op, ast.Add):
            if t1 == "S" and t2 == "S":
                return pre, f"({c1} ++ {c2})", "S"
            if i1 and i2:
                return pre, str(t1[1] + t2[1]), ("I", t1[1] + t2[1])
            if (t1 == "N" or i1) and (t2 == "N" or i2):
                a, b = self.coerce(c1, t1, "N", e, "+"), self.coerce(c2, t2, "N", e, "+")
                return pre, f"({a} + {b})%nat", "N"
            if t1 == "F" and t2 == "F":
                return pre, f"(qadd {c1} {c2})", "F"
            if is_list(t1) and is_list(t2) and same(t1, t2):
                return pre, f"({c1} ++ {c2})%list", t1
            fail(e, f"+ on {tshow(t1)}, {tshow(t2)}")
        if isinstance(e.op, (ast.Sub, ast.Mult)) and t1 == "F" and t2 == "F":
            return pre, f"({'qsub' if isinstance(e.op, ast.Sub) else 'qmul'} {c1} {c2})", "F"
        fail(e, f"binary operator {type(e.op).__name__} on {tshow(t1)}, {tshow(t2)}")

    def tx_boolop(self, e, env):
        parts = [self.as_bool(*self.tx(v, env), v) for v in e.values]
        is_and = isinstance(e.op, ast.And)
        ks = [isinstance(rt(t), tuple) for _, _, t in parts]
        if all(ks):
            vals = [rt(t)[1] for _, _, t in parts]
            return [], "", ("K", all(vals) if is_and else any(vals))
        if any(ks):
            fail(e, "and/or mixing statically decided and run-time conditions")
        if not any(p for p, _, _ in parts[1:]):
            op = "&&" if is_and else "||"
            return parts[0][0], "(" + f" {op} ".join(c for _, c, _ in parts) + ")", "B"
        # short-circuit evaluation of operands that may raise
        pn, cn, _ = parts[-1]
        acc = self.inline_m(pn, cn)
        for p, c, _ in reversed(parts[1:-1]):
            inner = f"if {c} then ({acc}) else ret false" if is_and else f"if {c} then ret true else ({acc})"
            acc = "".join(f"{n} <- {m} ;; " for n, m in p) + inner
        p0, c0, _ = parts[0]
        tmp = self.fresh("b")
        expr = f"(if {c0} then ({acc}) else ret false)" if is_and else f"(if {c0} then ret true else ({acc}))"
        return p0 + [(tmp, expr)], tmp, "B"

    def tx_compare(self, e, env):
        if len(e.ops) != 1:
            fail(e, "chained comparison")
        op = e.ops[0]
        (p1, c1, t1), (p2, c2, t2) = self.tx(e.left, env), self.tx(e.comparators[0], env)
        t1, t2 = rt(t1), rt(t2)
        pre = p1 + p2
        num = {ast.Gt: "qgt", ast.Lt: "qlt", ast.GtE: "qge", ast.LtE: "qle", ast.Eq: "q_eqb", ast.NotEq: "q_neb"}
        i1, i2 = isinstance(t1, tuple) and t1[0] == "I", isinstance(t2, tuple) and t2[0] == "I"
        if type(op) in num and ((t1 == "F" and (t2 == "F" or i2)) or (i1 and t2 == "F")):
            a, b = self.coerce(c1, t1, "F", e, "comparison"), self.coerce(c2, t2, "F", e, "comparison")
            return pre, f"({num[type(op)]} {a} {b})", "B"
        if isinstance(op, (ast.Eq, ast.NotEq)):
            r = None
            if t1 == "S" and t2 == "S":
                r = f"(String.eqb {c1} {c2})"
            elif (t1 == "N" or i1) and (t2 == "N" or i2) and not (i1 and i2):
                r = f"(Nat.eqb {self.coerce(c1, t1, 'N', e, '==')} {self.coerce(c2, t2, 'N', e, '==')})"
            elif t1 == "B" and t2 == "B":
                r = f"(Bool.eqb {c1} {c2})"
            elif t1 == "V" and t2 == "V":
                r = f"(String.eqb {c1} {c2})"
            elif t1 == "T" and t2 == "T":
                coq, mon = self.w.term_eq
                if mon:
                    tmp = self.fresh("b")
                    pre, r = pre + [(tmp, f"{coq} {c1} {c2}")], tmp
                else:
                    r = f"({coq} {c1} {c2})"
            if r is not None:
                return pre, (f"(negb {r})" if isinstance(op, ast.NotEq) else r), "B"
        if isinstance(op, (ast.In, ast.NotIn)) and t1 == "V" and t2 == ("L", "V"):
            r = f"(py_in {c1} {c2})"
            return pre, (f"(negb {r})" if isinstance(op, ast.NotIn) else r), "B"
        fail(e, f"comparison {type(op).__name__} on {tshow(t1)}, {tshow(t2)}")

    # ------------------------------------------------------------ calls
    @staticmethod
    def dotted(f):
        parts = []
        while isinstance(f, ast.Attribute):
            parts.append(f.attr)
            f = f.value
        if isinstance(f, ast.Name):
            parts.append(f.id)
            return ".".join(reversed(parts)), f.id
        return None, None

    def bind_args(self, node, names, args, kwargs, kwonly=()):
        """{parameter name: ast} in source evaluation order (positional, then keywords, left to right)"""
        positional = [n for n in names if n not in kwonly]
        if len(args) > len(positional):
            fail(node, "too many positional arguments")
        given: Dict[str, ast.AST] = {}
        for n_, a in zip(positional, args):
            given[n_] = a
        for k, a in kwargs.items():
            if k not in names or k in given:
                fail(node, f"keyword argument {k}")
            given[k] = a
        return given

    def call_callee(self, node, callee: Callee, args, kwargs, env, recv=None):
        names = [n for n, _ in callee.params]
        given = self.bind_args(node, names, args, kwargs)
        pre, vals = [], {}
        for n_, a in given.items():
            p, c, t = self.tx(a, env)
            want = dict(callee.params)[n_]
            if isinstance(rt(t), tuple) and rt(t)[0] == "I" and rt(want) == "F":
                fail(a, f"int literal passed as argument {n_} of {callee.coq}: the typed model takes numbers that reach "
                        "the printer to be Python floats (write a float literal or float(...))")
            pre += p
            vals[n_] = self.coerce(c, t, want, a, f"argument {n_} of {callee.coq}")
        for n_ in names:
            if n_ not in vals:
                fail(node, f"missing argument {n_} of {callee.coq}")
        call = " ".join([callee.coq] + ([recv] if recv is not None else []) + [vals[n_] for n_ in names])
        if callee.monadic:
            tmp = self.fresh("v")
            return pre + [(tmp, call)], tmp, callee.rtype
        return pre, f"({call})", callee.rtype

    def tx_call(self, e, env):
        f = e.func
        if any(isinstance(a, ast.Starred) for a in e.args) or any(k.arg is None for k in e.keywords):
            fail(e, "*args / **kwargs")
        kwargs = {k.arg: k.value for k in e.keywords}
        if len(kwargs) != len(e.keywords):
            fail(e, "repeated keyword argument")
        name, root = self.dotted(f)
        if root is not None and root in env:
            name = None                                    # a method call on a local
        if name is not None:
            if isinstance(f, ast.Name):
                r = self.builtin_call(e, f.id, kwargs, env)
                if r is not None:
                    return r
            target = self.w.resolve(name)
            if target in EXTERNAL:
                return self.external_call(e, target, kwargs, env)
            if target == "math.isnan":
                if kwargs or len(e.args) != 1:
                    fail(e, "arguments of math.isnan")
                p, c, t = self.tx(e.args[0], env)
                if rt(t) != "F":
                    fail(e, f"math.isnan of a value of type {tshow(t)}")
                self.note("math.isnan(x) is false (NaN is not modelled: a float is the rational it denotes)")
                return p, f"(math_isnan {c})", "B"
            callee = self.w.callee(target, e)
            if callee is not None:
                return self.call_callee(e, callee, e.args, kwargs, env)
            fail(e, f"call to {name}" + (f" (= {target})" if target != name else ""))
        if not isinstance(f, ast.Attribute):
            fail(e, "call form")
        # ---- method call on a local value
        p0, c0, t0 = self.tx(f.value, env)
        t0 = rt(t0)
        m = f.attr
        if t0 == "D" and m in ("items", "keys", "values") and not e.args and not kwargs:
            ety = {"items": ("P", "V", "F"), "keys": "V", "values": "F"}[m]
            return p0, f"(dict_{m} {c0})", ("L", ety)
        if is_list(t0) and m == "copy" and not e.args and not kwargs:
            return p0, f"(py_list_copy {c0})", t0
        if t0 == "T" and m in self.w.term_methods:
            pre, c, t = self.call_callee(e, self.w.term_methods[m], e.args, kwargs, env, recv=c0)
            return p0 + pre, c, t
        fail(e, f"method {m} on a value of type {tshow(t0)}")

    def external_call(self, e, target, kwargs, env):
        coq, names, defaults, ignored = EXTERNAL[target]
        given = self.bind_args(e, names, e.args, kwargs, EXTERNAL_KWONLY.get(target, ()))
        pre, vals = [], {}
        for n_, a in given.items():
            if n_ in ignored:
                if not (isinstance(a, ast.Constant) and isinstance(a.value, bool)):
                    fail(a, f"argument {n_} of {target} must be a bool constant")
                self.note(f"{target}(..., {n_}={a.value}) — {n_} is ignored (NaN is not modelled)")
                continue
            p, c, t = self.tx(a, env)
            if rt(t) != "F":
                fail(a, f"argument {n_} of {target} of type {tshow(t)} (floats only)")
            pre += p
            vals[n_] = c
        out = []
        for n_ in names:
            if n_ in ignored:
                continue
            if n_ in vals:
                out.append(vals[n_])
            elif n_ in defaults:
                out.append(qlit(defaults[n_]))
                self.note(f"{target}: parameter {n_} not given, its default {defaults[n_]!r} is used")
            else:
                fail(e, f"missing argument {n_} of {target}")
        self.note(f"{target} is NOT translated: it is the primitive {coq} of base/PyPrint.v:PrintPrims "
                  f"(argument order {', '.join(n_ for n_ in names if n_ not in ignored)})")
        return pre, f"({coq} {' '.join(out)})", "B"

    def static_isinstance(self, e, env):
        if len(e.args) != 2 or e.keywords:
            fail(e, "isinstance arity")
        p, c, t = self.tx(e.args[0], env)
        if p or rt(t) != "F":
            fail(e, f"isinstance on a value of static type {tshow(t)} (only numbers are supported)")
        cl = e.args[1]
        cls = list(cl.elts) if isinstance(cl, ast.Tuple) else [cl]
        if not cls:
            fail(e, "isinstance against an empty tuple")
        res = False
        for x in cls:
            nm, root = self.dotted(x)
            if nm is None or root in env:
                fail(e, f"isinstance against {ast.unparse(x)}")
            target = self.w.resolve(nm)
            table = {"float": True, "int": False, "sympy.core.numbers.Float": False}
            if target not in table or (target in ("float", "int") and target in env):
                fail(e, f"isinstance of a number against {ast.unparse(x)}")
            res = res or table[target]
        self.note(f"`{ast.unparse(e)}` is {res}: a number that reaches the printer is a Python float in the typed model "
                  "(PolyhedralTerm.__init__ stores float(value) / float(constant); literals and float(...) are floats); "
                  "one exact rational stands for it")
        return [], "", ("K", res)

    def builtin_call(self, e, fname, kwargs, env):
        if fname in env:
            fail(e, "call of a local")
        if fname not in {"isinstance", "float", "str", "bool", "list", "len", "sorted", "abs"}:
            return None
        if fname == "isinstance":
            return self.static_isinstance(e, env)
        if fname == "sorted":
            if len(e.args) != 1 or set(kwargs) != {"key"}:
                fail(e, "sorted(...) without exactly one positional argument and key=")
            p, c, t = self.tx(e.args[0], env)
            if not is_list(t):
                fail(e, f"sorted of a value of type {tshow(t)}")
            key = self.key_lambda(kwargs["key"], rt(t)[1], env)
            return p, f"(list_sort_by_str {c} {key})", t
        if kwargs or len(e.args) != 1:
            fail(e, f"arguments of {fname}(...)")
        p, c, t = self.tx(e.args[0], env)
        t = rt(t)
        if fname == "float":
            if t == "F" or (isinstance(t, tuple) and t[0] == "I"):
                return p, f"(py_float {self.coerce(c, t, 'F', e, 'float(...)')})", "F"
        if fname == "str":
            if t == "V":
                return p, f"(var_name {c})", "S"
            if t == "S":
                return p, c, "S"
        if fname == "bool" and t == "B":
            return p, f"(py_bool {c})", "B"
        if fname == "list" and is_list(t):
            return p, f"(py_list_copy {c})", t
        if fname == "len" and is_list(t):
            return p, f"(len {c})", "N"
        if fname == "abs" and t == "F":
            return p, f"(qabs {c})", "F"
        fail(e, f"call {fname}(...) on a value of type {tshow(t)}")

    def key_lambda(self, lam, ety, env):
        if not (isinstance(lam, ast.Lambda) and len(lam.args.args) == 1 and not lam.args.defaults
                and not lam.args.vararg and not lam.args.kwarg and not lam.args.kwonlyargs and not lam.args.posonlyargs):
            fail(lam, "sort key that is not a one-argument lambda")
        x = lam.args.args[0].arg
        if x in env:
            fail(lam, f"lambda parameter {x} shadows a local")
        env2 = dict(env)
        env2[x] = ety
        p, c, t = self.tx(lam.body, env2)
        if p:
            fail(lam, "sort key that may raise")
        if rt(t) != "S":
            fail(lam, f"sort key of type {tshow(t)} (only str keys are supported)")
        return f"(fun {cid(x)} => {c})"

    # ------------------------------------------------------------ statements
    def is_dropped(self, s, env) -> bool:
        if isinstance(s, ast.Pass):
            return True
        if isinstance(s, ast.Expr):
            v = s.value
            if isinstance(v, ast.Constant) and isinstance(v.value, str):
                return True
            if isinstance(v, ast.Call) and isinstance(v.func, ast.Attribute) and isinstance(v.func.value, ast.Name) \
                    and v.func.value.id == "logging" and "logging" not in env \
                    and self.w.imports.get("logging") == "logging" \
                    and v.func.attr in {"debug", "info", "warning", "error"}:
                for n in ast.walk(v):
                    if isinstance(n, (ast.Call, ast.Subscript, ast.BinOp, ast.Await, ast.NamedExpr)) and n is not v:
                        fail(n, "construct in a logging argument not known to be total")
                    if isinstance(n, ast.Name) and n.id not in env and n.id != "logging":
                        fail(n, f"name {n.id} in a logging argument is not bound here")
                self.note(f"logging.{v.func.attr}(...) ignored")
                return True
        return False

    def terminates(self, stmts) -> bool:
        if not stmts:
            return False
        s = stmts[-1]
        if isinstance(s, (ast.Raise, ast.Return, ast.Break, ast.Continue)):
            return True
        if isinstance(s, ast.If):
            return bool(s.orelse) and self.terminates(s.body) and self.terminates(s.orelse)
        return False

    def returns(self, stmts) -> bool:
        """every path through stmts ends in `return` (syntactically)"""
        if not stmts:
            return False
        s = stmts[-1]
        if isinstance(s, ast.Return):
            return True
        if isinstance(s, ast.If):
            return bool(s.orelse) and self.returns(s.body) and self.returns(s.orelse)
        return False

    INPLACE = {"append", "remove", "sort", "reverse"}

    def assigned(self, stmts, inplace=True, plain=True) -> List[str]:
        out: List[str] = []

        def add(n):
            if n not in out:
                out.append(n)

        def target(n):
            if isinstance(n, ast.Name):
                add(n.id)
            elif isinstance(n, ast.Tuple):
                for x in n.elts:
                    target(x)
            else:
                fail(n, "assignment target")

        for s in stmts:
            if isinstance(s, ast.Assign):
                if plain:
                    for t in s.targets:
                        target(t)
            elif isinstance(s, (ast.AugAssign, ast.AnnAssign)):
                if plain:
                    target(s.target)
            elif isinstance(s, ast.Expr) and isinstance(s.value, ast.Call) and isinstance(s.value.func, ast.Attribute) \
                    and isinstance(s.value.func.value, ast.Name) and s.value.func.attr in self.INPLACE:
                if inplace:
                    add(s.value.func.value.id)
            elif isinstance(s, ast.If):
                for n in self.assigned(s.body, inplace, plain) + self.assigned(s.orelse, inplace, plain):
                    add(n)
            elif isinstance(s, (ast.For, ast.While)):
                for n in self.assigned(s.body, inplace, plain):
                    add(n)
        return out

    def block(self, stmts, env, ind, ctx) -> str:
        if not stmts:
            return ctx.fall(env, ind)
        s, rest = stmts[0], list(stmts[1:])
        if self.is_dropped(s, env):
            return self.block(rest, env, ind, ctx)
        if isinstance(s, ast.Return):
            if rest:
                fail(s, "statements after return")
            if ctx.ret is None:
                fail(s, "return inside a while loop or inside an if whose branches are joined")
            if s.value is None:
                fail(s, "bare return")
            pre, c, t = self.tx_return_value(s.value, env)
            return self.emit_binds(pre, ctx.ret(c, ind), ind)
        if isinstance(s, ast.Break):
            if rest:
                fail(s, "statements after break")
            if ctx.brk is None:
                fail(s, "break outside a loop body (or inside joined branches)")
            return ctx.brk(env, ind)
        if isinstance(s, ast.Continue):
            if rest:
                fail(s, "statements after continue")
            if ctx.brk is None:
                fail(s, "continue outside a loop body (or inside joined branches)")
            return ctx.fall(env, ind)
        if isinstance(s, ast.Assign):
            if len(s.targets) != 1:
                fail(s, "multiple assignment targets")
            return self.tr_assign(s, s.targets[0], s.value, rest, env, ind, ctx)
        if isinstance(s, ast.AnnAssign):
            if s.value is None or not s.simple:
                fail(s, "annotation without a value")
            if not re.match(r"^[A-Za-z_\[\], .]+$", ast.unparse(s.annotation)):
                fail(s, "annotation")
            return self.tr_assign(s, s.target, s.value, rest, env, ind, ctx)
        if isinstance(s, ast.AugAssign):
            return self.tr_augassign(s, rest, env, ind, ctx)
        if isinstance(s, ast.Expr):
            return self.tr_expr_stmt(s, rest, env, ind, ctx)
        if isinstance(s, ast.If):
            return self.tr_if(s, rest, env, ind, ctx)
        if isinstance(s, ast.For):
            return self.tr_for(s, rest, env, ind, ctx)
        if isinstance(s, ast.While):
            return self.tr_while(s, rest, env, ind, ctx)
        fail(s, "statement form")

    def tx_return_value(self, value, env):
        """the returned expression, coerced to the declared return type (componentwise for a literal pair)"""
        want = rt(self.rtype)
        if isinstance(value, ast.Tuple) and isinstance(want, tuple) and want[0] == "P" and len(value.elts) == 2:
            (p1, c1, t1), (p2, c2, t2) = self.tx(value.elts[0], env), self.tx(value.elts[1], env)
            c1 = self.coerce(c1, t1, want[1], value, "returned value")
            c2 = self.coerce(c2, t2, want[2], value, "returned value")
            return p1 + p2, f"({c1}, {c2})", want
        pre, c, t = self.tx(value, env)
        return pre, self.coerce(c, t, want, value, "returned value"), want

    def bind_value(self, name, pre, c, ind):
        if pre and pre[-1][0] == c:
            return self.emit_binds(pre[:-1] + [(name, pre[-1][1])], "", ind)
        return self.emit_binds(pre, f"{ind}let {name} := {c} in\n", ind)

    @staticmethod
    def is_fresh(value):
        if isinstance(value, (ast.List, ast.ListComp)):
            return True
        if isinstance(value, ast.Subscript) and isinstance(value.slice, ast.Slice):
            return True
        if isinstance(value, ast.Call):
            f = value.func
            if isinstance(f, ast.Name) and f.id in ("list", "sorted"):
                return True
            if isinstance(f, ast.Attribute) and f.attr == "copy":
                return True
        return False

    def check_not_iterated(self, s, name, env):
        if name in env.get("%iter", frozenset()):
            fail(s, f"{name} is rebound inside a loop that iterates over it")

    def tr_assign(self, s, tgt, value, rest, env, ind, ctx):
        if isinstance(tgt, ast.Name):
            if tgt.id == "self":
                fail(s, "assignment to self")
            self.check_not_iterated(s, tgt.id, env)
            pre, c, t = self.tx(value, env)
            t = rt(t)
            if isinstance(t, tuple) and t[0] in ("I", "K"):
                fail(s, f"a local bound to a value of type {tshow(t)}")
            if tgt.id in env and not same(env[tgt.id], t):
                fail(s, f"{tgt.id} changes type from {tshow(env[tgt.id])} to {tshow(t)}")
            env2 = dict(env)
            env2[tgt.id] = t
            env2 = self.disown_mentions(env2, value)
            env2 = self.with_owned(env2, tgt.id, self.is_fresh(value))
            return self.bind_value(cid(tgt.id), pre, c, ind) + self.block(rest, env2, ind, ctx)
        if isinstance(tgt, ast.Tuple) and len(tgt.elts) == 2 and all(isinstance(x, ast.Name) for x in tgt.elts):
            pre, c, t = self.tx(value, env)
            t = rt(t)
            if not (isinstance(t, tuple) and t[0] == "P"):
                fail(s, f"unpacking of a value of type {tshow(t)}")
            env2 = dict(env)
            names = []
            for x, ty in zip(tgt.elts, t[1:]):
                self.check_not_iterated(s, x.id, env)
                if x.id in names or x.id == "self":
                    fail(s, "unpacking target")
                if x.id in env and not same(env[x.id], ty):
                    fail(s, f"{x.id} changes type")
                names.append(x.id)
                env2[x.id] = ty
            env2 = self.disown_mentions(env2, value)
            for n_ in names:
                env2 = self.with_owned(env2, n_, False)
            pat = "'(" + ", ".join(cid(n_) for n_ in names) + ")"
            if pre and pre[-1][0] == c:
                return self.emit_binds(pre[:-1] + [(pat, pre[-1][1])], "", ind) + self.block(rest, env2, ind, ctx)
            return self.emit_binds(pre, f"{ind}let {pat} := {c} in\n", ind) + self.block(rest, env2, ind, ctx)
        fail(s, "assignment target")

    def tr_augassign(self, s, rest, env, ind, ctx):
        tgt = s.target
        if not (isinstance(tgt, ast.Name) and isinstance(s.op, ast.Add) and tgt.id in env):
            fail(s, "augmented assignment form")
        self.check_not_iterated(s, tgt.id, env)
        t0 = rt(env[tgt.id])
        pre, c, t = self.tx(s.value, env)
        n = cid(tgt.id)
        if t0 == "S":
            if rt(t) != "S":
                fail(s, f"+= of a value of type {tshow(t)} to a str")
            # a str is immutable: s += e is the rebinding s = s + e
            return self.emit_binds(pre, f"{ind}let {n} := ({n} ++ {c}) in\n", ind) + self.block(rest, env, ind, ctx)
        if t0 == "F":
            return self.emit_binds(pre, f"{ind}let {n} := (qadd {n} {self.coerce(c, t, 'F', s, '+=')}) in\n", ind) \
                + self.block(rest, env, ind, ctx)
        if t0 == "N":
            return self.emit_binds(pre, f"{ind}let {n} := ({n} + {self.coerce(c, t, 'N', s, '+=')})%nat in\n", ind) \
                + self.block(rest, env, ind, ctx)
        fail(s, f"+= on a value of type {tshow(t0)}")

    def tr_expr_stmt(self, s, rest, env, ind, ctx):
        v = s.value
        if not (isinstance(v, ast.Call) and isinstance(v.func, ast.Attribute) and isinstance(v.func.value, ast.Name)
                and v.func.value.id in env and v.func.attr in self.INPLACE):
            fail(s, "expression statement")
        base, m = v.func.value.id, v.func.attr
        t0 = rt(env[base])
        if not is_list(t0):
            fail(s, f"{m} on a value of type {tshow(t0)}")
        if base not in self.owned(env):
            fail(s, f"in-place {m} on `{base}`, which is not known to be a fresh, unaliased list of this function")
        if any(isinstance(a, ast.Starred) for a in v.args) or any(k.arg is None for k in v.keywords):
            fail(s, "*args / **kwargs")
        if base in env.get("%iter", frozenset()) and not self.returns(rest):
            fail(s, f"in-place {m} on `{base}` inside a loop that iterates over it, not followed by `return` on every "
                    "path (the iteration would continue over the modified list)")
        n = cid(base)
        kwargs = {k.arg: k.value for k in v.keywords}
        if m == "sort":
            if v.args or set(kwargs) != {"key"}:
                fail(s, "sort(...) without exactly key=")
            key = self.key_lambda(kwargs["key"], t0[1], env)
            return f"{ind}let {n} := (list_sort_by_str {n} {key}) in\n" + self.block(rest, env, ind, ctx)
        if m == "reverse":
            if v.args or kwargs:
                fail(s, "arguments of reverse()")
            return f"{ind}let {n} := (py_reverse {n}) in\n" + self.block(rest, env, ind, ctx)
        if kwargs or len(v.args) != 1:
            fail(s, f"arguments of {m}(...)")
        pre, c, t = self.tx(v.args[0], env)
        et = rt(t0[1])
        if isinstance(et, TV):
            if isinstance(rt(t), tuple) and rt(t)[0] in ("I", "K"):
                fail(s, "appended value")
            same(et, t)
        c = self.coerce(c, t, t0[1], s, f"argument of {m}")
        env2 = self.disown_mentions(env, v.args[0])
        if m == "append":
            return self.emit_binds(pre, f"{ind}let {n} := (py_append {n} {c}) in\n", ind) + self.block(rest, env2, ind, ctx)
        # remove: the first element == x (PolyhedralTerm.__eq__ on terms); ValueError when there is none
        if rt(t0[1]) != "T":
            fail(s, f"remove on a list of {tshow(t0[1])}")
        coq, mon = self.w.term_eq
        if not mon:
            fail(s, "PolyhedralTerm.__eq__ is expected to be translated as a function that may raise (gen/TermGen.v)")
        self.note("list.remove(x) on a list of terms removes the first element equal to x by PolyhedralTerm.__eq__ "
                  "(gen/TermGen.v), ValueError when there is none (CPython tries `is` before `==`; a term equals "
                  "itself, NaN is not modelled)")
        return self.emit_binds(pre + [(n, f"list_remove_m {coq} {c} {n}")], "", ind) + self.block(rest, env2, ind, ctx)

    def tr_if(self, s, rest, env, ind, ctx):
        pre, c, t = self.as_bool(*self.tx(s.test, env), s.test)
        t = rt(t)
        body, orelse = list(s.body), list(s.orelse)
        tb, te = self.terminates(body), self.terminates(orelse)
        if isinstance(t, tuple):                         # statically decided
            if pre:
                fail(s, "statically decided condition with an operand that may raise")
            taken, term = (body, tb) if t[1] else (orelse, te)
            self.note(f"`if {ast.unparse(s.test)}` is statically {t[1]}: the other branch is dropped"
                      + (" (and what follows the if is unreachable)" if term and rest else ""))
            return self.block(taken + ([] if term else rest), env, ind, ctx)
        ind2 = ind + "  "
        if (tb and te) and rest:
            fail(s, "unreachable code after if")
        if tb or te or not rest:
            then_txt = self.block(body + ([] if tb else rest), env, ind2, ctx)
            else_txt = self.block(orelse + ([] if te else rest), env, ind2, ctx)
            return self.emit_binds(pre, f"{ind}if {c} then\n{then_txt}\n{ind}else\n{else_txt}", ind)
        return self.join([(f"if {c} then", body), ("else", orelse)], pre, s, rest, env, ind, ctx)

    def join(self, arms, pre, s, rest, env, ind, ctx):
        """several branches that fall through, followed by `rest`: join on the variables they assign"""
        allst = [x for _, b in arms for x in b]
        every = self.assigned(allst)
        names = [n for n in every if n in env]
        if set(every) - set(names):
            fail(s, "branches (re)bind a name that is not defined before the if (it would be local to the branch)")
        for n in names:
            if n in env.get("%iter", frozenset()):
                fail(s, f"{n} is updated inside a loop that iterates over it")
        cn = [cid(n) for n in names]
        tup = "tt" if not cn else ("(" + ", ".join(cn) + ")" if len(cn) > 1 else cn[0])
        pat = "_" if not cn else ("'" + tup if len(cn) > 1 else cn[0])
        envs = []

        def thunk():
            del envs[:]

            def fall(env2, i2):
                envs.append(env2)
                return f"{i2}{self.ret(tup)}"

            jctx = PCtx(fall)
            txt = ""
            for head, b in arms:
                txt += f"{ind}   {head}\n" + self.block(b, env, ind + "    ", jctx) + "\n"
            return f"{ind}  (\n{txt.rstrip()})"

        txt, mon = self.sub(thunk)
        env3 = dict(env)
        for n in names:
            for e2 in envs:
                if not same(e2[n], env[n]):
                    fail(s, f"joined variable {n} changes type")
        own = self.owned(env)
        for e2 in envs:
            own = own & self.owned(e2)
        env3["%owned"] = own
        head = f"{ind}{pat} <-\n{txt} ;;\n" if mon else f"{ind}let {pat} :=\n{txt} in\n"
        return self.emit_binds(pre, head, ind) + self.block(rest, env3, ind, ctx)

    # ---- loops
    def iter_source(self, it, env):
        if isinstance(it, ast.Call) and isinstance(it.func, ast.Name) and it.func.id == "enumerate" \
                and "enumerate" not in env and not it.keywords and len(it.args) == 1:
            p, c, ety = self.iter_source(it.args[0], env)
            return p, f"(enumerate {c})", ("P", "N", ety)
        p, c, t = self.tx(it, env)
        t = rt(t)
        if is_list(t):
            return p, c, t[1]
        if t == "D":
            return p, f"(dict_keys {c})", "V"
        fail(it, f"iteration over a value of type {tshow(t)}")

    def bind_target(self, tgt, ety, env):
        env2 = dict(env)
        names = []

        def go(t, ty):
            ty = rt(ty)
            if isinstance(t, ast.Name):
                if t.id in env or t.id in names or t.id in self.w.consts:
                    fail(t, f"loop variable {t.id} shadows a local (it would stay bound after the loop)")
                if isinstance(ty, TV):
                    fail(t, "loop over a list whose element type is not determined")
                names.append(t.id)
                env2[t.id] = ty
                return cid(t.id)
            if isinstance(t, ast.Tuple) and len(t.elts) == 2 and isinstance(ty, tuple) and ty[0] == "P":
                return f"({go(t.elts[0], ty[1])}, {go(t.elts[1], ty[2])})"
            fail(t, f"loop target for elements of type {tshow(ty)}")

        pat = go(tgt, ety)
        return (pat if isinstance(tgt, ast.Name) else "'" + pat), names, env2

    @staticmethod
    def acc_tuple(cn):
        tup = "tt" if not cn else ("(" + ", ".join(cn) + ")" if len(cn) > 1 else cn[0])
        fpat = "_" if not cn else ("'" + tup if len(cn) > 1 else cn[0])        # binder of a fun / bind
        mpat = "_" if not cn else tup                                          # pattern of a match arm
        return tup, fpat, mpat

    def tr_for(self, s, rest, env, ind, ctx):
        if s.orelse:
            fail(s, "for ... else")
        pi, ci, ety = self.iter_source(s.iter, env)
        pat, targets, env2 = self.bind_target(s.target, ety, env)
        body = list(s.body)
        body_assigned = self.assigned(body)
        if set(body_assigned) & set(targets):
            fail(s, "loop body rebinds the loop variable")
        iter_names = {n.id for n in ast.walk(s.iter) if isinstance(n, ast.Name) and n.id in env}
        if iter_names & set(self.assigned(body, inplace=False)):
            fail(s, "loop body rebinds a name the loop iterates over")
        # in-place updates of the iterated list are only accepted when `return` follows on every path (checked where
        # they occur), so the iterated names are never carried to the next iteration
        accs = [n for n in body_assigned if n in env and n not in iter_names]
        tup, fpat, mpat = self.acc_tuple([cid(n) for n in accs])
        has_ret = any(isinstance(n, ast.Return) for st in body for n in ast.walk(st))
        if has_ret and ctx.ret is None:
            fail(s, "return inside a loop, in a context where return is not supported")
        env2["%iter"] = frozenset(env.get("%iter", frozenset()) | iter_names)
        for n in body_assigned:                       # names first bound inside the body are local to one iteration
            if n not in env and n in env2:
                fail(s, f"{n} is both a loop variable and assigned")
        envs = []
        nxt, stp = ("Next", "Stop") if has_ret else ("Continue", "Break")

        def thunk():
            del envs[:]

            def fall(e3, i3):
                envs.append(e3)
                return f"{i3}{self.ret(f'({nxt} {tup})')}"

            def brk(e3, i3):
                envs.append(e3)
                return f"{i3}{self.ret(f'({stp} {tup})')}"

            def ret_h(c, i3):
                return f"{i3}{self.ret(f'(Return {c})')}"

            return self.block(body, env2, ind + "    ", PCtx(fall, brk, ret_h if has_ret else None))

        txt, mon = self.sub(thunk)
        for n in accs:
            for e3 in envs:
                if not same(e3[n], env[n]):
                    fail(s, f"loop variable {n} changes type")
        env3 = dict(env)
        own = self.owned(env)
        for e3 in envs:
            own = own & (self.owned(e3) | frozenset(iter_names))
        env3["%owned"] = own & self.owned(env)
        if not has_ret:
            if not accs and not mon:
                fail(s, "loop without any effect")
            call = f"for_list{'_m' if mon else ''} {ci} {tup} (fun {fpat} {pat} =>\n{txt})"
            head = f"{ind}{fpat} <- {call} ;;\n" if mon else f"{ind}let {fpat} := {call} in\n"
            return self.emit_binds(pi, head, ind) + self.block(rest, env3, ind, ctx)
        o, r = self.fresh("o"), self.fresh("r")
        call = f"for_ret{'_m' if mon else ''} {ci} {tup} (fun {fpat} {pat} =>\n{txt})"
        head = f"{ind}{o} <- {call} ;;\n" if mon else f"{ind}let {o} := {call} in\n"
        after = self.block(rest, env3, ind + "    ", ctx)
        return self.emit_binds(pi, head, ind) + (f"{ind}match {o} with\n{ind}| Returned {r} =>\n"
                                                 + ctx.ret(r, ind + "    ") + f"\n{ind}| Done {mpat} =>\n{after}\n{ind}end")

    def tr_while(self, s, rest, env, ind, ctx):
        if s.orelse:
            fail(s, "while ... else")
        test = s.test
        if not (isinstance(test, ast.Name) and test.id in env and is_list(env[test.id])):
            fail(s, "while loop whose condition is not the truth value of a local list (no fuel measure is known)")
        body = list(s.body)
        if any(isinstance(n, ast.Return) for st in body for n in ast.walk(st)):
            fail(s, "return inside a while loop")
        body_assigned = self.assigned(body)
        accs = [n for n in body_assigned if n in env]
        if test.id not in accs:
            fail(s, f"the body of `while {test.id}:` never updates {test.id}")
        if test.id in env.get("%iter", frozenset()):
            fail(s, "while loop over a list that an enclosing loop iterates over")
        tup, fpat, _ = self.acc_tuple([cid(n) for n in accs])
        self.need_monad("while")
        self.note(f"`while {test.id}:` is rendered with explicit fuel = len({test.id}) taken at loop entry (while_fuel_m of "
                  "base/PyPrint.v: Escape \"fuel\" if it runs out while the condition still holds); the fuel is shown "
                  "sufficient in proofs/PrinterGenFold.v (every iteration hands back a strictly shorter list, so the "
                  "generated function equals `ret` of the hand model)")
        envs = []

        def fall(e3, i3):
            envs.append(e3)
            return f"{i3}ret (Continue {tup})"

        def brk(e3, i3):
            envs.append(e3)
            return f"{i3}ret (Break {tup})"

        txt = self.block(body, dict(env), ind + "    ", PCtx(fall, brk, None))
        for n in accs:
            for e3 in envs:
                if not same(e3[n], env[n]):
                    fail(s, f"loop variable {n} changes type")
        env3 = dict(env)
        own = self.owned(env)
        for e3 in envs:
            own = own & self.owned(e3)
        env3["%owned"] = own
        n = cid(test.id)
        head = (f"{ind}{fpat} <- while_fuel_m (len {n}) {tup} (fun {fpat} => (list_truth {n})) (fun {fpat} =>\n{txt}) ;;\n")
        return head + self.block(rest, env3, ind, ctx)

    # ------------------------------------------------------------ whole function
    def translate(self, params) -> Tuple[str, bool]:
        env = {n: t for n, t in params}
        env["%owned"] = frozenset()
        env["%iter"] = frozenset()
        stmts = list(self.f.body)

        def end(env_, ind_):
            fail(self.f, "function falls off the end (returns None)")

        def run():
            self.tmp = 0
            return self.block(stmts, env, "  ", PCtx(end, None, lambda c, ind_: f"{ind_}{self.ret(c)}"))

        saved = list(self.assumptions)
        self.monadic = False
        try:
            return run(), False
        except NeedMonad:
            self.assumptions[:] = saved
            self.monadic = True
            return run(), True


# ---------------------------------------------------------------- the modules
ANNOT = {"numeric": "F", "float": "F", "PolyhedralTerm": "T", "List[PolyhedralTerm]": ("L", "T"), "str": "S",
         "bool": "B", "Var": "V"}
RANNOT = {"str": "S", "bool": "B", "numeric": "F", "float": "F", "PolyhedralTerm": "T",
          "Tuple[str, List[PolyhedralTerm]]": ("P", "S", ("L", "T")), "List[str]": ("L", "S"),
          "List[PolyhedralTerm]": ("L", "T")}
FORBIDDEN = (ast.Global, ast.Nonlocal, ast.FunctionDef, ast.AsyncFunctionDef, ast.ClassDef, ast.Import, ast.ImportFrom,
             ast.Try, ast.Yield, ast.YieldFrom, ast.Await, ast.NamedExpr, ast.Delete, ast.With, ast.Assert, ast.Raise,
             ast.ListComp, ast.DictComp, ast.SetComp, ast.GeneratorExp, ast.Starred)


class PWorld:
    def __init__(self):
        self.imports: Dict[str, str] = {}          # of the CURRENT module
        self.module = ""                           # canonical name of the current module
        self.consts: Dict[str, float] = {}         # module-level numeric constants usable in the current module
        self.used_consts: set = set()
        self.fdefs: Dict[str, ast.FunctionDef] = {}    # module-level functions of serializer.py
        self.callees: Dict[str, Callee] = {}       # canonical name -> translated function
        self.in_progress: List[str] = []
        self.term_methods: Dict[str, Callee] = {}
        self.term_props: Dict[str, tuple] = {}
        self.term_eq = ("PolyhedralTerm_eq", True)
        self.translate_helper = None               # callback: translate a serializer function on demand

    def resolve(self, name: str) -> str:
        parts = name.split(".")
        head = parts[0]
        if head in self.imports:
            return ".".join([self.imports[head]] + parts[1:])
        if len(parts) == 1 and self.module == SER_MOD and head in self.fdefs:
            return f"{SER_MOD}.{head}"
        return name

    def callee(self, target, node):
        if target in self.callees:
            return self.callees[target]
        if target.startswith(SER_MOD + ".") and target[len(SER_MOD) + 1:] in self.fdefs and self.translate_helper:
            return self.translate_helper(target[len(SER_MOD) + 1:], node)
        return None


def no_forbidden(f, reserved, where):
    for n in ast.walk(f):
        if isinstance(n, FORBIDDEN) and n is not f:
            fail(n, f"{where}: construct outside the translated subset in {f.name}")
        if isinstance(n, ast.Name) and isinstance(n.ctx, (ast.Store, ast.Del)) and n.id in reserved:
            fail(n, f"{where}: {n.id} is rebound inside {f.name}")
        if isinstance(n, ast.arg) and n.arg in reserved:
            fail(n, f"{where}: parameter named {n.arg} in {f.name}")
        if isinstance(n, ast.Lambda):
            for a in n.args.args:
                if a.arg in reserved:
                    fail(n, f"{where}: lambda parameter named {a.arg}")


def plain_params(f, where, skip_self=False):
    a = f.args
    if a.vararg or a.kwarg or a.kwonlyargs or a.posonlyargs or a.defaults or a.kw_defaults:
        raise Unsupported(f"{where}: signature of {f.name}")
    if f.decorator_list:
        raise Unsupported(f"{where}: decorators of {f.name}")
    args = list(a.args)
    if skip_self:
        if not args or args[0].arg != "self":
            raise Unsupported(f"{where}: {f.name} is expected to take self")
        args = args[1:]
    out = []
    for arg in args:
        ann = ast.unparse(arg.annotation) if arg.annotation is not None else None
        if ann not in ANNOT:
            fail(arg, f"{where}: annotation {ann} of parameter {arg.arg} of {f.name}")
        out.append((arg.arg, ANNOT[ann]))
    rann = ast.unparse(f.returns) if f.returns is not None else None
    if rann not in RANNOT:
        fail(f, f"{where}: return annotation {rann} of {f.name}")
    return out, RANNOT[rann]


def module_constants(mod, text_name):
    """module-level NAME = <number> / NAME: float = <number>, assigned exactly once"""
    found: Dict[str, list] = {}
    for n in mod.body:
        tgt, val = None, None
        if isinstance(n, ast.Assign) and len(n.targets) == 1 and isinstance(n.targets[0], ast.Name):
            tgt, val = n.targets[0].id, n.value
        elif isinstance(n, ast.AnnAssign) and isinstance(n.target, ast.Name) and n.value is not None:
            tgt, val = n.target.id, n.value
        if tgt is not None:
            found.setdefault(tgt, []).append(val)
    out = {}
    for name in CONSTS:
        vals = found.get(name, [])
        if len(vals) != 1:
            continue
        try:
            v = ast.literal_eval(vals[0])
        except Exception:
            continue
        if isinstance(v, (int, float)) and not isinstance(v, bool) and v == v and v not in (float("inf"), float("-inf")):
            out[name] = v
    return out


def gen_printer(repo) -> Tuple[str, List[str]]:
    src = f"{repo}/src/pacti"
    paths = {"serializer": f"{src}/terms/polyhedra/serializer.py", "polyhedra": f"{src}/terms/polyhedra/polyhedra.py",
             "iocontract": f"{src}/iocontract/iocontract.py"}
    text = {k: open(p).read() for k, p in paths.items()}
    mods = {k: ast.parse(t) for k, t in text.items()}
    assumptions: List[str] = []
    GEN_NAMES.clear()
    w = PWorld()
    segs: List[str] = []
    defs: List[str] = []               # generated definitions, in dependency order
    covered: List[str] = []

    # ---------------- Var: a variable is its name
    vcls = class_def(mods["iocontract"], "Var")
    vm = {n.name: n for n in vcls.body if isinstance(n, ast.FunctionDef)}
    for m, want in (("__init__", "self._name = str(varname)"), ("name", "return self._name"), ("__str__", "return self.name")):
        if m not in vm:
            raise Unsupported(f"Var.{m} missing")
        body = strip_doc(vm[m]).body
        if len(body) != 1 or ast.unparse(body[0]) != want:
            raise Unsupported(f"Var.{m} is expected to be `{want}`")
    assumptions.append("printer: a Var is its name (var = string; checked: Var.__init__ stores str(varname), .name and "
                       "__str__ return it): v.name and str(v) are var_name v")

    # ---------------- PolyhedralTerm: fields and the translated methods of gen/TermGen.v
    pmod = mods["polyhedra"]
    ptc = class_def(pmod, "PolyhedralTerm")
    pinit = [n for n in ptc.body if isinstance(n, ast.FunctionDef) and n.name == "__init__"]
    if len(pinit) != 1:
        raise Unsupported("PolyhedralTerm.__init__ missing")
    init_txt = ast.unparse(strip_doc(pinit[0]))
    for want in ("variable_dict[key] = float(value)", "self.variables = variable_dict", "self.constant = float(constant)"):
        if want not in init_txt:
            raise Unsupported(f"PolyhedralTerm.__init__ is expected to contain `{want}` (the typed model of the printer "
                              "takes coefficients and constants to be Python floats)")
    assumptions.append("printer: t.variables / t.constant of a PolyhedralTerm are tvars t / tconst t (checked: __init__ "
                       "stores a dict of float(value) and float(constant)); one exact rational stands for a float; ints "
                       "or sympy Floats stored by assigning to the attributes directly are outside the typed model")
    term_txt, _ = P.gen_term(paths["polyhedra"])       # raises Unsupported when TermGen.v itself is poisoned
    sigs = {}
    for mm in re.finditer(r"^Definition (PolyhedralTerm_\w+) ([^\n]*) : ([^:\n]*?) :=$", term_txt, re.M):
        sigs[mm.group(1)] = (mm.group(2), mm.group(3))

    def term_sig(coq, want_params, want_ret):
        if coq not in sigs:
            return None
        ps, r = sigs[coq]
        got = re.findall(r"\((\w+) : ([^()]+|\([^()]*\))\)", ps)
        if [t for _, t in got] != ["pterm"] + want_params:
            return None
        r = r.strip()
        if r in (want_ret, f"({want_ret})"):
            return False
        if r in (f"M {want_ret}", f"M ({want_ret})"):
            return True
        return None

    mon = term_sig("PolyhedralTerm_contains_var", ["var"], "bool")
    if mon is not None:
        w.term_methods["contains_var"] = Callee("PolyhedralTerm_contains_var", [("var_to_seek", "V")], "B", mon)
    mon = term_sig("PolyhedralTerm_get_coefficient", ["var"], "Q")
    if mon is not None:
        w.term_methods["get_coefficient"] = Callee("PolyhedralTerm_get_coefficient", [("var", "V")], "F", mon)
    mon = term_sig("PolyhedralTerm_vars", [], "list var")
    if mon is not None:
        w.term_props["vars"] = ("PolyhedralTerm_vars", mon, ("L", "V"))
    mon = term_sig("PolyhedralTerm_eq", ["pterm"], "bool")
    if mon is None:
        raise Unsupported("gen/TermGen.v: PolyhedralTerm_eq has an unexpected signature")
    w.term_eq = ("PolyhedralTerm_eq", mon)
    # the parameter names of the methods are read from the source (for keyword arguments)
    for n in ptc.body:
        if isinstance(n, ast.FunctionDef) and n.name in w.term_methods:
            names = [a.arg for a in n.args.args[1:]]
            c = w.term_methods[n.name]
            if len(names) == len(c.params):
                c.params = [(nm, t) for nm, (_, t) in zip(names, c.params)]
    assumptions.append("printer: methods of PolyhedralTerm called by the printer (contains_var, ... and __eq__ through "
                       "list.remove) are the translated functions of gen/TermGen.v")

    # ---------------- serializer.py
    smod = mods["serializer"]
    w.imports = n_imports(smod)
    w.module = SER_MOD
    if w.imports.get("PolyhedralTerm") != "pacti.terms.polyhedra.polyhedra.PolyhedralTerm":
        raise Unsupported("serializer.py: PolyhedralTerm is expected to be imported from pacti.terms.polyhedra.polyhedra")
    for alias, want in (("np", "numpy"), ("math", "math"), ("sympy", "sympy"), ("logging", "logging")):
        if alias in w.imports and w.imports[alias] != want:
            raise Unsupported(f"serializer.py: module-level name {alias} is {w.imports[alias]}, expected {want}")
    w.fdefs = {}
    for n in smod.body:
        if isinstance(n, ast.FunctionDef):
            if n.name in w.fdefs:
                raise Unsupported(f"serializer.py: function {n.name} defined twice")
            w.fdefs[n.name] = n
    for name in LISTED:
        if name not in w.fdefs:
            raise Unsupported(f"serializer.py: listed function {name} is missing")
    n_no_redefinition(smod, BUILTINS + [a for a in ("np", "math", "sympy", "logging", "PolyhedralTerm") if a in w.imports], [])
    w.consts = module_constants(smod, "serializer.py")
    reserved = set(BUILTINS) | set(w.imports) | set(w.fdefs) | set(CONSTS)

    def translate_ser(pyname, node=None):
        target = f"{SER_MOD}.{pyname}"
        if target in w.callees:
            return w.callees[target]
        if pyname in w.in_progress:
            fail(node if node is not None else w.fdefs[pyname], f"serializer.py: {pyname} is recursive")
        w.in_progress.append(pyname)
        f = w.fdefs[pyname]
        segs.append(ast.get_source_segment(text["serializer"], f) or "")
        pysig = next(l for l in ast.unparse(f).split("\n") if l.startswith("def "))
        strip_doc(f)
        no_forbidden(f, reserved, "serializer.py")
        params, rtype = plain_params(f, "serializer.py")
        coq = "serializer_" + pyname
        GEN_NAMES.add(coq)
        fn = PFn(w, f, f"serializer.{pyname}", rtype, assumptions)
        body, mon_ = fn.translate(params)
        sig = " ".join(f"({cid(n_)} : {coqty(t)})" for n_, t in params)
        r = coqty(rtype)
        defs.append(f"(* {comment_safe(pysig)} *)\nDefinition {coq} {sig} : {'M (' + r + ')' if mon_ else r} :=\n{body}.\n\n")
        covered.append(f"serializer.{pyname}")
        c = Callee(coq, params, rtype, mon_)
        w.callees[target] = c
        w.in_progress.pop()
        return c

    w.translate_helper = translate_ser
    for name in LISTED:
        translate_ser(name)
    for cname in sorted(w.used_consts):
        if cname not in w.consts:
            raise Unsupported(f"serializer.py: module constant {cname}")
    if w.used_consts:
        assumptions.append("printer: the module constants " + ", ".join(sorted(w.used_consts)) + " are the definitions "
                           "of gen/ConstGen.v (a float literal is the exact rational it denotes; checked: assigned once, "
                           "to a literal, at module level and never rebound)")
    assumptions.append("printer: the number formatting f\"{x:.4g}\" of a float is NOT translated: it is the primitive "
                       "format_4g of base/PyPrint.v:PrintPrims (instance in the proofs: model/Printer.v:fmt4)")
    assumptions.append("printer: NaN, inf and signed zeros are not modelled (a float is the rational it denotes)")

    # ---------------- polyhedra.py: PolyhedralTermList.to_str_list
    w.imports = n_imports(pmod)
    w.module = "pacti.terms.polyhedra.polyhedra"
    w.consts = {}
    if w.imports.get("serializer") != SER_MOD:
        raise Unsupported(f"polyhedra.py: module-level name serializer is {w.imports.get('serializer')}, expected {SER_MOD}")
    n_no_redefinition(pmod, BUILTINS + ["serializer"], ["PolyhedralTerm", "PolyhedralTermList"])
    ptl = class_def(pmod, "PolyhedralTermList")
    if [ast.unparse(b) for b in ptl.bases] != ["TermList"] or ptl.keywords or ptl.decorator_list:
        raise Unsupported("PolyhedralTermList is expected to be a plain subclass of TermList")
    ptlm = {}
    for n in ptl.body:
        if isinstance(n, ast.FunctionDef):
            if n.name in ptlm:
                raise Unsupported(f"PolyhedralTermList.{n.name} defined twice")
            ptlm[n.name] = n
    if "__init__" not in ptlm or "__new__" in ptlm or "__getattr__" in ptlm or "__getattribute__" in ptlm:
        raise Unsupported("PolyhedralTermList.__init__ missing (or __new__ / __getattr__ defined)")
    want_tl = ("if terms is None:\n    self.terms = []\nelif all((isinstance(t, PolyhedralTerm) for t in terms)):\n"
               "    self.terms = terms.copy()\nelse:\n    raise ValueError('PolyhedralTermList constructor argument must be "
               "a list of PolyhedralTerms.')")
    tl_init = ptlm["__init__"]
    got_tl = "\n".join(ast.unparse(x) for x in strip_doc(tl_init).body)
    if [a.arg for a in tl_init.args.args] != ["self", "terms"] or got_tl != want_tl:
        raise Unsupported("PolyhedralTermList.__init__ is expected to store a copy of a list of PolyhedralTerms")
    assumptions.append("printer: a PolyhedralTermList object is the list stored in its field `terms` (checked: __init__ "
                       "stores terms.copy() when every element is a PolyhedralTerm); value model: list(l) / l.copy() / "
                       "l[a:] build a new list with the same elements, in-place updates (append, remove, sort, reverse) "
                       "of a local list are rebindings — accepted only on a list this function built itself and has "
                       "not aliased (checked syntactically)")
    if "to_str_list" not in ptlm:
        raise Unsupported("polyhedra.py: listed method PolyhedralTermList.to_str_list is missing")
    f = ptlm["to_str_list"]
    segs.append(ast.get_source_segment(text["polyhedra"], f) or "")
    pysig = next(l for l in ast.unparse(f).split("\n") if l.startswith("def "))
    strip_doc(f)
    no_forbidden(f, set(BUILTINS) | set(w.imports) | {"PolyhedralTerm", "PolyhedralTermList"}, "polyhedra.py")
    params, rtype = plain_params(f, "polyhedra.py", skip_self=True)
    if params:
        raise Unsupported("signature of PolyhedralTermList.to_str_list")
    coq = "PolyhedralTermList_to_str_list"
    GEN_NAMES.add(coq)
    w.translate_helper = None                # polyhedra.py may only call what serializer.py's listed functions needed
    fn = PFn(w, f, "PolyhedralTermList.to_str_list", rtype, assumptions)
    body, mon_ = fn.translate([("self", "TL")])
    r = coqty(rtype)
    defs.append(f"(* {comment_safe(pysig)} *)\nDefinition {coq} (self : list pterm) : {'M (' + r + ')' if mon_ else r} :=\n"
                f"{body}.\n\n")
    covered.append("PolyhedralTermList.to_str_list")

    # ---------------- the file
    assumptions = sorted(set(assumptions))
    sha = hashlib.sha256("\n".join(segs).encode()).hexdigest()
    header = (
        "(* GENERATED by /verif/translator/py2coq_printer.py (run by py2coq.py) — do not edit.\n"
        "   from src/pacti/terms/polyhedra/serializer.py and src/pacti/terms/polyhedra/polyhedra.py:\n"
        "   " + ", ".join(covered) + "\n"
        f"   sha256 of the translated function sources: {sha}\n"
        "   vocabulary: base/PyPrint.v (strings, sort by a str key, slices, while on fuel, the NOT translated primitives\n"
        "   format_4g / np_isclose / math_isclose as the class PrintPrims) on top of base/PyDict.v, PyLoop.v, PyTermList.v,\n"
        "   PySyntax.v; the PolyhedralTerm methods are those of gen/TermGen.v, the tolerances those of gen/ConstGen.v.\n"
        "   Monadic (M _) exactly where the body contains an operation that may raise.  logging and docstrings are ignored.\n"
        "   Assumptions (each is also printed by the translator as an `assumption:` line):\n"
        + "".join(f"   - {comment_safe(a)}\n" for a in assumptions) +
        "*)\n"
        "From Coq Require Import List String Bool QArith Arith.\nImport ListNotations.\n"
        "Require Import Py Sem PyDict PyLoop PySyntax PyTermList PyPrint ConstGen TermGen.\n"
        "Open Scope py_scope.\nLocal Open Scope string_scope.\n\n"
        "Section PrinterGen.\n"
        "(* f\"{x:.4g}\", np.isclose, math.isclose: not translated (base/PyPrint.v) *)\n"
        "Context {PP : PrintPrims}.\n\n")
    return header + "".join(defs) + "End PrinterGen.\n", assumptions


if __name__ == "__main__":
    txt, ass = gen_printer(sys.argv[1])
    sys.stdout.write(txt)
    for a in ass:
        sys.stderr.write("assumption: " + a + "\n")
