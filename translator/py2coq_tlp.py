#!/usr/bin/env python3
"""T1 generator for the last untranslated pieces of the variable-elimination code of
pacti.terms.polyhedra.polyhedra -> coq/gen/TlpGen.v, over the vocabularies of coq/base/PyDict.v, PyLoop.v,
PyTermList.v, PyNumpy.v and PyLinalg.v.

Translated: PolyhedralTerm.solve_for_variables (up to and around the sympy calls), PolyhedralTermList._get_tlp_context
(tactic 5) and PolyhedralTermList._context_reduction (tactics 1, 3, 5).  Called, not translated here: the
PolyhedralTerm methods of gen/TermGen.v, __init__ / vars of gen/TermListGen.v, _get_kaykobad_context of
gen/TermListGen.v and termlist_to_polytope of gen/PolyGen.v (their generated signatures are re-read and checked).
NAMED PRIMITIVES (class LinalgPrims of base/PyLinalg.v; class LPSolver of base/PyNumpy.v): np.linalg.solve,
np.isclose on an array, scipy's linprog, and the sympy round trip (PolyhedralTerm.to_symbolic, sympy.symbols,
sympy.solve and the mapping it returns, PolyhedralTerm.to_term).  proofs/TlpGen*.v prove every generated function
EQUAL to the hand model of model/Tactics.v (the primitives instantiated with the hand model's exact Gauss-Jordan
elimination and its tolerance test).

The statement / expression translator is class PFn of py2coq_poly.py; class TFn below adds the constructs these three
functions need (list / dict comprehensions, conditional expressions, a.T, np.where(c)[0], `objective *= -1` on a fresh
array, `except np.linalg.LinAlgError`, dicts {Var: PolyhedralTerm}, the sympy objects).

Fail closed: anything outside the subset raises Unsupported, and py2coq.main poisons gen/TlpGen.v only.
"""
from __future__ import annotations

import ast
import hashlib
import os
import re
import sys
from typing import List, Tuple

_main = sys.modules.get("__main__")
if _main is not None and os.path.basename(getattr(_main, "__file__", "") or "") == "py2coq.py" and hasattr(_main, "NFn"):
    P = _main
else:                                                                        # pragma: no cover
    import py2coq as P
import py2coq_termlist as T
import py2coq_poly as PP

Unsupported, fail, check_message_total, strip_doc, class_def = \
    P.Unsupported, P.fail, P.check_message_total, P.strip_doc, P.class_def
rt, show, is_open, is_tup, TUP, NumTV, ListTV = PP.rt, PP.show, PP.is_open, PP.is_tup, PP.TUP, PP.NumTV, PP.ListTV

PTL, PT = "PolyhedralTermList", "PolyhedralTerm"

# types on top of those of py2coq_poly: DT dict {Var: PolyhedralTerm}, SE sympy expression, SY sympy Symbol, LSE / LSY
# lists of them, SOL what sympy.solve returns
X_COQTY = dict(PP.COQTY)
X_COQTY.update({"DT": "tdict", "SE": "sym_expr", "SY": "sym_symbol", "LSE": "list sym_expr", "LSY": "list sym_symbol",
                "SOL": "sym_sols"})
X_ELEM = dict(PP.ELEM)
X_ELEM.update({"LSE": "SE", "LSY": "SY"})
X_LISTOF = {v: k for k, v in X_ELEM.items()}
X_ANNOT = dict(PP.ANNOT)
X_ANNOT_BY_NAME = {("list", "vars_to_elim"): "LV"}
X_RANNOT = {
    "PolyhedralTerm": "T",
    "Tuple[List[PolyhedralTerm], List[Var]]": TUP("LT", "LV"),
}
X_RANNOT_BY_NAME = {("dict", "solve_for_variables"): "DT"}
X_VOCAB = {
    "np_transpose", "true_indices", "np_where_idx", "np_asarray_opt", "is_linalg_error", "try_except_linalg", "tdict",
    "tdict_empty", "tassoc", "tdict_set", "tdict_keys", "tdict_get", "tdict_comp_m", "LinalgPrims", "la_solve",
    "la_isclose", "sym_expr", "sym_symbol", "sym_sols", "sym_to_symbolic", "sym_symbols", "sym_solve", "sym_len",
    "sym_keys", "sym_get", "sym_var", "sym_to_term",
}
# sha256 of ast.dump (docstrings stripped) of the two pacti functions that live INSIDE the sympy primitives: an edit
# of either changes what sym_to_symbolic / sym_to_term stand for and must be re-validated against the hand model
PRIM_PIN = "2eadb757ed4144893713e26a909603514cc5616d8a581b1f68953ddf1fb00105"


def coq_type(t) -> str:
    t = rt(t)
    if is_tup(t):
        return "(" + " * ".join(coq_type(x) for x in t[1]) + ")"
    if not isinstance(t, str) or t not in X_COQTY:
        raise Unsupported(f"a value whose type was never fixed or cannot be rendered: {show(t)}")
    return X_COQTY[t]


def cid(name: str) -> str:
    c = PP.cid(name)
    if c in X_VOCAB or name.startswith(("la_", "sym_", "tdict_")):
        raise Unsupported(f"local name {name} collides with the vocabulary of base/PyLinalg.v")
    return c


def is_np_linalg(node, attr) -> bool:
    """np.linalg.<attr>"""
    return isinstance(node, ast.Attribute) and node.attr == attr and isinstance(node.value, ast.Attribute) \
        and node.value.attr == "linalg" and isinstance(node.value.value, ast.Name) and node.value.value.id == "np"


class TFn(PP.PFn):
    """PFn plus the constructs of solve_for_variables, _get_tlp_context and _context_reduction"""

    def __init__(self, *a, **k):
        super().__init__(*a, **k)
        self.linalg_guard = 0

    # ---------------------------------------------------------------- expressions
    def tx(self, e, env, want=None):
        if isinstance(e, ast.Name) and e.id in env and not e.id.startswith("%"):
            cid(e.id)
        if isinstance(e, ast.ListComp):
            return self.tx_listcomp(e, env)
        if isinstance(e, ast.DictComp):
            return self.tx_dictcomp(e, env)
        if isinstance(e, ast.IfExp):
            return self.tx_ifexp(e, env, want)
        if isinstance(e, ast.Dict) and not e.keys and want == "DT":
            return [], "tdict_empty", "DT"
        return super().tx(e, env, want)

    def comp_generator(self, e, env):
        """the single `for x in l` of a comprehension: (pre, coq of l, element type, env of the element, coq of x)"""
        if len(e.generators) != 1:
            fail(e, "comprehension with several `for` clauses")
        g = e.generators[0]
        if g.ifs or g.is_async or not isinstance(g.target, ast.Name) or g.target.id == "_":
            fail(e, "comprehension form (a filter, an async generator or a target that is not a name)")
        pi, ci, ti = self.tx(g.iter, env)
        elty = X_ELEM.get(rt(ti)) or fail(e, f"comprehension over a value of type {show(ti)}")
        name = g.target.id
        if name == "self" or name in self.w.consts:
            fail(e, f"comprehension variable {name}")
        env2 = dict(env)
        env2[name] = elty
        env2 = self.drop_group(env2, name)
        return pi, ci, elty, env2, cid(name)

    def tx_listcomp(self, e, env):
        """[f(x) for x in l] : map when f never raises, map_m otherwise"""
        pi, ci, _, env2, x = self.comp_generator(e, env)
        pe, ce, te = self.tx(e.elt, env2)
        if isinstance(rt(te), NumTV):
            self.same(te, "F", e, "comprehension of int literals")
        if isinstance(rt(te), ListTV):
            fail(e, "comprehension of empty lists")
        lt = X_LISTOF.get(rt(te)) or fail(e, f"list comprehension of {show(te)}")
        if not pe:
            return pi, f"(map (fun {x} => {ce}) {ci})", lt
        tmp = self.fresh("v")
        return pi + [(tmp, f"map_m (fun {x} => {self.inline_m(pe, ce)}) {ci}")], tmp, lt

    def tx_dictcomp(self, e, env):
        """{k(x): v(x) for x in l} with Var keys and PolyhedralTerm values: per item the key, then the value"""
        pi, ci, _, env2, x = self.comp_generator(e, env)
        pk, ck, tk = self.tx(e.key, env2)
        pv, cv, tv = self.tx(e.value, env2)
        if rt(tk) != "V" or rt(tv) != "T":
            fail(e, f"dict comprehension of {show(tk)} : {show(tv)} (only Var : {PT} is translated)")
        tmp = self.fresh("d")
        return pi + [(tmp, f"tdict_comp_m {ci} (fun {x} => {self.inline_m(pk, ck)}) (fun {x} => {self.inline_m(pv, cv)})")], \
            tmp, "DT"

    def tx_ifexp(self, e, env, want):
        """a if c else b : only the chosen operand is evaluated"""
        pc, cc, tc = self.tx(e.test, env)
        cond = self.truth(cc, tc, e.test)
        (p1, c1, t1), (p2, c2, t2) = self.tx(e.body, env, want), self.tx(e.orelse, env, want)
        ty = self.same(t1, t2, e, "the two operands of a conditional expression")
        if rt(ty) == "NONE" or is_tup(ty):
            fail(e, f"conditional expression of type {show(ty)}")
        if not p1 and not p2:
            return pc, f"(if {cond} then {c1} else {c2})", ty
        tmp = self.fresh("t")
        return pc + [(tmp, f"(if {cond} then ({self.inline_m(p1, c1)}) else ({self.inline_m(p2, c2)}))")], tmp, ty

    def tx_attr(self, e, env):
        if e.attr == "T":
            p, c, t = self.tx(e.value, env)
            if rt(t) != "ARR":
                fail(e, f".T of a value of type {show(t)}")
            return p, f"(np_transpose {c})", "ARR"
        return super().tx_attr(e, env)

    def tx_subscript(self, e, env, want=None):
        if not isinstance(e.ctx, ast.Load):
            fail(e, "subscript context")
        v = e.value
        # np.where(c)[0] : the indices of the true entries
        if isinstance(v, ast.Call) and isinstance(v.func, ast.Attribute) and v.func.attr == "where" \
                and isinstance(v.func.value, ast.Name) and v.func.value.id == "np" and "np" not in env \
                and len(v.args) == 1 and not v.keywords:
            if not (isinstance(e.slice, ast.Constant) and e.slice.value == 0 and not isinstance(e.slice.value, bool)):
                fail(e, "np.where(c) used otherwise than as np.where(c)[0]")
            p, c, t = self.tx(v.args[0], env)
            if rt(t) != "BARR":
                fail(e, "np.where whose condition is not an element-wise test")
            return p, f"(np_where_idx {c})", "LN"
        if isinstance(v, ast.Name) and v.id in env and rt(env[v.id]) in ("SOL", "DT"):
            p, c, t = self.tx(v, env)
            pk, ck, tk = self.tx(e.slice, env)
            tmp = self.fresh("t")
            if rt(t) == "SOL":
                if rt(tk) != "SY":
                    fail(e, f"key of type {show(tk)} into the result of sympy.solve")
                return p + pk + [(tmp, f"sym_get {c} {ck}")], tmp, "SE"
            if rt(tk) != "V":
                fail(e, f"key of type {show(tk)} into a dict of terms")
            return p + pk + [(tmp, f"tdict_get {c} {ck}")], tmp, "T"
        return super().tx_subscript(e, env, want)

    def res_array(self, x, env, node, what):
        """an array operand; res["slack"] (an Optional list in the record lp_result) is the array of the slacks"""
        p, c, t = self.tx(x, env, "ARR")
        if rt(t) == "OLF":
            tmp = self.fresh("t")
            self.assumptions.append(f"{PTL}: res[\"slack\"] handed to a numpy function is the 1-D array of the slacks "
                                    "(np_asarray_opt; None, i.e. status != 0, raises TypeError as the ufunc does)")
            return p + [(tmp, f"np_asarray_opt {c}")], tmp
        return p, self.coerce(c, t, "ARR", node, what)

    def tx_np(self, e, m, env, want):
        if m == "isclose" and len(e.args) == 2 and not e.keywords:
            p1, c1 = self.res_array(e.args[0], env, e, "first argument of np.isclose (an array)")
            p2, c2, t2 = self.tx(e.args[1], env)
            c2 = self.coerce(c2, t2, "F", e, "second argument of np.isclose (a scalar)")
            return p1 + p2, f"(la_isclose {c1} {c2})", "BARR"
        if m == "where":
            fail(e, "np.where(c) used otherwise than as np.where(c)[0]")
        return super().tx_np(e, m, env, want)

    def tx_call(self, e, env, want=None):
        f = e.func
        if "np" not in env and is_np_linalg(f, "solve"):
            if e.keywords or len(e.args) != 2:
                fail(e, "np.linalg.solve call other than np.linalg.solve(a, b)")
            if not self.linalg_guard:
                fail(e, "np.linalg.solve outside `try: ... except np.linalg.LinAlgError:` (LinAlgError is a subclass of "
                        "ValueError in numpy, which the error kinds of the model do not express)")
            (p1, c1, t1), (p2, c2, t2) = self.tx(e.args[0], env, "ARR"), self.tx(e.args[1], env, "ARR")
            c1 = self.coerce(c1, t1, "ARR", e, "first argument of np.linalg.solve")
            c2 = self.coerce(c2, t2, "ARR", e, "second argument of np.linalg.solve")
            tmp = self.fresh("v")
            return p1 + p2 + [(tmp, f"la_solve {c1} {c2}")], tmp, "ARR"
        if isinstance(f, ast.Attribute) and isinstance(f.value, ast.Name) and f.value.id == "sympy" and "sympy" not in env:
            return self.tx_sympy(e, f.attr, env)
        if isinstance(f, ast.Attribute) and isinstance(f.value, ast.Name) and f.value.id == PT and PT not in env \
                and f.attr in ("to_symbolic", "to_term"):
            if e.keywords or len(e.args) != 1:
                fail(e, f"call of {PT}.{f.attr}")
            p, c, t = self.tx(e.args[0], env)
            have, prim, out = {"to_symbolic": ("T", "sym_to_symbolic", "SE"), "to_term": ("SE", "sym_to_term", "T")}[f.attr]
            if rt(t) != have:
                fail(e, f"argument of {PT}.{f.attr} of type {show(t)}")
            tmp = self.fresh("v")
            return p + [(tmp, f"{prim} {c}")], tmp, out
        # Var(str(key)), key a sympy Symbol
        if isinstance(f, ast.Name) and f.id == "Var" and "Var" not in env and "str" not in env:
            a = e.args
            if e.keywords or len(a) != 1 or not (isinstance(a[0], ast.Call) and isinstance(a[0].func, ast.Name)
                                                 and a[0].func.id == "str" and len(a[0].args) == 1 and not a[0].keywords):
                fail(e, "Var(...) other than Var(str(<sympy symbol>))")
            p, c, t = self.tx(a[0].args[0], env)
            if rt(t) != "SY":
                fail(e, f"Var(str(x)) with x of type {show(t)}")
            return p, f"(sym_var {c})", "V"
        if isinstance(f, ast.Name) and f.id == "len" and "len" not in env and len(e.args) == 1 and not e.keywords:
            p, c, t = self.tx(e.args[0], env)
            if rt(t) == "SOL":
                return p, f"(sym_len {c})", "N"
            if rt(t) in ("LSE", "LSY", "DT"):
                return p, f"(len {c})", "N"
        if isinstance(f, ast.Attribute) and f.attr == "keys" and not e.args and not e.keywords \
                and isinstance(f.value, ast.Name) and f.value.id in env and rt(env[f.value.id]) in ("SOL", "DT"):
            p, c, t = self.tx(f.value, env)
            if rt(t) == "DT":
                return p, f"(tdict_keys {c})", "LV"
            tmp = self.fresh("v")
            return p + [(tmp, f"sym_keys {c}")], tmp, "LSY"
        return super().tx_call(e, env, want)

    def tx_sympy(self, e, m, env):
        if e.keywords:
            fail(e, f"keyword arguments of sympy.{m}")
        # sympy.symbols(x.name), x a Var
        if m == "symbols" and len(e.args) == 1 and isinstance(e.args[0], ast.Attribute) and e.args[0].attr == "name":
            p, c, t = self.tx(e.args[0].value, env)
            if rt(t) != "V":
                fail(e, f"sympy.symbols(x.name) with x of type {show(t)}")
            return p, f"(sym_symbols {c})", "SY"
        # sympy.solve(exprs, *symbols)
        if m == "solve" and len(e.args) == 2 and isinstance(e.args[1], ast.Starred):
            (p1, c1, t1), (p2, c2, t2) = self.tx(e.args[0], env), self.tx(e.args[1].value, env)
            if rt(t1) != "LSE" or rt(t2) != "LSY":
                fail(e, f"sympy.solve on {show(t1)}, *{show(t2)}")
            tmp = self.fresh("v")
            return p1 + p2 + [(tmp, f"sym_solve {c1} {c2}")], tmp, "SOL"
        fail(e, f"call to sympy.{m}")

    # ---------------------------------------------------------------- statements
    def kind_from_uses(self, name, env):
        """an int literal assigned to `name`: F or N when a comparison of `name` in this function says which"""
        kinds = set()
        for n in ast.walk(self.f):
            if isinstance(n, ast.Compare) and len(n.ops) == 1:
                for a, b in ((n.left, n.comparators[0]), (n.comparators[0], n.left)):
                    if isinstance(a, ast.Name) and a.id == name:
                        if isinstance(b, ast.Name) and b.id in env and rt(env[b.id]) in ("N", "F"):
                            kinds.add(rt(env[b.id]))
                        elif isinstance(b, ast.Call) and isinstance(b.func, ast.Name) and b.func.id == "len":
                            kinds.add("N")
        return kinds.pop() if len(kinds) == 1 else None

    def tr_assign(self, tgt, value, rest, env, ind, ctx, hint=None, node=None):
        if isinstance(tgt, ast.Name):
            cid(tgt.id)
            if hint is None and tgt.id not in env and isinstance(value, ast.Constant) and type(value.value) is int:
                hint = self.kind_from_uses(tgt.id, env)
        return super().tr_assign(tgt, value, rest, env, ind, ctx, hint=hint, node=node)

    def tr_augassign(self, s, rest, env, ind, ctx):
        tgt = s.target
        # a *= k on an array built by this function that no other name refers to: rebinding
        if isinstance(tgt, ast.Name) and tgt.id in env and rt(env[tgt.id]) == "ARR" and isinstance(s.op, ast.Mult):
            self.tx(tgt, env)                                    # stale check
            pre, c, t = self.tx(s.value, env)
            pre, c, t = self.num_arg(pre, c, t, s, "scalar operand")
            c = self.coerce(c, t, "F", s, "scalar operand of an in-place array product")
            env2 = self.update_in_place(self.escaped(env, s.value), tgt.id, s, "product")
            n = cid(tgt.id)
            self.assumptions.append(f"{PTL}: `a *= k` on an array built by the same function that no other live name refers to is "
                                    "the rebinding a := np_scale a k (checked as the other in-place updates)")
            return self.emit_binds(pre, f"{ind}let {n} := (np_scale {n} {c}) in\n", ind) + self.block(rest, env2, ind, ctx)
        return super().tr_augassign(s, rest, env, ind, ctx)

    def tr_for(self, s, rest, env, ind, ctx):
        for n in ast.walk(s.target):
            if isinstance(n, ast.Name):
                cid(n.id)
        return super().tr_for(s, rest, env, ind, ctx)

    def tr_try(self, s, rest, env, ind, ctx):
        if s.orelse or s.finalbody or len(s.handlers) != 1 or not s.body:
            fail(s, "try form")
        h = s.handlers[0]
        if "np" not in env and is_np_linalg(h.type, "LinAlgError"):
            catcher, linalg = "try_except_linalg", 1
        elif isinstance(h.type, ast.Name) and h.type.id == "ValueError" and "ValueError" not in env:
            catcher, linalg = "try_except", 0
        else:
            fail(s, "except clause other than `except ValueError` / `except np.linalg.LinAlgError`")
        env_h = dict(env)
        if h.name is not None:
            if h.name in env:
                fail(s, f"exception name {h.name} shadows a local")
            env_h[h.name] = "EXC"
        if not self.terminates(list(h.body)):
            fail(s, "handler that falls through")
        ind2 = ind + "    "
        self.linalg_guard += linalg
        try:
            if not rest:
                b_txt = self.block(list(s.body), env, ind2, ctx)
                h_txt = self.block(list(h.body), env_h, ind2, ctx)
                return f"{ind}{catcher}\n{ind}  (\n{b_txt})\n{ind}  (\n{h_txt})"
            names = self.join_names([list(s.body)], env)
            envs = []
            self.tmp += 1
            key = self.tmp
            jctx = PP.Ctx(self.join_fall(names, envs, key), None, None, None)
            b_txt = self.block(list(s.body), env, ind2, jctx)
        finally:
            self.linalg_guard -= linalg
        h_txt = self.block(list(h.body), env_h, ind2,
                           PP.Ctx(lambda e_, i_: fail(s, "handler that falls through"), None, None, None))
        env3 = self.join_env(names, env, envs, s)
        b_txt = self.join_fill(b_txt, names, key)
        _, pat = self.tupv(names)
        return f"{ind}{pat} <- {catcher}\n{ind}  (\n{b_txt})\n{ind}  (\n{h_txt}) ;;\n" + self.block(rest, env3, ind, ctx)


# ================================================================ the generator
# (class, method, coq name)  -- all three are static methods
PLAN = [
    (PT, "solve_for_variables", f"{PT}_solve_for_variables"),
    (PTL, "_get_tlp_context", f"{PTL}__get_tlp_context"),
    (PTL, "_context_reduction", f"{PTL}__context_reduction"),
]
# functions generated by the other generators that are called here: the text they are generated with is re-read
EXT_EXPECT = {
    "termlist_to_polytope": (f"{PTL}_termlist_to_polytope", "(terms : list pterm) (context : list pterm) "
                             ": M (list var * ndarray * ndarray * ndarray * ndarray)",
                             [("terms", "TL", None), ("context", "TL", None)], PP.POLY_T),
    "_get_kaykobad_context": (f"{PTL}__get_kaykobad_context", "(term : pterm) (context : list pterm) "
                              "(vars_to_elim : list var) (refine : bool) : M (list pterm * list var)",
                              [("term", "T", None), ("context", "TL", None), ("vars_to_elim", "LV", None),
                               ("refine", "B", None)], TUP("LT", "LV")),
}
# the pacti functions inside the sympy primitives: name -> expected parameter names
PRIM_FUNS = {"to_symbolic": ["term"], "to_term": ["expression"]}


def signature(cls, f):
    a = f.args
    if a.vararg or a.kwarg or a.kwonlyargs or a.posonlyargs or a.defaults:
        raise Unsupported(f"signature of {cls}.{f.name}")
    params = []
    for arg in a.args:
        ann = ast.unparse(arg.annotation) if arg.annotation is not None else None
        ty = X_ANNOT_BY_NAME.get((ann, arg.arg)) or X_ANNOT.get(ann)
        if ty is None:
            fail(arg, f"annotation {ann} of parameter {arg.arg} of {cls}.{f.name}")
        params.append((arg.arg, ty, None))
    rann = ast.unparse(f.returns) if f.returns is not None else None
    rty = X_RANNOT_BY_NAME.get((rann, f.name)) or X_RANNOT.get(rann)
    if rty is None:
        fail(f, f"return annotation {rann} of {cls}.{f.name}")
    return params, rty


def prim_digest(pt) -> str:
    parts = []
    for name, want in PRIM_FUNS.items():
        if name not in pt:
            raise Unsupported(f"{PT}.{name} (inside the sympy primitives) missing")
        f = pt[name]
        if [ast.unparse(d) for d in f.decorator_list] != ["staticmethod"] or [a.arg for a in f.args.args] != want:
            raise Unsupported(f"{PT}.{name}: decorators / parameters changed")
        strip_doc(f)
        body = [s for s in f.body if not (isinstance(s, ast.Expr) and isinstance(s.value, ast.Call)
                                          and ast.unparse(s.value.func) == "logging.debug")]
        parts.append(name + ":" + "\n".join(ast.dump(s) for s in body))
    return hashlib.sha256("\n".join(parts).encode()).hexdigest()


def gen_tlp(repo) -> Tuple[str, List[str]]:
    poly_path = f"{repo}/src/pacti/terms/polyhedra/polyhedra.py"
    src = open(poly_path).read()
    mod = ast.parse(src)
    assumptions: List[str] = []
    T.check_environment(mod)
    if P.n_imports(mod).get("sympy") != "sympy":
        raise Unsupported(f"polyhedra.py: module-level name sympy is {P.n_imports(mod).get('sympy')}, expected sympy")
    P.n_no_redefinition(mod, ["sympy", "str", "dict", "abs", "len", "list", "range", "enumerate", "isinstance", "type",
                              "ValueError"], [PTL, PT])
    cdef, tdef = class_def(mod, PTL), class_def(mod, PT)
    if [ast.unparse(b) for b in cdef.bases] != ["TermList"] or cdef.keywords or cdef.decorator_list:
        raise Unsupported(f"{PTL} is expected to be a plain subclass of TermList")
    own, pt = T.methods_of(cdef, PTL), T.methods_of(tdef, PT)
    for c, ms in ((PTL, own), (PT, pt)):
        for dunder in ("__bool__", "__len__", "__getattr__", "__getattribute__"):
            if dunder in ms:
                raise Unsupported(f"{c} defines {dunder}")
    w = PP.World()
    w.term_sigs = T.term_interface(poly_path)
    # helpers generated into gen/TermListGen.v and gen/PolyGen.v
    tl_text, _ = T.gen_termlist(repo)
    for meth in ("__init__", "vars"):
        coq, sig, params, rty = PP.TL_EXPECT[meth]
        if not re.search(r"^Definition " + re.escape(coq) + " " + re.escape(sig) + r" :=$", tl_text, re.M):
            raise Unsupported(f"{coq} is not generated with the expected signature `{sig}` in gen/TermListGen.v")
        w.tl[meth] = (coq, False, params, rty)
    poly_text, _ = PP.gen_poly(repo)
    for meth, text, where in (("_get_kaykobad_context", tl_text, "TermListGen.v"),
                              ("termlist_to_polytope", poly_text, "PolyGen.v")):
        coq, sig, params, rty = EXT_EXPECT[meth]
        if not re.search(r"^Definition " + re.escape(coq) + " " + re.escape(sig) + r" :=$", text, re.M):
            raise Unsupported(f"{coq} is not generated with the expected signature `{sig}` in gen/{where}")
        if meth not in own or [ast.unparse(d) for d in own[meth].decorator_list] != ["staticmethod"]:
            raise Unsupported(f"{PTL}.{meth} is expected to be a static method")
        w.funs[(PTL, meth)] = (coq, params, rty, True, False)
    digest = prim_digest(pt)
    if PRIM_PIN != digest:
        raise Unsupported(f"{PT}.to_symbolic / to_term (the pacti code inside the primitives sym_to_symbolic / sym_to_term) "
                          f"changed: digest {digest}, validated against the hand model at {PRIM_PIN}")
    sources = {PTL: own, PT: pt}
    texts, hashed = [], []
    for cls, name, coq in PLAN:
        if name not in sources[cls]:
            raise Unsupported(f"{cls}.{name} missing")
        f = sources[cls][name]
        decos = [ast.unparse(d) for d in f.decorator_list]
        if decos != ["staticmethod"]:
            raise Unsupported(f"decorators of {cls}.{name}: {decos}")
        hashed.append(ast.get_source_segment(src, f) or "")
        strip_doc(f)
        params, rty = signature(cls, f)
        if any(isinstance(n, ast.Attribute) and n.attr == name for n in ast.walk(f)):
            raise Unsupported(f"{cls}.{name} refers to itself")
        for n in ast.walk(f):
            if isinstance(n, (ast.Lambda, ast.FunctionDef, ast.AsyncFunctionDef, ast.ClassDef, ast.Global, ast.Nonlocal,
                              ast.Yield, ast.YieldFrom, ast.Await, ast.NamedExpr, ast.With, ast.Delete)) and n is not f:
                fail(n, f"construct in {cls}.{name}")
        fn = TFn(w, cls, f, rty, assumptions, False)
        try:
            body = P.with_fallback(f, lambda fd: TFn(w, cls, fd, rty, assumptions, False).translate(params, None))
        except Unsupported as ex:
            body = P.function_stub("TlpGen.v", f"{cls}.{name}", ex)
        ps = [(cid(n), t) for n, t, _ in params]
        sig = " ".join(f"({n} : {coq_type(t)})" for n, t in ps)
        rt_ = coq_type(rty)
        rt_ = f"M {rt_}" if rt_.startswith("(") else f"M ({rt_})"
        pysig = next(l for l in ast.unparse(f).split("\n") if l.startswith("def "))
        texts.append(f"(* {cls}.{name}: {pysig} *)\nDefinition {coq} {sig} : {rt_} :=\n{body}.\n\n")
        w.funs[(cls, name)] = (coq, params, rty, True, False)
    assumptions.append(f"{PTL}: a {PTL} object is the list in its only field `terms`; int and float are exact rationals where they "
                       "are coefficients or bounds, nat where they count or index (negative indices are rejected); dtype, NaN, "
                       "inf, rounding and numpy warnings are not modelled")
    assumptions.append(f"{PTL}: a numpy array is its shape and its entries (base/PyNumpy.v: A1 v / A2 m rows); each numpy call is "
                       "one named primitive np_*; shape errors are ValueError, bad indices IndexError; x[i] used as a float "
                       "on a 2-D array (or as an array on a 1-D array) is Escape \"NumpyShape\": the model does not follow it")
    assumptions.append(f"{PTL}: in-place updates (l.append(x), d[k] = v, b[i] = v, b[i] += v) of lists / dicts / arrays built in the "
                       "same function (np.copy, np.delete, np.array, [] ...) are rendered as rebinding (checked: the object is "
                       "not a parameter, was not handed to a call that may keep it, and every other name that may alias it "
                       "is not read again before being re-assigned)")
    assumptions.append(f"{PTL}: scipy.optimize.linprog(c=, A_ub=, b_ub=, bounds=(None, None)) is the abstract primitive np_linprog "
                       "(class LPSolver); proofs/PolyGenBase.v instantiates it with the oracle of model/Poly.v behind scipy's "
                       "input validation (ValueError on an empty objective, a 1-D A_ub, mismatching sizes)")
    assumptions.append(f"{PTL}: `==`, `in` and list_diff on terms use {PT}.__eq__ as translated in gen/TermGen.v; logging and "
                       "docstrings are ignored")
    assumptions.append(f"{PTL}._get_tlp_context: np.linalg.solve and np.isclose on an array are the abstract primitives la_solve / "
                       "la_isclose (class LinalgPrims of base/PyLinalg.v; proofs/TlpGenBase.v instantiates them with the exact "
                       "Gauss-Jordan elimination and the tolerance test |s| <= 1e-8 of model/Tactics.v); a.T is np_transpose, "
                       "np.where(c)[0] is np_where_idx (an index array is the list of its entries)")
    assumptions.append(f"{PTL}._get_tlp_context: np.linalg.LinAlgError is the error kind Escape \"LinAlgError\" (in numpy a subclass of "
                       "ValueError; np.linalg.solve is accepted only directly inside `try: ... except np.linalg.LinAlgError:` "
                       "whose handler raises, so the subclass relation is never needed)")
    assumptions.append(f"{PT}.solve_for_variables: {PT}.to_symbolic, sympy.symbols(var.name), sympy.solve(exprs, *symbols), len / "
                       f".keys() / [key] of its result, Var(str(key)) and {PT}.to_term are the abstract primitives sym_* (class "
                       "LinalgPrims; instantiated with the exact Gauss-Jordan elimination of model/Tactics.v: sympy is not "
                       f"modelled); the source of {PT}.to_symbolic / to_term is pinned by a digest (an edit is rejected)")
    assumptions.append(f"{PT}.solve_for_variables: a dict {{Var: {PT}}} is an association list in insertion order (tdict of "
                       "base/PyLinalg.v); a dict comprehension evaluates, per item, the key, then the value, then stores")
    sha = hashlib.sha256("".join(hashed).encode()).hexdigest()
    ass = sorted(set(assumptions))
    header = ("(* GENERATED by /verif/translator/py2coq_tlp.py from src/pacti/terms/polyhedra/polyhedra.py — do not edit.\n"
              f"   sha256 of the translated sources: {sha}\n"
              f"   digest of {PT}.to_symbolic / to_term (inside the sympy primitives): {digest}\n"
              f"   translated: {', '.join(c + '.' + n for c, n, _ in PLAN)}\n"
              "   vocabulary: base/PyDict.v, base/PyLoop.v, base/PyTermList.v, base/PyNumpy.v, base/PyLinalg.v, gen/TermGen.v,\n"
              "   gen/TermListGen.v (PolyhedralTermList_init / _vars / __get_kaykobad_context), gen/PolyGen.v\n"
              "   (PolyhedralTermList_termlist_to_polytope), gen/ListsGen.v.\n"
              "   Every function is monadic.  Approximations (each is also an `assumption:` line of the translator):\n"
              + "".join("   - " + a.replace("*)", "* )") + "\n" for a in ass)
              + "*)\n"
              "From Coq Require Import List String Bool Arith ZArith QArith.\nImport ListNotations.\n"
              "Require Import Py ListsGen ConstGen Sem PyDict PyLoop TermGen PyTermList TermListGen PyNumpy PolyGen PyLinalg.\n"
              "Open Scope py_scope.\n\nSection Tlp.\nContext `{LPSolver} `{LinalgPrims}.\n\n")
    return header + "".join(texts) + "End Tlp.\n", ass


if __name__ == "__main__":                                                   # pragma: no cover
    txt, ass_ = gen_tlp(sys.argv[1])
    sys.stdout.write(txt)
