#!/usr/bin/env python3
"""T1, the dictionary form of COMPOUND contracts -> coq/gen/JsonCompoundGen.v.

Translated (fail closed on anything outside the subset, deterministic output):
  src/pacti/contracts/polyhedral_iocontract.py   PolyhedralIoContractCompound.to_dict, .from_strings
                                                 (class NestedPolyhedra shape-checked: its __init__ only forwards to
                                                 NestedTermList.__init__)
These two are section PARAMETERS of gen/JsonGen.v (translator/py2coq_json.py: the file writer calls `c.to_dict()`, the
file reader `PolyhedralIoContractCompound.from_strings(**entry["data"])`); here they are read from the source.
Parameters of the generated section: PolyhedralTermList.to_str_list (the string printer, gen/PrinterGen.v),
serializer.polyhedral_termlist_from_string applied to a value of unknown type (the string parser, model/ParseAll.v),
NestedPolyhedra(l, force) = NestedTermList.__init__ and PolyhedralIoContractCompound(...) = IoContractCompound.__init__
(both translated in gen/CompoundGen.v), str(x) of a non-str (pstr, as in model/Json.v).

The expression / statement translator is the class JFn of py2coq_json.py (same typing discipline, same vocabulary
base/PyJson.v, same ownership and evaluation-order rules); this module adds, in the subclass KFn:
  * the fields of a compound contract (self.inputvars / outputvars / a / g, x.nested_termlist) over the record
    [compound] of model/Compound.v,
  * `if x:` on a value of unknown type (json_truth = bool(x)),
  * the two-generator comprehension `[e for x in xs for item in f(x)]` (concat of the per-x lists, f(x) evaluated
    left to right),
  * names first bound inside a for loop of an `if` branch (local to that loop; rejected when used afterwards).
proofs/JsonGenCompound.v proves each generated function EQUAL to the hand model model/JsonCompound.v.
"""
from __future__ import annotations

import ast
import hashlib
import sys
from typing import List, Tuple

import py2coq_json as J

P = J.P
Unsupported, fail, strip_doc, class_def = P.Unsupported, P.fail, P.strip_doc, P.class_def
rt, tshow, coqty, cid = J.rt, J.tshow, J.coqty, J.cid

K_VOCAB = {"compound", "mkCompound", "k_a", "k_g", "k_inputvars", "k_outputvars", "nested", "concat",
           "termlist_from_string", "NestedPolyhedra_new", "PolyhedralIoContractCompound_new"}
K_ATOMS = {"KC": "compound", "NP": "list (list pterm)"}     # a compound contract / a NestedPolyhedra object
GEN_ORDER = ["PolyhedralIoContractCompound_to_dict", "PolyhedralIoContractCompound_from_strings"]


class KFn(J.JFn):
    """JFn plus the constructs listed in the module docstring"""

    _join_allst = None
    _join_ignore: frozenset = frozenset()

    # ---- fields of the compound objects
    K_FIELDS = {("KC", "inputvars"): ("(k_inputvars {0})", ("L", "V")),
                ("KC", "outputvars"): ("(k_outputvars {0})", ("L", "V")),
                ("KC", "a"): ("(k_a {0})", "NP"), ("KC", "g"): ("(k_g {0})", "NP"),
                ("NP", "nested_termlist"): ("{0}", ("L", "TL"))}

    def tx_attr(self, e, env):
        if isinstance(e.value, ast.Name) and e.value.id not in env:
            fail(e, f"attribute of the unbound / module-level name {e.value.id}")
        saved = self.tmp
        p, c, t = self.tx(e.value, env)
        t = rt(t)
        if (t, e.attr) in self.K_FIELDS:
            pat, ty = self.K_FIELDS[(t, e.attr)]
            return p, pat.format(c), ty
        self.tmp = saved
        return super().tx_attr(e, env)

    # ---- [elt for x in xs for item in src(x)]
    def tx_listcomp(self, e, env):
        if len(e.generators) != 2:
            return super().tx_listcomp(e, env)
        g1, g2 = e.generators
        if g1.is_async or g2.is_async or g1.ifs or g2.ifs:
            fail(e, "two-generator comprehension with a condition / async")
        pi, ci, ety = self.iter_source(g1.iter, env)
        pat1, _, env1 = self.bind_target(g1.target, ety, env)
        p2, c2, ety2 = self.iter_source(g2.iter, env1)
        pat2, _, env2 = self.bind_target(g2.target, ety2, env1)
        pe, ce, te = self.tx(e.elt, env2)
        if pe:
            fail(e.elt, "element of a two-generator comprehension that may raise")
        ident = isinstance(e.elt, ast.Name) and isinstance(g2.target, ast.Name) and e.elt.id == g2.target.id
        inner = c2 if ident else f"(map (fun {pat2} => {ce}) {c2})"
        if not p2:
            return pi, f"(List.concat (map (fun {pat1} => {inner}) {ci}))", ("L", te)
        tmp = self.fresh("l")
        body = self.inline_m(p2, inner)
        return pi + [(tmp, f"list_comp_m {ci} (fun {pat1} => {body})")], f"(List.concat {tmp})", ("L", te)

    # ---- `if x:` with x of unknown type
    def tr_if(self, s, rest, env, ind, ctx):
        t = s.test
        if not (isinstance(t, ast.Name) and t.id in env and rt(env[t.id]) == "J"):
            return super().tr_if(s, rest, env, ind, ctx)
        c = f"(json_truth {cid(t.id)})"
        body, orelse = list(s.body), list(s.orelse)
        tb, te = self.terminates(body), self.terminates(orelse)
        ind2 = ind + "  "
        if (tb and te) and rest:
            fail(s, "unreachable code after if")
        if tb or te or not rest:
            then_txt = self.block(body + ([] if tb else rest), env, ind2, ctx)
            else_txt = self.block(orelse + ([] if te else rest), env, ind2, ctx)
            return f"{ind}if {c} then\n{then_txt}\n{ind}else\n{else_txt}"
        return self.join([(f"if {c} then", body), ("else", orelse)], "", [], s, rest, env, ind, ctx)

    # ---- names first bound inside a for loop of a branch
    @staticmethod
    def loop_locals(stmts) -> set:
        """names whose EVERY binding in stmts lies inside the body of a for loop"""
        inside, outside = set(), set()

        def names_of(tgt, acc):
            for n in ast.walk(tgt):
                if isinstance(n, ast.Name) and isinstance(n.ctx, ast.Store):
                    acc.add(n.id)

        def go(ss, in_loop):
            for st in ss:
                if isinstance(st, (ast.Assign, ast.AnnAssign, ast.AugAssign)):
                    for tg in (st.targets if isinstance(st, ast.Assign) else [st.target]):
                        names_of(tg, inside if in_loop else outside)
                elif isinstance(st, ast.If):
                    go(st.body, in_loop)
                    go(st.orelse, in_loop)
                elif isinstance(st, ast.For):
                    go(st.body, True)
        go(stmts, False)
        return inside - outside

    def assigned(self, stmts):
        out = super().assigned(stmts)
        if self._join_allst is not None and list(stmts) == self._join_allst:
            return [n for n in out if n not in self._join_ignore]
        return out

    def join(self, arms, closing, pre, s, rest, env, ind, ctx, arm_envs=None, opening=""):
        allst = [x for _, b in arms for x in b]
        extra = [n for n in super().assigned(allst) if n not in env]
        if not extra:
            return super().join(arms, closing, pre, s, rest, env, ind, ctx, arm_envs=arm_envs, opening=opening)
        local = self.loop_locals(allst)
        for n in extra:
            if n not in local:
                fail(s, f"branches bind {n}, which is not defined before the if (it would be local to the branch)")
            for st in rest:
                if any(isinstance(x, ast.Name) and x.id == n for x in ast.walk(st)):
                    fail(s, f"{n} is first bound inside a loop of a branch and used after the if")
        saved = (self._join_allst, self._join_ignore)
        self._join_allst, self._join_ignore = allst, frozenset(extra)
        try:
            return super().join(arms, closing, pre, s, rest, env, ind, ctx, arm_envs=arm_envs, opening=opening)
        finally:
            self._join_allst, self._join_ignore = saved


def k_define(world, f, coq, label, params, rtype, assumptions, selfparam=None):
    fn = KFn(world, f, label, rtype, assumptions)
    ps = ([selfparam] if selfparam else []) + [(n, t) for n, t, _ in params]
    text, mon = fn.translate(ps)
    sig = " ".join(f"({cid(n) if n != 'self' else 'self'} : {coqty(t)})" for n, t in ps)
    r = coqty(rtype)
    pysig = next(ln for ln in ast.unparse(f).split("\n") if ln.startswith("def "))
    return (f"(* {J.comment_safe(pysig)} *)\nDefinition {coq} {sig} : {'M (' + r + ')' if mon else r} :=\n{text}.\n\n"), mon


def _unparse(n):
    return ast.unparse(n) if n is not None else None


def _methods(cdef, where):
    ms = J.class_methods(cdef, where)
    for m in ms.values():
        if any(_unparse(d) == "property" for d in m.decorator_list) and m.name in FIELD_NAMES:
            raise Unsupported(f"{where}.{m.name} is a property (the translation reads it as a stored field)")
    for m in ("__getattr__", "__getattribute__", "__setattr__", "__slots__"):
        if m in ms:
            raise Unsupported(f"{where}.{m} is defined")
    return ms


FIELD_NAMES = {"a", "g", "inputvars", "outputvars", "nested_termlist"}


def _stores(fdef, field) -> int:
    """how many statements of fdef assign self.<field>"""
    n = 0
    for st in ast.walk(fdef):
        if isinstance(st, (ast.Assign, ast.AnnAssign, ast.AugAssign)):
            for tg in (st.targets if isinstance(st, ast.Assign) else [st.target]):
                if isinstance(tg, ast.Attribute) and isinstance(tg.value, ast.Name) and tg.value.id == "self" \
                        and tg.attr == field:
                    n += 1
    return n


def gen_compjson(repo) -> Tuple[str, List[str]]:
    # every check of the JSON generator (imports of polyhedral_iocontract.py, the Var class, PolyhedralTermList.__init__
    # storing a copy of a list of terms, the signature of to_str_list, ...) is a check of this one too
    J.gen_json(repo)
    src = f"{repo}/src/pacti"
    paths = {"pc": f"{src}/contracts/polyhedral_iocontract.py", "compound": f"{src}/iocontract/compundiocontract.py",
             "serializer": f"{src}/terms/polyhedra/serializer.py"}
    text = {k: open(p).read() for k, p in paths.items()}
    mods = {k: ast.parse(t) for k, t in text.items()}
    assumptions: List[str] = []
    added_vocab = K_VOCAB - J.J_VOCAB
    J.J_VOCAB.update(K_VOCAB)
    J.GEN_NAMES.update(GEN_ORDER)
    J.ATOM_COQ.update(K_ATOMS)
    try:
        return _gen(mods, text, assumptions)
    finally:
        J.J_VOCAB.difference_update(added_vocab)
        J.GEN_NAMES.difference_update(GEN_ORDER)
        for k in K_ATOMS:
            J.ATOM_COQ.pop(k, None)


def _gen(mods, text, assumptions):
    cmod, kmod, smod = mods["pc"], mods["compound"], mods["serializer"]
    # ---------------- compundiocontract.py: the two constructors and the fields they store
    ntl, ioc = class_def(kmod, "NestedTermList"), class_def(kmod, "IoContractCompound")
    ntm, iom = _methods(ntl, "NestedTermList"), _methods(ioc, "IoContractCompound")
    for cls, ms in (("NestedTermList", ntm), ("IoContractCompound", iom)):
        if "__init__" not in ms or "__new__" in ms:
            raise Unsupported(f"{cls}.__init__ missing (or __new__ defined)")
    if [a.arg for a, _ in J.plain_args(ntm["__init__"], "compundiocontract.py", skip_self=True)] \
            != ["nested_termlist", "force_empty_intersection"] or _stores(ntm["__init__"], "nested_termlist") < 1:
        raise Unsupported("NestedTermList.__init__(self, nested_termlist, force_empty_intersection) is expected to "
                          "store self.nested_termlist")
    if [a.arg for a, _ in J.plain_args(iom["__init__"], "compundiocontract.py", skip_self=True)] \
            != ["assumptions", "guarantees", "input_vars", "output_vars"] \
            or any(_stores(iom["__init__"], fld) != 1 for fld in ("a", "g", "inputvars", "outputvars")):
        raise Unsupported("IoContractCompound.__init__(self, assumptions, guarantees, input_vars, output_vars) is "
                          "expected to store self.a, self.g, self.inputvars, self.outputvars once each")
    # ---------------- serializer.py: the string parser (a parameter)
    pf = J.fun_def(smod, "polyhedral_termlist_from_string", "serializer.py")
    if [(a.arg, _unparse(a.annotation)) for a, _ in J.plain_args(pf, "serializer.py")] != [("str_rep", "str")] \
            or _unparse(pf.returns) != "List[PolyhedralTerm]":
        raise Unsupported("signature of serializer.polyhedral_termlist_from_string")
    # ---------------- polyhedral_iocontract.py
    J.want_imports(cmod, "polyhedral_iocontract.py",
                   [("Var", "pacti.iocontract.Var"), ("serializer", "pacti.terms.polyhedra.serializer"),
                    ("PolyhedralTermList", "pacti.terms.polyhedra.polyhedra.PolyhedralTermList"),
                    ("IoContractCompound", "pacti.iocontract.IoContractCompound"),
                    ("NestedTermList", "pacti.iocontract.NestedTermList")])
    P.n_no_redefinition(cmod, J.BUILTINS + ["serializer", "PolyhedralTermList", "IoContractCompound", "NestedTermList"],
                        ["NestedPolyhedra", "PolyhedralIoContractCompound"])
    npc, pkc = class_def(cmod, "NestedPolyhedra"), class_def(cmod, "PolyhedralIoContractCompound")
    if [_unparse(b) for b in npc.bases] != ["NestedTermList"] or npc.keywords or npc.decorator_list \
            or [_unparse(b) for b in pkc.bases] != ["IoContractCompound"] or pkc.keywords or pkc.decorator_list:
        raise Unsupported("bases of NestedPolyhedra / PolyhedralIoContractCompound")
    npm, pkm = _methods(npc, "NestedPolyhedra"), _methods(pkc, "PolyhedralIoContractCompound")
    if sorted(npm) != ["__init__"] or npm["__init__"].decorator_list:
        raise Unsupported(f"NestedPolyhedra defines {sorted(npm)}; expected only __init__")
    ninit = strip_doc(npm["__init__"])
    if [a.arg for a, _ in J.plain_args(ninit, "NestedPolyhedra", skip_self=True)] \
            != ["nested_termlist", "force_empty_intersection"] \
            or [_unparse(x) for x in ninit.body] != ["super().__init__(nested_termlist, force_empty_intersection)"]:
        raise Unsupported("NestedPolyhedra.__init__ is expected to forward its two arguments to super().__init__")
    if sorted(pkm) != ["from_strings", "to_dict"]:
        raise Unsupported(f"PolyhedralIoContractCompound defines {sorted(pkm)}; expected only from_strings and to_dict "
                          "(PolyhedralIoContractCompound(...) must be IoContractCompound.__init__)")
    if [_unparse(x) for x in pkm["to_dict"].decorator_list] != [] \
            or [_unparse(x) for x in pkm["from_strings"].decorator_list] != ["staticmethod"]:
        raise Unsupported("decorators of PolyhedralIoContractCompound.to_dict / from_strings")
    assumptions.append("compjson: a PolyhedralIoContractCompound object is the record [compound] of model/Compound.v "
                       "(checked: IoContractCompound.__init__ stores a, g, inputvars, outputvars once each, "
                       "NestedTermList.__init__ stores nested_termlist, none of them is a property, no __getattr__); "
                       "a NestedPolyhedra object is its list of alternatives")
    assumptions.append("compjson: NestedPolyhedra(l, force) (checked: __init__ only forwards to NestedTermList.__init__) "
                       "and PolyhedralIoContractCompound(...) (checked: the class defines only from_strings and to_dict) "
                       "are the section parameters NestedPolyhedra_new / PolyhedralIoContractCompound_new; both "
                       "constructors are translated in gen/CompoundGen.v")
    assumptions.append("compjson: serializer.polyhedral_termlist_from_string applied to a value of unknown type (the "
                       "string parser: model/ParseAll.v) is the section parameter termlist_from_string; "
                       "PolyhedralTermList.to_str_list (model/Printer.v) is the section parameter to_str_list")
    assumptions.append("compjson: the four parameters of PolyhedralIoContractCompound.from_strings are values of "
                       "unknown type (the file reader passes entry['data'] unvalidated through **; annotations are not "
                       "enforced by Python)")
    w = J.JWorld()
    w.aliases = {"Var": "iocontract.Var", "serializer": "serializer", "PolyhedralTermList": "polyhedra.PolyhedralTermList",
                 "NestedPolyhedra": "pc.NestedPolyhedra", "PolyhedralIoContractCompound": "pc.PolyhedralIoContractCompound"}
    w.exceptions = {"ValueError"}
    w.methods[("TL", "to_str_list")] = J.Callee("to_str_list", [], ("L", "S"), False)
    c = J.Callee("termlist_from_string", [("str_rep", "J", None)], ("L", "T"), True)
    c.all_names = ["str_rep"]
    w.callees["serializer.polyhedral_termlist_from_string"] = c
    c = J.Callee("NestedPolyhedra_new", [("nested_termlist", ("L", "TL"), None), ("force_empty_intersection", "B", None)],
                 "NP", True)
    c.all_names = ["nested_termlist", "force_empty_intersection"]
    w.callees["pc.NestedPolyhedra"] = c
    c = J.Callee("PolyhedralIoContractCompound_new", [("assumptions", "NP", None), ("guarantees", "NP", None),
                                                      ("input_vars", ("L", "V"), None), ("output_vars", ("L", "V"), None)],
                 "KC", True)
    c.all_names = ["assumptions", "guarantees", "input_vars", "output_vars"]
    w.callees["pc.PolyhedralIoContractCompound"] = c
    reserved = set(J.BUILTINS) | set(w.aliases)
    segs, out_defs = [], ""
    # to_dict
    f = pkm["to_dict"]
    segs.append(ast.get_source_segment(text["pc"], f) or "")
    strip_doc(f)
    J.no_inner_rebinding(f, reserved, "polyhedral_iocontract.py")
    if [a.arg for a in f.args.args] != ["self"] or J.plain_args(f, "to_dict", skip_self=True) or _unparse(f.returns) != "dict":
        raise Unsupported("signature of PolyhedralIoContractCompound.to_dict")
    d, mon = k_define(w, f, GEN_ORDER[0], "PolyhedralIoContractCompound.to_dict", [], "J", assumptions,
                      selfparam=("self", "KC"))
    if mon:
        raise Unsupported("PolyhedralIoContractCompound.to_dict contains an operation that may raise (the file writer "
                          "of gen/JsonGen.v calls it as a total function)")
    out_defs += d
    # from_strings
    f = pkm["from_strings"]
    segs.append(ast.get_source_segment(text["pc"], f) or "")
    strip_doc(f)
    J.no_inner_rebinding(f, reserved, "polyhedral_iocontract.py")
    pairs = J.plain_args(f, "from_strings")
    if [a.arg for a, _ in pairs] != ["assumptions", "guarantees", "input_vars", "output_vars"] \
            or any(dflt is not None for _, dflt in pairs) or _unparse(f.returns) != "PolyhedralIoContractCompound":
        raise Unsupported("signature of PolyhedralIoContractCompound.from_strings")
    d, mon = k_define(w, f, GEN_ORDER[1], "PolyhedralIoContractCompound.from_strings",
                      [(a.arg, "J", None) for a, _ in pairs], "KC", assumptions)
    if not mon:
        raise Unsupported("PolyhedralIoContractCompound.from_strings is expected to contain operations that may raise")
    out_defs += d
    sha = hashlib.sha256("\n".join(segs).encode()).hexdigest()
    header = (
        "(* GENERATED by /verif/translator/py2coq_compjson.py (run by py2coq.py) — do not edit.\n"
        "   from src/pacti/contracts/polyhedral_iocontract.py (PolyhedralIoContractCompound.to_dict, .from_strings)\n"
        f"   sha256 of the translated function sources: {sha}\n"
        "   vocabulary: base/PyJson.v, base/PyDict.v, base/PyLoop.v (as gen/JsonGen.v); a compound contract is the record\n"
        "   [compound] of model/Compound.v.  Monadic (M _) exactly where the body contains an operation that may raise. *)\n"
        "From Coq Require Import List String Bool QArith Arith.\nImport ListNotations.\n"
        "Require Import Py Sem PyDict PyLoop Term Compound Json PyJson.\nOpen Scope py_scope.\nLocal Open Scope string_scope.\n\n"
        "Section JsonCompoundGen.\n"
        "(* str(x) of a non-str: parameter, as in model/Json.v *)\n"
        "Context (pstr : json -> string).\n"
        "(* PolyhedralTermList.to_str_list: model/Printer.v *)\n"
        "Context (to_str_list : list pterm -> list string).\n"
        "(* serializer.polyhedral_termlist_from_string(x), x of unknown type: model/ParseAll.v *)\n"
        "Context (termlist_from_string : json -> M (list pterm)).\n"
        "(* NestedPolyhedra(nested_termlist, force_empty_intersection) = NestedTermList.__init__: gen/CompoundGen.v *)\n"
        "Context (NestedPolyhedra_new : list (list pterm) -> bool -> M (list (list pterm))).\n"
        "(* PolyhedralIoContractCompound(assumptions, guarantees, input_vars, output_vars) = IoContractCompound.__init__:\n"
        "   gen/CompoundGen.v *)\n"
        "Context (PolyhedralIoContractCompound_new : list (list pterm) -> list (list pterm) -> list var -> list var -> M compound).\n\n")
    return header + out_defs + "End JsonCompoundGen.\n", sorted(set(assumptions))


if __name__ == "__main__":
    txt, ass = gen_compjson(sys.argv[1])
    sys.stdout.write(txt)
    for a_ in ass:
        sys.stderr.write("assumption: " + a_ + "\n")
