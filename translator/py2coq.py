#!/usr/bin/env python3
"""T1 translator: a fail-closed rendering of the loop-free Python subset used by
pacti/utils/lists.py and pacti/iocontract/iocontract.py into Gallina.

Run on every check; the output (coq/gen/*.v) is what the theorems of
proofs/Algebra*.v and props/C05.v, C06.v, ... are proved about.  Anything outside
the whitelisted subset raises Unsupported and the check fails closed.

Design notes
* value model: copy()/deepcopy are the identity, `self.x = e` builds a new record;
* every primitive of the abstract TermList (elim_vars_by_*, simplify, refines,
  is_empty) and the IoContract constructor are monadic (M = _ + err);
* `raise X(...)` becomes `raise <kind>`; the message expression is checked to be
  built from total operations only and then dropped;
* `isinstance(other, type(self))` guards are dropped (the model is typed);
* logging.debug(...) statements are dropped.
"""
from __future__ import annotations

import ast
import hashlib
import sys
import textwrap
from typing import Callable, Dict, List, Optional, Tuple


class Unsupported(Exception):
    pass


def fail(node, msg):
    line = getattr(node, "lineno", "?")
    raise Unsupported(f"line {line}: {msg}: {ast.dump(node)[:200] if isinstance(node, ast.AST) else node}")


# ---------------------------------------------------------------- types
# V var, LV list var, T term, LT python list of terms, TL TermList object, B bool,
# N nat, LN list nat, ST stats, LST list stats, C contract, O<x> optional, S string (messages only)
COQTY = {
    "V": "var", "LV": "list var", "T": "term", "LT": "list term", "TL": "list term", "B": "bool",
    "N": "nat", "LN": "list nat", "ST": "stats", "LST": "list stats", "C": "contract",
    "OLV": "option (list var)", "OLN": "option (list nat)", "OLT": "option (list term)",
    "OTL": "option (list term)", "LA": "list A",
}

ANNOT = {
    "IoContract_t": "C", "TermList_t": "TL", "TermList": "TL", "List[Var]": "LV", "Var": "V", "bool": "B",
    "Optional[List[int]]": "OLN", "Optional[List[Var]]": "OLV", "Optional[List]": "OLT",
    "Optional[TermList_t]": "OTL", "List[Any]": "LA", "List[int]": "LN", "List[TacticStatistics]": "LST",
}
ANY_BY_NAME = {"vars_to_keep": "OLV"}

ERRKIND = {"IncompatibleArgsError": "IncompatibleArgs", "ValueError": "ValueErr"}

# methods of IoContract: name -> (monadic?, return type)
C_METHODS = {
    "__init__": (True, "C"), "simplify": (True, "C"), "vars": (False, "LV"), "__eq__": (False, "B"),
    "__hash__": (False, "KEY"), "rename_variable": (True, "C"), "copy": (True, "C"), "__le__": (True, "B"),
    "can_compose_with": (False, "B"), "can_quotient_by": (False, "B"), "shares_io_with": (False, "B"),
    "refines": (True, "B"), "compose": (True, "C"), "compose_tactics": (True, "C*LST"),
    "quotient": (True, "C"), "quotient_tactics": (True, "C*LST"), "merge": (True, "C"),
    "contains_environment": (True, "B"), "contains_implementation": (True, "B"),
}
C_SKIP = {"__str__", "__repr__"}
# concrete methods of TermList
TL_METHODS = {
    "__init__": (False, "TL"), "vars": (False, "LV"), "__eq__": (False, "B"),
    "get_terms_with_vars": (False, "TL"), "__and__": (False, "TL"), "__or__": (False, "TL"),
    "__sub__": (False, "TL"), "__le__": (True, "B"), "copy": (False, "TL"), "rename_variable": (False, "TL"),
}
TL_SKIP = {"__str__"}
TL_ABSTRACT = {"__hash__", "contains_behavior", "elim_vars_by_refining", "elim_vars_by_relaxing", "simplify",
               "refines", "is_empty"}
OPNAME = {"__init__": "init", "__eq__": "eq", "__hash__": "hash_key", "__le__": "le", "__and__": "and",
          "__or__": "or", "__sub__": "sub"}

LIST_FUNS = {"list_union", "list_diff", "list_intersection"}


def coqname(cls, meth):
    return f"{cls}_{OPNAME.get(meth, meth)}"


# ---------------------------------------------------------------- message safety
MSG_CALLS = {"str", "set", "list", "list_diff", "list_union", "list_intersection", "format"}


def check_message_total(node):
    """The argument of an exception constructor must be built from total operations only."""
    for n in ast.walk(node):
        if isinstance(n, ast.Call):
            f = n.func
            if isinstance(f, ast.Name) and f.id in MSG_CALLS:
                continue
            if isinstance(f, ast.Attribute) and f.attr in {"format", "get_terms_with_vars"}:
                continue
            fail(n, "call in exception message not known to be total")
        elif isinstance(n, (ast.Name, ast.Attribute, ast.Constant, ast.BinOp, ast.Tuple, ast.ListComp, ast.comprehension,
                            ast.Load, ast.Store, ast.Mod, ast.Add, ast.BitOr, ast.JoinedStr, ast.FormattedValue,
                            ast.List)):
            continue
        else:
            fail(n, "construct in exception message not known to be total")


# ---------------------------------------------------------------- the translator
class Fn:
    """Translate one function body."""

    def __init__(self, cls: Optional[str], fdef: ast.FunctionDef, monadic: bool, rtype: str, assumptions: List[str]):
        self.cls = cls
        self.f = fdef
        self.monadic = monadic
        self.rtype = rtype
        self.tmp = 0
        self.assumptions = assumptions
        self.selfty = {"IoContract": "C", "TermList": "TL", None: None}[cls]
        self.fields: Dict[str, str] = {}  # for __init__ / mutating methods: field -> local name

    # ---- helpers
    def fresh(self, base="t"):
        self.tmp += 1
        return f"{base}_{self.tmp}"

    def param_types(self):
        params = []
        args = self.f.args
        defaults = [None] * (len(args.args) - len(args.defaults)) + list(args.defaults)
        for a, d in zip(args.args, defaults):
            if a.arg == "self":
                params.append(("self", self.selfty, None))
                continue
            if a.annotation is None:
                fail(a, "parameter without annotation")
            ann = ast.unparse(a.annotation)
            if ann == "Any":
                ty = ANY_BY_NAME.get(a.arg) or fail(a, "Any-typed parameter not in table")
            elif ann == "object":
                ty = self.selfty
            elif ann in ANNOT:
                ty = ANNOT[ann]
            else:
                fail(a, f"unknown annotation {ann}")
            params.append((a.arg, ty, d))
        return params

    # ---- expressions: returns (prebinds [(pattern, monadic expr)], coq expr, type)
    def tx(self, e, env) -> Tuple[List[Tuple[str, str]], str, str]:
        if isinstance(e, ast.Name):
            if e.id not in env:
                fail(e, "unbound name")
            return [], e.id, env[e.id]
        if isinstance(e, ast.Constant):
            if e.value is True:
                return [], "true", "B"
            if e.value is False:
                return [], "false", "B"
            if e.value is None:
                return [], "None", "NONE"
            if isinstance(e.value, int):
                return [], str(e.value), "N"
            fail(e, "constant")
        if isinstance(e, ast.List):
            if not e.elts:
                return [], "[]", "EMPTY"
            fail(e, "non-empty list literal")
        if isinstance(e, ast.Attribute):
            return self.tx_attr(e, env)
        if isinstance(e, ast.Call):
            return self.tx_call(e, env)
        if isinstance(e, ast.BinOp):
            return self.tx_binop(e, env)
        if isinstance(e, ast.UnaryOp) and isinstance(e.op, ast.Not):
            p, c, t = self.tx(e.operand, env)
            return p, f"(negb {self.truth(c, t, e)})", "B"
        if isinstance(e, ast.BoolOp):
            parts = [self.tx(v, env) for v in e.values]
            # short-circuit evaluation only matters for effects; operands after the first must be pure
            for p, _, _ in parts[1:]:
                if p:
                    fail(e, "effectful operand after the first in and/or")
            op = "&&" if isinstance(e.op, ast.And) else "||"
            cs = [self.truth(c, t, e) for _, c, t in parts]
            return parts[0][0], "(" + f" {op} ".join(cs) + ")", "B"
        if isinstance(e, ast.Compare):
            return self.tx_compare(e, env)
        if isinstance(e, ast.ListComp):
            return self.tx_listcomp(e, env)
        if isinstance(e, ast.Tuple):
            parts = [self.tx(v, env) for v in e.elts]
            pre = [b for p, _, _ in parts for b in p]
            return pre, "(" + ", ".join(c for _, c, _ in parts) + ")", "*".join(t for _, _, t in parts)
        fail(e, "expression form")

    def truth(self, c, t, node):
        if t == "B":
            return c
        if t in {"LV", "LT", "LN", "LA", "LST"}:
            return f"(nonempty {c})"
        if t in {"OLT", "OLV"}:
            return f"(opt_nonempty {c})"
        fail(node, f"truthiness of type {t}")

    def tx_attr(self, e, env):
        a = e.attr
        if isinstance(e.value, ast.Name) and e.value.id == "self" and a in self.fields:
            return [], self.fields[a], {"a": "TL", "g": "TL", "inputvars": "LV", "outputvars": "LV", "terms": "LT"}[a]
        p, c, t = self.tx(e.value, env)
        if t == "C":
            if a in {"a", "g"}:
                return p, f"(c_{a} {c})", "TL"
            if a in {"inputvars", "outputvars"}:
                return p, f"(c_{a} {c})", "LV"
            if a == "vars":
                return p, f"(IoContract_vars {c})", "LV"
        if t == "TL":
            if a == "terms":
                return p, c, "LT"
            if a == "vars":
                return p, f"(TermList_vars {c})", "LV"
        if t == "T" and a == "vars":
            return p, f"(term_vars {c})", "LV"
        fail(e, f"attribute {a} of type {t}")

    def coerce_opt(self, c, t, want):
        """argument passing into an optional-typed parameter"""
        if want.startswith("O") and t == "NONE":
            return "None"
        if want.startswith("O") and t == want:
            return c
        if want.startswith("O") and (t == want[1:] or t == "EMPTY"):
            return f"(Some {c})"
        return c

    def tx_call(self, e, env):
        f = e.func
        args = e.args
        kws = {k.arg: k.value for k in e.keywords}
        # plain functions
        if isinstance(f, ast.Name):
            if f.id in LIST_FUNS or f.id == "lists_equal":
                (p1, c1, t1), (p2, c2, t2) = self.tx(args[0], env), self.tx(args[1], env)
                ty = t1 if t1 not in {"EMPTY"} else t2
                if f.id == "lists_equal":
                    return p1 + p2, f"(lists_equal {c1} {c2})", "B"
                return p1 + p2, f"({f.id} {c1} {c2})", ty
            if f.id == "len":
                p, c, t = self.tx(args[0], env)
                return p, f"(len {c})", "N"
            if f.id in {"tuple", "hash"}:
                return self.tx(args[0], env)
            if f.id == "isinstance":
                fail(e, "isinstance outside the dropped guard idiom")
            fail(e, f"call to {f.id}")
        if not isinstance(f, ast.Attribute):
            # type(self)(...)
            if (isinstance(f, ast.Call) and isinstance(f.func, ast.Name) and f.func.id == "type"
                    and len(f.args) == 1):
                _, _, t = self.tx(f.args[0], env)
                parts = [self.tx(a, env) for a in args]
                pre = [b for p, _, _ in parts for b in p]
                if t == "TL" or (self.cls == "TermList" and t == "TL"):
                    return pre, f"(TermList_init {self.coerce_opt(parts[0][1], parts[0][2], 'OLT')})", "TL"
                if t == "C":
                    if len(parts) != 4 or kws:
                        fail(e, "constructor call shape")
                    tmp = self.fresh("c")
                    call = "IoContract_init " + " ".join(c for _, c, _ in parts) + " true"
                    return pre + [(tmp, call)], tmp, "C"
            fail(e, "call form")
        # copy.deepcopy(x)
        if isinstance(f.value, ast.Name) and f.value.id == "copy" and f.attr == "deepcopy":
            self.assumptions.append("copy.deepcopy(x) is x in the value model")
            return self.tx(args[0], env)
        if isinstance(f.value, ast.Name) and f.value.id == "logging":
            fail(e, "logging call in expression position")
        # method calls
        p0, c0, t0 = self.tx(f.value, env)
        m = f.attr
        parts = [self.tx(a, env) for a in args]
        pre = p0 + [b for p, _, _ in parts for b in p]
        cs = [c for _, c, _ in parts]
        if m == "copy" and t0 in {"LV", "LT", "LN"} and not args:
            return pre, c0, t0
        if m == "copy" and t0 in {"OLT", "OLV"} and not args:
            return pre, f"(opt_list {c0})", t0[1:]
        if m == "copy" and t0 == "T" and not args:
            return pre, c0, "T"
        if t0 == "T" and m == "rename_variable":
            return pre, f"(term_rename {c0} {cs[0]} {cs[1]})", "T"
        if t0 == "TL":
            if m in {"elim_vars_by_refining", "elim_vars_by_relaxing"}:
                names = ["context", "vars_to_elim", "simplify", "tactics_order"]
                full = list(cs)
                for n in names[len(cs):]:
                    if n not in kws:
                        fail(e, f"missing argument {n}")
                    pk, ck, _ = self.tx(kws[n], env)
                    pre += pk
                    full.append(ck)
                prim = "p_elim_refine" if m == "elim_vars_by_refining" else "p_elim_relax"
                tmp = self.fresh("r")
                return pre + [(tmp, f"{prim} {c0} " + " ".join(full))], tmp, "TL*ST"
            if m == "simplify":
                tmp = self.fresh("s")
                arg = f"(Some {cs[0]})" if cs else "None"
                return pre + [(tmp, f"p_simplify {c0} {arg}")], tmp, "TL"
            if m == "refines":
                tmp = self.fresh("b")
                return pre + [(tmp, f"p_refines {c0} {cs[0]}")], tmp, "B"
            if m == "is_empty":
                tmp = self.fresh("b")
                return pre + [(tmp, f"p_is_empty {c0}")], tmp, "B"
            if m in TL_METHODS:
                mon, rty = TL_METHODS[m]
                call = f"{coqname('TermList', m)} {c0} " + " ".join(cs)
                if mon:
                    tmp = self.fresh("v")
                    return pre + [(tmp, call)], tmp, rty
                return pre, f"({call.strip()})", rty
        if t0 == "C" and m in C_METHODS:
            mon, rty = C_METHODS[m]
            # fill defaults
            sig = METHOD_SIGS[("IoContract", m)]
            full = []
            for i, (pn, pt, pd) in enumerate(sig[1:]):
                if i < len(parts):
                    full.append(self.coerce_opt(parts[i][1], parts[i][2], pt))
                elif pn in kws:
                    pk, ck, tk = self.tx(kws[pn], env)
                    pre += pk
                    full.append(self.coerce_opt(ck, tk, pt))
                elif pd is not None:
                    pk, ck, tk = self.tx(pd, {})
                    full.append(self.coerce_opt(ck, tk, pt))
                else:
                    fail(e, f"missing argument {pn}")
            call = f"{coqname('IoContract', m)} {c0} " + " ".join(full)
            if mon:
                tmp = self.fresh("v")
                return pre + [(tmp, call)], tmp, rty
            return pre, f"({call.strip()})", rty
        fail(e, f"method {m} on type {t0}")

    def tx_binop(self, e, env):
        (p1, c1, t1), (p2, c2, t2) = self.tx(e.left, env), self.tx(e.right, env)
        if t1 == "TL" and t2 == "TL":
            op = {ast.BitOr: "or", ast.Sub: "sub", ast.BitAnd: "and"}.get(type(e.op))
            if op:
                return p1 + p2, f"(TermList_{op} {c1} {c2})", "TL"
        if t1 == "B" and t2 == "B" and isinstance(e.op, ast.BitAnd):
            return p1 + p2, f"({c1} && {c2})", "B"
        fail(e, f"binary operator on {t1},{t2}")

    def tx_compare(self, e, env):
        if len(e.ops) != 1:
            fail(e, "chained comparison")
        op = e.ops[0]
        # len(X) != len(set(X))  -- duplicate test through hashing/equality of Var
        l, r = e.left, e.comparators[0]
        if (isinstance(op, ast.NotEq) and isinstance(l, ast.Call) and isinstance(l.func, ast.Name) and l.func.id == "len"
                and isinstance(r, ast.Call) and isinstance(r.func, ast.Name) and r.func.id == "len"
                and isinstance(r.args[0], ast.Call) and isinstance(r.args[0].func, ast.Name)
                and r.args[0].func.id == "set" and ast.dump(r.args[0].args[0]) == ast.dump(l.args[0])):
            p, c, t = self.tx(l.args[0], env)
            if t != "LV":
                fail(e, "duplicate test on a non-variable list")
            return p, f"(has_dup {c})", "B"
        (p1, c1, t1), (p2, c2, t2) = self.tx(e.left, env), self.tx(e.comparators[0], env)
        pre = p1 + p2
        if isinstance(op, (ast.In, ast.NotIn)):
            r = f"(py_in {c1} {c2})"
            return pre, r if isinstance(op, ast.In) else f"(negb {r})", "B"
        if t1 == "N" and t2 == "N":
            r = {ast.Eq: f"(Nat.eqb {c1} {c2})", ast.NotEq: f"(negb (Nat.eqb {c1} {c2}))",
                 ast.Gt: f"(Nat.ltb {c2} {c1})", ast.Lt: f"(Nat.ltb {c1} {c2})",
                 ast.GtE: f"(Nat.leb {c2} {c1})", ast.LtE: f"(Nat.leb {c1} {c2})"}.get(type(op))
            if r:
                return pre, r, "B"
        if isinstance(op, (ast.Eq, ast.NotEq)):
            if t1 != t2:
                fail(e, f"== between {t1} and {t2}")
            if t1 == "TL":
                r = f"(TermList_eq {c1} {c2})"
            elif t1 in {"V", "LV", "LT", "T"}:
                r = f"(py_eqb {c1} {c2})"
            else:
                fail(e, f"== on type {t1}")
            return pre, r if isinstance(op, ast.Eq) else f"(negb {r})", "B"
        if isinstance(op, ast.LtE) and t1 == "TL" and t2 == "TL":
            tmp = self.fresh("b")
            return pre + [(tmp, f"TermList_le {c1} {c2}")], tmp, "B"
        if isinstance(op, (ast.Is, ast.IsNot)) and t2 == "NONE" and t1.startswith("O"):
            r = f"(is_none {c1})"
            return pre, r if isinstance(op, ast.Is) else f"(negb {r})", "B"
        fail(e, f"comparison on {t1},{t2}")

    def tx_listcomp(self, e, env):
        if len(e.generators) != 1:
            fail(e, "nested comprehension")
        g = e.generators[0]
        if not isinstance(g.target, ast.Name):
            fail(e, "comprehension target")
        pi, ci, ti = self.tx(g.iter, env)
        elty = {"LV": "V", "LT": "T", "LA": "A"}.get(ti) or fail(e, f"comprehension over {ti}")
        env2 = dict(env)
        env2[g.target.id] = elty
        src = ci
        for cond in g.ifs:
            pc, cc, tc = self.tx(cond, env2)
            if pc:
                fail(e, "effect in comprehension")
            src = f"(filter (fun {g.target.id} => {self.truth(cc, tc, cond)}) {src})"
        pe, ce, te = self.tx(e.elt, env2)
        if pe:
            fail(e, "effect in comprehension")
        if ce == g.target.id:
            return pi, src, ti
        rty = {"T": "LT", "V": "LV"}.get(te) or fail(e, f"comprehension of {te}")
        return pi, f"(map (fun {g.target.id} => {ce}) {src})", rty

    # ---- statements
    def ret(self, c):
        return f"ret {c}" if self.monadic else c

    def emit_binds(self, pre, body, ind):
        out = ""
        for pat, m in pre:
            if not self.monadic:
                fail(self.f, f"monadic operation `{m}` in a function declared pure")
            out += f"{ind}{pat} <- {m} ;;\n"
        return out + body

    def assigned(self, stmts) -> List[str]:
        out: List[str] = []

        def add(n):
            if n not in out:
                out.append(n)

        for s in stmts:
            if isinstance(s, ast.Assign):
                for t in s.targets:
                    elts = t.elts if isinstance(t, ast.Tuple) else [t]
                    for n in elts:
                        if isinstance(n, ast.Name):
                            if n.id != "_":
                                add(n.id)
                        elif isinstance(n, ast.Attribute) and isinstance(n.value, ast.Name) and n.value.id == "self":
                            add("self_" + n.attr)
                        elif isinstance(n, ast.Subscript) and isinstance(n.value, ast.Name):
                            add(n.value.id)
                        else:
                            fail(n, "assignment target")
            elif isinstance(s, ast.AugAssign):
                add(s.target.id)
            elif isinstance(s, ast.AnnAssign):
                if isinstance(s.target, ast.Name):
                    add(s.target.id)
                else:
                    add("self_" + s.target.attr)
            elif isinstance(s, ast.Expr) and isinstance(s.value, ast.Call) and isinstance(s.value.func, ast.Attribute) \
                    and s.value.func.attr in {"append", "remove"} and isinstance(s.value.func.value, ast.Name):
                add(s.value.func.value.id)
            elif isinstance(s, ast.If):
                for n in self.assigned(s.body) + self.assigned(s.orelse):
                    add(n)
            elif isinstance(s, ast.Try):
                for n in self.assigned(s.body) + [x for h in s.handlers for x in self.assigned(h.body)]:
                    add(n)
            elif isinstance(s, ast.For):
                for n in self.assigned(s.body):
                    add(n)
        return out

    def terminates(self, stmts) -> bool:
        if not stmts:
            return False
        s = stmts[-1]
        if isinstance(s, (ast.Raise, ast.Return)):
            return True
        if isinstance(s, ast.If):
            return bool(s.orelse) and self.terminates(s.body) and self.terminates(s.orelse)
        return False

    def is_dropped(self, s) -> bool:
        if isinstance(s, ast.Expr):
            v = s.value
            if isinstance(v, ast.Constant) and (v.value is Ellipsis or isinstance(v.value, str)):
                return True
            if isinstance(v, ast.Call) and isinstance(v.func, ast.Attribute) and isinstance(v.func.value, ast.Name) \
                    and v.func.value.id == "logging":
                for a in v.args:
                    check_message_total(a)
                return True
        # `if not isinstance(other, type(self)): raise ...`
        if isinstance(s, ast.If) and not s.orelse and len(s.body) == 1 and isinstance(s.body[0], ast.Raise):
            t = s.test
            if isinstance(t, ast.UnaryOp) and isinstance(t.op, ast.Not) and isinstance(t.operand, ast.Call) \
                    and isinstance(t.operand.func, ast.Name) and t.operand.func.id == "isinstance":
                self.assumptions.append(f"{self.cls}.{self.f.name}: isinstance guard dropped (typed model)")
                return True
        return False

    def block(self, stmts, env, ind, k: Optional[Callable[[dict, str], str]]) -> str:
        """Coq text for stmts followed by continuation k (None = end of function)."""
        if not stmts:
            if k is None:
                return self.end_of_function(env, ind)
            return k(env, ind)
        s, rest = stmts[0], stmts[1:]
        nxt = lambda env2, ind2: self.block(rest, env2, ind2, k)  # noqa: E731
        if self.is_dropped(s):
            return nxt(env, ind)
        if isinstance(s, ast.Return):
            if rest:
                fail(s, "return not in tail position")
            if k is not None:
                fail(s, "return inside a joined branch")
            pre, c, t = self.tx(s.value, env)
            return self.emit_binds(pre, f"{ind}{self.ret(c)}", ind)
        if isinstance(s, ast.Raise):
            return self.tr_raise(s, ind)
        if isinstance(s, ast.AnnAssign):
            if s.value is None:
                fail(s, "annotated assignment form")
            ann = ast.unparse(s.annotation)
            if ann not in ANNOT:
                fail(s, f"unknown annotation {ann}")
            fake = ast.Assign(targets=[s.target], value=s.value, lineno=s.lineno)
            return self.tr_assign(fake, env, ind, nxt, hint=ANNOT[ann])
        if isinstance(s, ast.Assign):
            return self.tr_assign(s, env, ind, nxt)
        if isinstance(s, ast.AugAssign):
            if not isinstance(s.target, ast.Name):
                fail(s, "augmented assignment target")
            fake = ast.Assign(targets=[ast.Name(id=s.target.id, ctx=ast.Store())],
                              value=ast.BinOp(left=ast.Name(id=s.target.id, ctx=ast.Load()), op=s.op, right=s.value),
                              lineno=s.lineno)
            return self.tr_assign(fake, env, ind, nxt)
        if isinstance(s, ast.Expr):
            v = s.value
            if isinstance(v, ast.Call) and isinstance(v.func, ast.Attribute) and isinstance(v.func.value, ast.Name):
                tgt, m = v.func.value.id, v.func.attr
                if tgt in env and m == "append" and len(v.args) == 1:
                    pre, c, t = self.tx(v.args[0], env)
                    want = {"LST": "ST", "LT": "T", "LV": "V"}.get(env[tgt])
                    if want is None or (t != want and not (want == "ST" and t == "ST")):
                        fail(s, f"append of {t} to {env[tgt]}")
                    return self.emit_binds(pre, f"{ind}let {tgt} := ({tgt} ++ [{c}])%list in\n" + nxt(env, ind), ind)
                if tgt in env and m == "remove" and len(v.args) == 1 and env[tgt] == "LV":
                    pre, c, t = self.tx(v.args[0], env)
                    self.assumptions.append("list.remove(x) is applied only where x is known to be in the list "
                                            "(guarded by `x in l`); remove_first is total")
                    return self.emit_binds(pre, f"{ind}let {tgt} := remove_first {c} {tgt} in\n" + nxt(env, ind), ind)
            fail(s, "expression statement")
        if isinstance(s, ast.If):
            return self.tr_if(s, rest, env, ind, k)
        if isinstance(s, ast.Try):
            return self.tr_try(s, rest, env, ind, k)
        if isinstance(s, ast.For):
            return self.tr_for(s, env, ind, nxt)
        fail(s, "statement form")

    def end_of_function(self, env, ind):
        # function without explicit return: __init__ or a mutating method
        if self.selfty == "C" and self.fields:
            get = lambda f: self.fields.get(f, f"(c_{f} self)")  # noqa: E731
            rec = (f"{{| c_a := {get('a')}; c_g := {get('g')}; c_inputvars := {get('inputvars')}; "
                   f"c_outputvars := {get('outputvars')} |}}")
            return f"{ind}{self.ret(rec)}"
        if self.selfty == "TL" and "terms" in self.fields:
            return f"{ind}{self.ret(self.fields['terms'])}"
        fail(self.f, "function falls off the end without building a value")

    def tr_raise(self, s, ind):
        exc = s.exc
        if isinstance(exc, ast.Call) and isinstance(exc.func, ast.Name):
            name = exc.func.id
            for a in exc.args:
                check_message_total(a)
        elif isinstance(exc, ast.Name):
            name = exc.id
        else:
            fail(s, "raise form")
        if name not in ERRKIND:
            fail(s, f"exception class {name}")
        if not self.monadic:
            fail(s, "raise in a function declared pure")
        return f"{ind}raise {ERRKIND[name]}"

    def tr_assign(self, s, env, ind, nxt, hint=None):
        if len(s.targets) != 1:
            fail(s, "multiple assignment targets")
        tgt = s.targets[0]
        # x is None idiom handled in tr_if; here plain forms
        pre, c, t = self.tx(s.value, env)
        env2 = dict(env)
        if isinstance(tgt, ast.Name):
            if t == "EMPTY":
                # type from annotation-less empty list: infer from previous binding or by later use
                t = hint or env.get(tgt.id, EMPTY_HINT.get(tgt.id)) or fail(s, "type of empty list literal")
            elif hint and hint != t:
                fail(s, f"annotation {hint} vs inferred {t}")
            env2[tgt.id] = t
            # direct bind when the value is exactly the last prebind
            if pre and pre[-1][0] == c:
                pat, m = pre[-1]
                body = f"{ind}{tgt.id} <- {m} ;;\n" + nxt(env2, ind)
                return self.emit_binds(pre[:-1], body, ind)
            return self.emit_binds(pre, f"{ind}let {tgt.id} := {c} in\n" + nxt(env2, ind), ind)
        if isinstance(tgt, ast.Tuple) and all(isinstance(x, ast.Name) for x in tgt.elts):
            tys = t.split("*")
            if len(tys) != len(tgt.elts):
                fail(s, f"tuple arity vs type {t}")
            names = [x.id for x in tgt.elts]
            for n, ty in zip(names, tys):
                if n != "_":
                    env2[n] = ty
            pat = "'(" + ", ".join(names) + ")"
            if pre and pre[-1][0] == c:
                _, m = pre[-1]
                body = f"{ind}{pat} <- {m} ;;\n" + nxt(env2, ind)
                return self.emit_binds(pre[:-1], body, ind)
            return self.emit_binds(pre, f"{ind}let {pat} := {c} in\n" + nxt(env2, ind), ind)
        if isinstance(tgt, ast.Attribute) and isinstance(tgt.value, ast.Name) and tgt.value.id == "self":
            fld = tgt.attr
            local = "self_" + fld
            self.fields[fld] = local
            fty = {"a": "TL", "g": "TL", "inputvars": "LV", "outputvars": "LV", "terms": "LT"}.get(fld) \
                or fail(s, f"field {fld}")
            if t == "EMPTY":
                t = fty
            if t != fty:
                fail(s, f"field {fld} assigned a value of type {t}")
            env2[local] = fty
            if pre and pre[-1][0] == c:
                _, m = pre[-1]
                return self.emit_binds(pre[:-1], f"{ind}{local} <- {m} ;;\n" + nxt(env2, ind), ind)
            return self.emit_binds(pre, f"{ind}let {local} := {c} in\n" + nxt(env2, ind), ind)
        if isinstance(tgt, ast.Subscript):
            # l[l.index(x)] = y
            if (isinstance(tgt.value, ast.Name) and isinstance(tgt.slice, ast.Call)
                    and isinstance(tgt.slice.func, ast.Attribute) and tgt.slice.func.attr == "index"
                    and isinstance(tgt.slice.func.value, ast.Name) and tgt.slice.func.value.id == tgt.value.id
                    and env.get(tgt.value.id) == "LV"):
                px, cx, _ = self.tx(tgt.slice.args[0], env)
                l = tgt.value.id
                return self.emit_binds(pre + px, f"{ind}let {l} := replace_first {cx} {c} {l} in\n" + nxt(env, ind), ind)
        fail(s, "assignment target")

    def none_default_idiom(self, s, env):
        """`if X is None: X = E` / `if not X: X = E` on an optional parameter."""
        if s.orelse or len(s.body) != 1 or not isinstance(s.body[0], ast.Assign):
            return None
        a = s.body[0]
        if len(a.targets) != 1 or not isinstance(a.targets[0], ast.Name):
            return None
        x = a.targets[0].id
        if not env.get(x, "").startswith("O"):
            return None
        t = s.test
        inner = env[x][1:]
        if isinstance(t, ast.Compare) and isinstance(t.left, ast.Name) and t.left.id == x \
                and isinstance(t.ops[0], ast.Is) and isinstance(t.comparators[0], ast.Constant) \
                and t.comparators[0].value is None:
            _, c, _ = self.tx(a.value, {k: v for k, v in env.items() if k != x})
            return x, inner, f"match {x} with None => {c} | Some v_ => v_ end"
        if isinstance(t, ast.UnaryOp) and isinstance(t.op, ast.Not) and isinstance(t.operand, ast.Name) \
                and t.operand.id == x:
            _, c, _ = self.tx(a.value, {k: v for k, v in env.items() if k != x})
            return x, inner, f"match {x} with None => {c} | Some v_ => if nonempty v_ then v_ else {c} end"
        return None

    def tr_if(self, s, rest, env, ind, k):
        idiom = self.none_default_idiom(s, env)
        if idiom:
            x, inner, c = idiom
            env2 = dict(env)
            env2[x] = inner
            return f"{ind}let {x} := {c} in\n" + self.block(rest, env2, ind, k)
        pre, c, t = self.tx(s.test, env)
        cond = self.truth(c, t, s.test)
        tb, te = self.terminates(s.body), self.terminates(s.orelse)
        ind2 = ind + "  "
        cont = lambda env2, i2: self.block(rest, env2, i2, k)  # noqa: E731
        if tb and te:
            if rest:
                fail(s, "unreachable code after if")
            body = (f"{ind}if {cond} then\n" + self.block(s.body, env, ind2, None) + f"\n{ind}else\n"
                    + self.block(s.orelse, env, ind2, None))
            return self.emit_binds(pre, body, ind)
        if tb and not te:
            body = (f"{ind}if {cond} then\n" + self.block(s.body, env, ind2, None) + f"\n{ind}else\n"
                    + self.block(s.orelse, env, ind2, cont))
            return self.emit_binds(pre, body, ind)
        if te and not tb:
            body = (f"{ind}if {cond} then\n" + self.block(s.body, env, ind2, cont) + f"\n{ind}else\n"
                    + self.block(s.orelse, env, ind2, None))
            return self.emit_binds(pre, body, ind)
        # both fall through: join on the variables assigned in either branch
        return self.emit_binds(pre, self.join(f"if {cond} then", [s.body, s.orelse], ["else"], rest, env, ind, k), ind)

    def join(self, head, branches, seps, rest, env, ind, k, wrap=None):
        names = []
        for b in branches:
            for n in self.assigned(b):
                if n not in names:
                    names.append(n)
        # a joined variable must be defined on every fall-through path
        def defined_after(b, n):
            return n in env or n in self.definitely_assigned(b)
        jn = [n for n in names if all(self.terminates(b) or defined_after(b, n) for b in branches)]
        if not jn:
            fail(branches[0][0] if branches[0] else self.f, "join with no variables")
        tup = "(" + ", ".join(jn) + ")" if len(jn) > 1 else jn[0]
        pat = "'" + tup if len(jn) > 1 else jn[0]
        ind2 = ind + "    "
        envs = []

        def kk(env2, i2):
            envs.append(env2)
            return f"{i2}{self.ret(tup)}"

        texts = [self.block(b, env, ind2, kk) for b in branches]
        env3 = dict(env)
        for n in jn:
            tys = {e2[n] for e2 in envs if n in e2}
            if len(tys) != 1:
                fail(self.f, f"joined variable {n} has types {tys}")
            env3[n] = tys.pop()
        for n in jn:
            if n.startswith("self_"):
                self.fields[n[5:]] = n
        if wrap:
            expr = wrap(texts, ind)
        else:
            expr = f"{ind}  ({head}\n{texts[0]}"
            for sep, tx_ in zip(seps, texts[1:]):
                expr += f"\n{ind}   {sep}\n{tx_}"
            expr += ")"
        if self.monadic:
            return f"{ind}{pat} <-\n{expr} ;;\n" + self.block(rest, env3, ind, k)
        return f"{ind}let {pat} :=\n{expr} in\n" + self.block(rest, env3, ind, k)

    def definitely_assigned(self, stmts):
        out = set()
        for s in stmts:
            if isinstance(s, ast.If):
                if s.orelse:
                    a, b = self.definitely_assigned(s.body), self.definitely_assigned(s.orelse)
                    if self.terminates(s.body):
                        out |= b
                    elif self.terminates(s.orelse):
                        out |= a
                    else:
                        out |= a & b
            elif isinstance(s, ast.Try):
                a = self.definitely_assigned(s.body)
                for h in s.handlers:
                    a &= self.definitely_assigned(h.body)
                out |= a
            else:
                out |= set(self.assigned([s]))
        return out

    def tr_try(self, s, rest, env, ind, k):
        if s.orelse or s.finalbody or len(s.handlers) != 1:
            fail(s, "try form")
        h = s.handlers[0]
        if not (isinstance(h.type, ast.Name) and h.type.id == "ValueError" and h.name is None):
            fail(s, "except clause other than `except ValueError:`")
        # only the first statement of the body may raise
        for later in s.body[1:]:
            probe = Fn(self.cls, self.f, False, self.rtype, [])
            probe.fields = dict(self.fields)
            env_probe = dict(env)
            for n in self.assigned(s.body):
                env_probe.setdefault(n, env.get(n, "ST"))
            try:
                probe.block([later], self.env_after(s.body[:s.body.index(later)], env), "", lambda e, i: "")
            except Unsupported as ex:
                fail(later, f"statement after the first in a try body might raise ({ex})")

        def wrap(texts, ind_):
            return (f"{ind_}  (try_value_error\n{ind_}    (\n{texts[0]})\n{ind_}    (\n{texts[1]}))")

        return self.join(None, [s.body, h.body], [], rest, env, ind, k, wrap=wrap)

    def env_after(self, stmts, env):
        """types after executing stmts (best effort, used only for the purity probe)"""
        env2 = dict(env)
        try:
            self2 = Fn(self.cls, self.f, True, self.rtype, [])
            self2.fields = dict(self.fields)
            self2.tmp = 1000
            cap = {}

            def kk(e, i):
                cap.update(e)
                return ""

            self2.block(list(stmts), env2, "", kk)
            return cap or env2
        except Unsupported:
            return env2

    def tr_for(self, s, env, ind, nxt):
        if s.orelse or not isinstance(s.target, ast.Name):
            fail(s, "for form")
        pi, ci, ti = self.tx(s.iter, env)
        elty = {"LV": "V", "LT": "T", "LA": "A"}.get(ti) or fail(s, f"iteration over {ti}")
        accs = [n for n in self.assigned(s.body) if n in env]
        if not accs or set(self.assigned(s.body)) - set(accs):
            fail(s, "loop body assigns a variable not defined before the loop")
        tup = "(" + ", ".join(accs) + ")" if len(accs) > 1 else accs[0]
        pat = "'" + tup if len(accs) > 1 else accs[0]
        inner = Fn(self.cls, self.f, False, self.rtype, self.assumptions)
        inner.fields = dict(self.fields)
        inner.tmp = self.tmp + 100
        env2 = dict(env)
        env2[s.target.id] = elty
        body = inner.block(s.body, env2, ind + "      ", lambda e, i: f"{i}{tup}")
        txt = (f"{ind}let {pat} := fold_left (fun {pat if len(accs) == 1 else pat} {s.target.id} =>\n{body})\n"
               f"{ind}    {ci} {tup} in\n")
        return self.emit_binds(pi, txt + nxt(env, ind), ind)


EMPTY_HINT = {"tactics_used": "LST", "varlist": "LV", "terms": "LT", "vars_to_keep": "LV", "tactics_order": "LN",
              "additional_inputs": "LV"}
METHOD_SIGS: Dict[Tuple[str, str], list] = {}


def translate_function(cls, fdef, monadic, rtype, assumptions, implicit="") -> str:
    fn = Fn(cls, fdef, monadic, rtype, assumptions)
    params = fn.param_types()
    env = {n: t for n, t, _ in params}
    name = coqname(cls, fdef.name) if cls else fdef.name
    if cls == "IoContract" and fdef.name == "__init__":
        params = params[1:]
        env.pop("self")
    if cls == "TermList" and fdef.name == "__init__":
        params = params[1:]
        env.pop("self")
    body = fn.block(list(fdef.body), env, "  ", None)
    sig = " ".join(f"({n} : {COQTY[t]})" for n, t, _ in params)
    rt = {"C": "contract", "B": "bool", "LV": "list var", "TL": "list term", "C*LST": "(contract * list stats)",
          "KEY": "(list var * list var * list term * list term)", "LA": "list A"}[rtype]
    rt = f"M {rt}" if monadic else rt
    return f"Definition {name} {implicit}{sig} : {rt} :=\n{body}.\n"


def strip_doc(fdef):
    if fdef.body and isinstance(fdef.body[0], ast.Expr) and isinstance(fdef.body[0].value, ast.Constant) \
            and isinstance(fdef.body[0].value.value, str):
        fdef.body = fdef.body[1:]
    return fdef


def class_def(mod, name):
    for n in mod.body:
        if isinstance(n, ast.ClassDef) and n.name == name:
            return n
    raise Unsupported(f"class {name} not found")


def methods(cdef):
    out = {}
    for n in cdef.body:
        if isinstance(n, ast.FunctionDef):
            out[n.name] = n
        elif isinstance(n, (ast.Expr, ast.Pass)):
            continue
        else:
            fail(n, f"class-level statement in {cdef.name}")
    return out


def is_abstract(f):
    return any(isinstance(d, ast.Name) and d.id == "abstractmethod" for d in f.decorator_list)


def norm_dump(node) -> str:
    node = ast.parse(ast.unparse(node))
    for n in ast.walk(node):
        if isinstance(n, (ast.FunctionDef, ast.ClassDef, ast.Module)):
            strip_doc(n)
    return ast.dump(node)


HEADER = """(* GENERATED by /verif/translator/py2coq.py from {src} — do not edit.
   source sha256: {sha} *)
From Coq Require Import List String Bool Arith ZArith.
Import ListNotations.
Require Import Py.
Open Scope py_scope.
"""


def gen_lists(src_path) -> str:
    src = open(src_path).read()
    mod = ast.parse(src)
    out = HEADER.format(src="src/pacti/utils/lists.py", sha=hashlib.sha256(src.encode()).hexdigest())
    out += "Set Implicit Arguments.\nSection Lists.\nContext {A : Type} `{PyEq A}.\n\n"
    seen = []
    for n in mod.body:
        if isinstance(n, ast.FunctionDef):
            strip_doc(n)
            seen.append(n.name)
            if len(n.body) != 1 or not isinstance(n.body[0], ast.Return):
                fail(n, "lists.py function is not a single return")
            fn = Fn(None, n, False, "LA", [])
            env = {a.arg: "LA" for a in n.args.args}
            e = n.body[0].value
            if n.name == "list_union":
                # list1 + [comprehension]
                if not (isinstance(e, ast.BinOp) and isinstance(e.op, ast.Add)):
                    fail(e, "list_union shape")
                (_, c1, _), (_, c2, _) = fn.tx(e.left, env), fn.tx(e.right, env)
                body, rt = f"({c1} ++ {c2})%list", "list A"
            elif n.name == "lists_equal":
                fn.rtype = "B"
                # inner calls are to the functions defined above in the same section
                _, body, _ = fn.tx(e, env)
                rt = "bool"
            else:
                _, body, _ = fn.tx(e, env)
                rt = "list A"
            sig = " ".join(f"({a.arg} : list A)" for a in n.args.args)
            out += f"Definition {n.name} {sig} : {rt} :=\n  {body}.\n\n"
        elif isinstance(n, (ast.Import, ast.ImportFrom, ast.Expr)):
            continue
        else:
            fail(n, "top-level statement in lists.py")
    if seen != ["list_intersection", "list_diff", "list_union", "lists_equal"]:
        raise Unsupported(f"lists.py defines {seen}")
    out += "End Lists.\n"
    return out


def gen_algebra(src_path, errors_path) -> Tuple[str, List[str]]:
    src = open(src_path).read()
    mod = ast.parse(src)
    assumptions: List[str] = []
    # --- exception hierarchy
    emod = ast.parse(open(errors_path).read())
    inc = class_def(emod, "IncompatibleArgsError")
    if [ast.unparse(b) for b in inc.bases] != ["ValueError"]:
        raise Unsupported("IncompatibleArgsError is expected to subclass ValueError (is_value_error in Py.v)")
    # --- imports used by the module must be the list functions we translate
    out = HEADER.format(src="src/pacti/iocontract/iocontract.py", sha=hashlib.sha256(src.encode()).hexdigest())
    out += "Require Import ListsGen.\n\nSection Algebra.\nContext `{Domain}.\n\n"
    # --- Var: hand-modelled as string; check the class still is what Py.v assumes
    var_c = class_def(mod, "Var")
    vm = methods(var_c)
    exp_eq = "def __eq__(self, other: object) -> bool:\n    if not isinstance(other, type(self)):\n        raise ValueError()\n    return self.name == other.name"
    exp_hash = "def __hash__(self) -> int:\n    return hash(self.name)"
    if ast.unparse(strip_doc(vm["__eq__"])) != exp_eq or ast.unparse(strip_doc(vm["__hash__"])) != exp_hash:
        raise Unsupported("Var.__eq__/__hash__ differ from the name-equality model in Py.v")
    # --- TermList
    tl_c = class_def(mod, "TermList")
    tm = methods(tl_c)
    for name, f in tm.items():
        strip_doc(f)
        if name in TL_SKIP:
            continue
        if is_abstract(f):
            if name not in TL_ABSTRACT:
                raise Unsupported(f"unexpected abstract TermList method {name}")
            continue
        if name not in TL_METHODS:
            raise Unsupported(f"unexpected concrete TermList method {name}")
    for name in TL_ABSTRACT:
        if name not in tm or not is_abstract(tm[name]):
            raise Unsupported(f"TermList.{name} is expected to be abstract (a Domain primitive)")
    for name in TL_METHODS:
        if name not in tm:
            raise Unsupported(f"TermList.{name} missing")
    order = ["__init__", "vars", "__eq__", "get_terms_with_vars", "copy", "__and__", "__or__", "__sub__", "__le__",
             "rename_variable"]
    for name in order:
        f = tm[name]
        f.decorator_list = [d for d in f.decorator_list if not (isinstance(d, ast.Name) and d.id == "property")]
        mon, rty = TL_METHODS[name]
        fn_params = Fn("TermList", f, mon, rty, assumptions).param_types()
        METHOD_SIGS[("TermList", name)] = fn_params
        out += translate_function("TermList", f, mon, rty, assumptions) + "\n"
    # --- contract record
    out += ("Record contract : Type := { c_a : list term; c_g : list term; c_inputvars : list var; "
            "c_outputvars : list var }.\n\n")
    io_c = class_def(mod, "IoContract")
    im = methods(io_c)
    for name, f in im.items():
        strip_doc(f)
        f.decorator_list = [d for d in f.decorator_list if not (isinstance(d, ast.Name) and d.id == "property")]
        if f.decorator_list:
            raise Unsupported(f"decorator on IoContract.{name}")
        if name in C_SKIP:
            continue
        if name not in C_METHODS:
            raise Unsupported(f"unexpected IoContract method {name}")
    for name in C_METHODS:
        if name not in im:
            raise Unsupported(f"IoContract.{name} missing")
    for name, f in im.items():
        if name in C_METHODS:
            mon, rty = C_METHODS[name]
            METHOD_SIGS[("IoContract", name)] = Fn("IoContract", f, mon, rty, assumptions).param_types()
    corder = ["__init__", "simplify", "vars", "__eq__", "__hash__", "rename_variable", "copy", "can_compose_with",
              "can_quotient_by", "shares_io_with", "refines", "__le__", "compose_tactics", "compose",
              "quotient_tactics", "quotient", "merge", "contains_environment", "contains_implementation"]
    assert set(corder) == set(C_METHODS)
    for name in corder:
        mon, rty = C_METHODS[name]
        out += translate_function("IoContract", im[name], mon, rty, assumptions) + "\n"
    out += "End Algebra.\n"
    return out, sorted(set(assumptions))


def gen_consts(poly_path, pc_path) -> str:
    """Module constants and wrapper defaults of the polyhedral instantiation."""
    out = "(* GENERATED by /verif/translator/py2coq.py — module constants *)\nFrom Coq Require Import List.\nImport ListNotations.\n"
    for label, path in (("polyhedra", poly_path), ("polyhedral_iocontract", pc_path)):
        mod = ast.parse(open(path).read())
        val = None
        for n in mod.body:
            if isinstance(n, ast.Assign) and len(n.targets) == 1 and isinstance(n.targets[0], ast.Name) \
                    and n.targets[0].id == "TACTICS_ORDER":
                val = ast.literal_eval(n.value)
        if not (isinstance(val, list) and all(isinstance(x, int) and 0 <= x < 100 for x in val)):
            raise Unsupported(f"TACTICS_ORDER in {label}")
        out += f"Definition TACTICS_ORDER_{label} : list nat := [{'; '.join(map(str, val))}].\n"
    # numeric module constants (a float literal is the exact rational it denotes)
    from fractions import Fraction
    import os as _os
    ser_path = _os.path.join(_os.path.dirname(poly_path), "serializer.py")
    wanted = [(poly_path, "REFINEMENT_TOLERANCE"), (ser_path, "float_closeness_relative_tolerance"),
              (ser_path, "float_closeness_absolute_tolerance")]
    out += "From Coq Require Import QArith.\n"
    for path, name in wanted:
        mod = ast.parse(open(path).read())
        val = None
        for n in mod.body:
            tgt = None
            if isinstance(n, ast.Assign) and len(n.targets) == 1 and isinstance(n.targets[0], ast.Name):
                tgt = n.targets[0].id
            elif isinstance(n, ast.AnnAssign) and isinstance(n.target, ast.Name) and n.value is not None:
                tgt = n.target.id
            if tgt == name:
                val = ast.literal_eval(n.value)
        if not isinstance(val, (int, float)) or isinstance(val, bool) or val != val or val in (float("inf"), float("-inf")):
            raise Unsupported(f"numeric module constant {name} in {path}")
        fr = Fraction(float(val))
        num = f"({fr.numerator})" if fr.numerator < 0 else str(fr.numerator)
        out += f"Definition {name} : Q := Qmake {num} {fr.denominator}.\n"
    return out


def main(repo, outdir):
    import os
    res = {}
    res["ListsGen.v"] = gen_lists(f"{repo}/src/pacti/utils/lists.py")
    alg, assumptions = gen_algebra(f"{repo}/src/pacti/iocontract/iocontract.py", f"{repo}/src/pacti/utils/errors.py")
    res["AlgebraGen.v"] = alg
    res["ConstGen.v"] = gen_consts(f"{repo}/src/pacti/terms/polyhedra/polyhedra.py",
                                   f"{repo}/src/pacti/contracts/polyhedral_iocontract.py")
    changed = []
    for name, txt in res.items():
        p = os.path.join(outdir, name)
        old = open(p).read() if os.path.exists(p) else None
        if old != txt:
            with open(p, "w") as fh:
                fh.write(txt)
            changed.append(name)
    return changed, assumptions


if __name__ == "__main__":
    try:
        ch, ass = main(sys.argv[1], sys.argv[2])
    except Unsupported as ex:
        print(f"TRANSLATOR-UNSUPPORTED: {ex}")
        sys.exit(3)
    print("changed:", ch)
    for a in ass:
        print("assumption:", a)
