#!/usr/bin/env python3
"""T1 translator: a fail-closed rendering of the loop-free Python subset used by
pacti/utils/lists.py and pacti/iocontract/iocontract.py into Gallina.

Run on every check; the output (coq/gen/*.v) is what the theorems of
proofs/Algebra*.v and props/C05.v, C06.v, ... are proved about.  Anything outside
the whitelisted subset raises Unsupported and the check fails closed.

Design notes
* value model: copy()/deepcopy are the identity, `self.x = e` builds a new record;
* every primitive of the abstract TermList (elim_vars_by_*, simplify, refines,
  is_empty) and the IoContract constructor are monadic (M = _ + err);
* `raise X(...)` becomes `raise <kind>`; the message expression is checked to be
  built from total operations only and then dropped;
* `isinstance(other, type(self))` guards are dropped (the model is typed);
* logging.debug(...) statements are dropped.

A second generator (gen_term, section "PolyhedralTerm" below) renders the pure methods of
pacti.terms.polyhedra.polyhedra.PolyhedralTerm (dicts of floats, loops, comprehensions, in-place
updates of local copies) into gen/TermGen.v over the vocabulary of coq/base/PyDict.v;
proofs/TermGenFacts.v proves each generated function equal to the hand model of model/Term.v.

A third generator (gen_compound / gen_wrap, section "NestedTermList / IoContractCompound / wrappers") renders
pacti/iocontract/compundiocontract.py (NestedTermList, IoContractCompound; generic in the term-list type: class
TLDomain of coq/base/PyLoop.v) into gen/CompoundGen.v and the thin wrappers of
pacti/contracts/polyhedral_iocontract.py:PolyhedralIoContract (rename_variables, compose[_tactics],
quotient[_tactics], get_variable_bounds) into gen/WrapGen.v; proofs/CompoundGenNested.v, CompoundGenContract.v and
WrapGenFacts.v prove each generated function equal to the hand models of model/Compound.v and model/PolyDomain.v.
"""
from __future__ import annotations

import ast
import hashlib
import sys
import textwrap
from typing import Callable, Dict, List, Optional, Tuple


# functions whose body left the supported subset but whose Coq TYPE is known (monadic functions of the polyhedra.py generators):
# they are emitted as the typed stub `raise (Escape "TRANSLATOR-UNSUPPORTED")`, so the generated FILE still compiles and only the
# obligations about that function (and about its callers) stop checking, instead of every obligation importing the file.  A stub
# can make no obligation pass: each obligation states generated = hand model, and no hand model is that constant error.
FUNCTION_STUBS = []      # (output file, "Class.method", message)
CURRENT_OUTFILE = ["?"]  # the output file main() is generating (for the generators that do not name it themselves)


def function_stub(outfile, qualname, ex):
    FUNCTION_STUBS.append((outfile, qualname, str(ex)))
    return '  raise (Escape "TRANSLATOR-UNSUPPORTED")'


class Unsupported(Exception):
    pass



# ---- fallback normalisation: two spellings that some generators do not render directly are rewritten, ON A COPY of the function
# and ONLY after the direct translation was refused, into the equivalent statements they do render (Python semantics, exactly):
#     x = A if C else B        ->   if C: x = A  else: x = B
#     l = l + [e]              ->   l.append(e)          (l a plain local name; the generators accept append only on a list the
#                                                         function built itself and has not aliased, where the two coincide)
class _FallbackNormaliser(ast.NodeTransformer):
    def __init__(self):
        self.changed = False

    def visit_Assign(self, node):
        self.generic_visit(node)
        if len(node.targets) == 1 and isinstance(node.value, ast.IfExp):
            import copy as _copy
            def mk(v):
                return ast.copy_location(ast.Assign(targets=[_copy.deepcopy(node.targets[0])], value=v), node)
            self.changed = True
            return ast.fix_missing_locations(ast.copy_location(
                ast.If(test=node.value.test, body=[mk(node.value.body)], orelse=[mk(node.value.orelse)]), node))
        t, v = node.targets[0], node.value
        if len(node.targets) == 1 and isinstance(t, ast.Name) and isinstance(v, ast.BinOp) and isinstance(v.op, ast.Add) \
                and isinstance(v.left, ast.Name) and v.left.id == t.id and isinstance(v.right, ast.List) \
                and len(v.right.elts) == 1 and not isinstance(v.right.elts[0], ast.Starred):
            self.changed = True
            call = ast.Expr(value=ast.Call(func=ast.Attribute(value=ast.Name(id=t.id, ctx=ast.Load()), attr="append", ctx=ast.Load()),
                                           args=[v.right.elts[0]], keywords=[]))
            return ast.fix_missing_locations(ast.copy_location(call, node))
        return node


def fallback_normalise(fdef):
    """a normalised deep copy of the function, or None when there is nothing to normalise"""
    import copy as _copy
    f2 = _copy.deepcopy(fdef)
    n = _FallbackNormaliser()
    f2 = n.visit(f2)
    return ast.fix_missing_locations(f2) if n.changed else None


def with_fallback(fdef, attempt):
    """attempt(fdef) -> result; when it refuses the function, try once more on the normalised copy"""
    try:
        return attempt(fdef)
    except Unsupported:
        f2 = fallback_normalise(fdef)
        if f2 is None:
            raise
        return attempt(f2)

def fail(node, msg):
    line = getattr(node, "lineno", "?")
    raise Unsupported(f"line {line}: {msg}: {ast.dump(node)[:200] if isinstance(node, ast.AST) else node}")


# ---------------------------------------------------------------- types
# V var, LV list var, T term, LT python list of terms, TL TermList object, B bool,
# N nat, LN list nat, ST stats, LST list stats, C contract, O<x> optional, S string (messages only)
COQTY = {
    "V": "var", "LV": "list var", "T": "term", "LT": "list term", "TL": "list term", "B": "bool",
    "N": "nat", "LN": "list nat", "ST": "stats", "LST": "list stats", "C": "contract",
    "OLV": "option (list var)", "OLN": "option (list nat)", "OLT": "option (list term)",
    "OTL": "option (list term)", "LA": "list A",
}

ANNOT = {
    "IoContract_t": "C", "TermList_t": "TL", "TermList": "TL", "List[Var]": "LV", "Var": "V", "bool": "B",
    "Optional[List[int]]": "OLN", "Optional[List[Var]]": "OLV", "Optional[List]": "OLT",
    "Optional[TermList_t]": "OTL", "List[Any]": "LA", "List[int]": "LN", "List[TacticStatistics]": "LST",
}
ANY_BY_NAME = {"vars_to_keep": "OLV"}

ERRKIND = {"IncompatibleArgsError": "IncompatibleArgs", "ValueError": "ValueErr"}

# methods of IoContract: name -> (monadic?, return type)
C_METHODS = {
    "__init__": (True, "C"), "simplify": (True, "C"), "vars": (False, "LV"), "__eq__": (False, "B"),
    "__hash__": (False, "KEY"), "rename_variable": (True, "C"), "copy": (True, "C"), "__le__": (True, "B"),
    "can_compose_with": (False, "B"), "can_quotient_by": (False, "B"), "shares_io_with": (False, "B"),
    "refines": (True, "B"), "compose": (True, "C"), "compose_tactics": (True, "C*LST"),
    "quotient": (True, "C"), "quotient_tactics": (True, "C*LST"), "merge": (True, "C"),
    "contains_environment": (True, "B"), "contains_implementation": (True, "B"),
}
C_SKIP = {"__str__", "__repr__"}
# concrete methods of TermList
TL_METHODS = {
    "__init__": (False, "TL"), "vars": (False, "LV"), "__eq__": (False, "B"),
    "get_terms_with_vars": (False, "TL"), "__and__": (False, "TL"), "__or__": (False, "TL"),
    "__sub__": (False, "TL"), "__le__": (True, "B"), "copy": (False, "TL"), "rename_variable": (False, "TL"),
}
TL_SKIP = {"__str__"}
TL_ABSTRACT = {"__hash__", "contains_behavior", "elim_vars_by_refining", "elim_vars_by_relaxing", "simplify",
               "refines", "is_empty"}
OPNAME = {"__init__": "init", "__eq__": "eq", "__hash__": "hash_key", "__le__": "le", "__and__": "and",
          "__or__": "or", "__sub__": "sub"}

LIST_FUNS = {"list_union", "list_diff", "list_intersection"}


def coqname(cls, meth):
    return f"{cls}_{OPNAME.get(meth, meth)}"


# ---------------------------------------------------------------- message safety
MSG_CALLS = {"str", "set", "list", "list_diff", "list_union", "list_intersection", "format"}


def check_message_total(node):
    """The argument of an exception constructor must be built from total operations only."""
    for n in ast.walk(node):
        if isinstance(n, ast.Call):
            f = n.func
            if isinstance(f, ast.Name) and f.id in MSG_CALLS:
                continue
            if isinstance(f, ast.Attribute) and f.attr in {"format", "get_terms_with_vars"}:
                continue
            fail(n, "call in exception message not known to be total")
        elif isinstance(n, (ast.Name, ast.Attribute, ast.Constant, ast.BinOp, ast.Tuple, ast.ListComp, ast.comprehension,
                            ast.Load, ast.Store, ast.Mod, ast.Add, ast.BitOr, ast.JoinedStr, ast.FormattedValue,
                            ast.List)):
            continue
        else:
            fail(n, "construct in exception message not known to be total")


# ---------------------------------------------------------------- the translator
class Fn:
    """Translate one function body."""

    def __init__(self, cls: Optional[str], fdef: ast.FunctionDef, monadic: bool, rtype: str, assumptions: List[str]):
        self.cls = cls
        self.f = fdef
        self.monadic = monadic
        self.rtype = rtype
        self.tmp = 0
        self.assumptions = assumptions
        self.selfty = {"IoContract": "C", "TermList": "TL", None: None}[cls]
        self.fields: Dict[str, str] = {}  # for __init__ / mutating methods: field -> local name
        self.overrides: Dict[str, Tuple[str, list]] = {}  # self.m(...) resolved to a subclass override (gen_wrap)

    # ---- helpers
    def fresh(self, base="t"):
        self.tmp += 1
        return f"{base}_{self.tmp}"

    def param_types(self):
        params = []
        args = self.f.args
        defaults = [None] * (len(args.args) - len(args.defaults)) + list(args.defaults)
        for a, d in zip(args.args, defaults):
            if a.arg == "self":
                params.append(("self", self.selfty, None))
                continue
            if a.annotation is None:
                fail(a, "parameter without annotation")
            ann = ast.unparse(a.annotation)
            if ann == "Any":
                ty = ANY_BY_NAME.get(a.arg) or fail(a, "Any-typed parameter not in table")
            elif ann == "object":
                ty = self.selfty
            elif ann in ANNOT:
                ty = ANNOT[ann]
            else:
                fail(a, f"unknown annotation {ann}")
            params.append((a.arg, ty, d))
        return params

    # ---- expressions: returns (prebinds [(pattern, monadic expr)], coq expr, type)
    def tx(self, e, env) -> Tuple[List[Tuple[str, str]], str, str]:
        if isinstance(e, ast.Name):
            if e.id not in env:
                fail(e, "unbound name")
            return [], e.id, env[e.id]
        if isinstance(e, ast.Constant):
            if e.value is True:
                return [], "true", "B"
            if e.value is False:
                return [], "false", "B"
            if e.value is None:
                return [], "None", "NONE"
            if isinstance(e.value, int):
                return [], str(e.value), "N"
            fail(e, "constant")
        if isinstance(e, ast.List):
            if not e.elts:
                return [], "[]", "EMPTY"
            fail(e, "non-empty list literal")
        if isinstance(e, ast.Attribute):
            return self.tx_attr(e, env)
        if isinstance(e, ast.Call):
            return self.tx_call(e, env)
        if isinstance(e, ast.BinOp):
            return self.tx_binop(e, env)
        if isinstance(e, ast.UnaryOp) and isinstance(e.op, ast.Not):
            p, c, t = self.tx(e.operand, env)
            return p, f"(negb {self.truth(c, t, e)})", "B"
        if isinstance(e, ast.BoolOp):
            parts = [self.tx(v, env) for v in e.values]
            # short-circuit evaluation only matters for effects; operands after the first must be pure
            for p, _, _ in parts[1:]:
                if p:
                    fail(e, "effectful operand after the first in and/or")
            op = "&&" if isinstance(e.op, ast.And) else "||"
            cs = [self.truth(c, t, e) for _, c, t in parts]
            return parts[0][0], "(" + f" {op} ".join(cs) + ")", "B"
        if isinstance(e, ast.Compare):
            return self.tx_compare(e, env)
        if isinstance(e, ast.ListComp):
            return self.tx_listcomp(e, env)
        if isinstance(e, ast.Tuple):
            parts = [self.tx(v, env) for v in e.elts]
            pre = [b for p, _, _ in parts for b in p]
            return pre, "(" + ", ".join(c for _, c, _ in parts) + ")", "*".join(t for _, _, t in parts)
        fail(e, "expression form")

    def truth(self, c, t, node):
        if t == "B":
            return c
        if t in {"LV", "LT", "LN", "LA", "LST"}:
            return f"(nonempty {c})"
        if t in {"OLT", "OLV"}:
            return f"(opt_nonempty {c})"
        fail(node, f"truthiness of type {t}")

    def tx_attr(self, e, env):
        a = e.attr
        if isinstance(e.value, ast.Name) and e.value.id == "self" and a in self.fields:
            return [], self.fields[a], {"a": "TL", "g": "TL", "inputvars": "LV", "outputvars": "LV", "terms": "LT"}[a]
        p, c, t = self.tx(e.value, env)
        if t == "C":
            if a in {"a", "g"}:
                return p, f"(c_{a} {c})", "TL"
            if a in {"inputvars", "outputvars"}:
                return p, f"(c_{a} {c})", "LV"
            if a == "vars":
                return p, f"(IoContract_vars {c})", "LV"
        if t == "TL":
            if a == "terms":
                return p, c, "LT"
            if a == "vars":
                return p, f"(TermList_vars {c})", "LV"
        if t == "T" and a == "vars":
            return p, f"(term_vars {c})", "LV"
        fail(e, f"attribute {a} of type {t}")

    def coerce_opt(self, c, t, want):
        """argument passing into an optional-typed parameter"""
        if want.startswith("O") and t == "NONE":
            return "None"
        if want.startswith("O") and t == want:
            return c
        if want.startswith("O") and (t == want[1:] or t == "EMPTY"):
            return f"(Some {c})"
        return c

    def tx_call(self, e, env):
        f = e.func
        args = e.args
        kws = {k.arg: k.value for k in e.keywords}
        # plain functions
        if isinstance(f, ast.Name):
            if f.id in LIST_FUNS or f.id == "lists_equal":
                (p1, c1, t1), (p2, c2, t2) = self.tx(args[0], env), self.tx(args[1], env)
                ty = t1 if t1 not in {"EMPTY"} else t2
                if f.id == "lists_equal":
                    return p1 + p2, f"(lists_equal {c1} {c2})", "B"
                return p1 + p2, f"({f.id} {c1} {c2})", ty
            if f.id == "len":
                p, c, t = self.tx(args[0], env)
                return p, f"(len {c})", "N"
            if f.id in {"tuple", "hash"}:
                return self.tx(args[0], env)
            if f.id == "bool" and len(args) == 1 and not kws:
                # bool(l) of a list is len(l) > 0 (rendered like that spelling); bool(b) of a bool is b
                p, c, t = self.tx(args[0], env)
                if t == "B":
                    return p, c, "B"
                if t in {"LV", "LT", "LN", "LA", "LST"}:
                    return p, f"(Nat.ltb 0 (len {c}))", "B"
                fail(e, f"bool() of a value of type {t}")
            if f.id == "isinstance":
                fail(e, "isinstance outside the dropped guard idiom")
            fail(e, f"call to {f.id}")
        if not isinstance(f, ast.Attribute):
            # type(self)(...)
            if (isinstance(f, ast.Call) and isinstance(f.func, ast.Name) and f.func.id == "type"
                    and len(f.args) == 1):
                _, _, t = self.tx(f.args[0], env)
                parts = [self.tx(a, env) for a in args]
                pre = [b for p, _, _ in parts for b in p]
                if t == "TL" or (self.cls == "TermList" and t == "TL"):
                    return pre, f"(TermList_init {self.coerce_opt(parts[0][1], parts[0][2], 'OLT')})", "TL"
                if t == "C":
                    if len(parts) != 4 or kws:
                        fail(e, "constructor call shape")
                    tmp = self.fresh("c")
                    call = "IoContract_init " + " ".join(c for _, c, _ in parts) + " true"
                    return pre + [(tmp, call)], tmp, "C"
            fail(e, "call form")
        # copy.deepcopy(x)
        if isinstance(f.value, ast.Name) and f.value.id == "copy" and f.attr == "deepcopy":
            self.assumptions.append("copy.deepcopy(x) is x in the value model")
            return self.tx(args[0], env)
        if isinstance(f.value, ast.Name) and f.value.id == "logging":
            fail(e, "logging call in expression position")
        # method calls
        p0, c0, t0 = self.tx(f.value, env)
        m = f.attr
        parts = [self.tx(a, env) for a in args]
        pre = p0 + [b for p, _, _ in parts for b in p]
        cs = [c for _, c, _ in parts]
        if m == "copy" and t0 in {"LV", "LT", "LN"} and not args:
            return pre, c0, t0
        if m == "copy" and t0 in {"OLT", "OLV"} and not args:
            return pre, f"(opt_list {c0})", t0[1:]
        if m == "copy" and t0 == "T" and not args:
            return pre, c0, "T"
        if t0 == "T" and m == "rename_variable":
            return pre, f"(term_rename {c0} {cs[0]} {cs[1]})", "T"
        if t0 == "TL":
            if m in {"elim_vars_by_refining", "elim_vars_by_relaxing"}:
                names = ["context", "vars_to_elim", "simplify", "tactics_order"]
                full = list(cs)
                for n in names[len(cs):]:
                    if n not in kws:
                        fail(e, f"missing argument {n}")
                    pk, ck, _ = self.tx(kws[n], env)
                    pre += pk
                    full.append(ck)
                prim = "p_elim_refine" if m == "elim_vars_by_refining" else "p_elim_relax"
                tmp = self.fresh("r")
                return pre + [(tmp, f"{prim} {c0} " + " ".join(full))], tmp, "TL*ST"
            if m == "simplify":
                tmp = self.fresh("s")
                arg = f"(Some {cs[0]})" if cs else "None"
                return pre + [(tmp, f"p_simplify {c0} {arg}")], tmp, "TL"
            if m == "refines":
                tmp = self.fresh("b")
                return pre + [(tmp, f"p_refines {c0} {cs[0]}")], tmp, "B"
            if m == "is_empty":
                tmp = self.fresh("b")
                return pre + [(tmp, f"p_is_empty {c0}")], tmp, "B"
            if m in TL_METHODS:
                mon, rty = TL_METHODS[m]
                call = f"{coqname('TermList', m)} {c0} " + " ".join(cs)
                if mon:
                    tmp = self.fresh("v")
                    return pre + [(tmp, call)], tmp, rty
                return pre, f"({call.strip()})", rty
        if t0 == "C" and m in C_METHODS:
            mon, rty = C_METHODS[m]
            # fill defaults
            sig = METHOD_SIGS[("IoContract", m)]
            callee = coqname('IoContract', m)
            if m in self.overrides:
                if not (isinstance(f.value, ast.Name) and f.value.id == "self"):
                    fail(e, f"call of the overridden method {m} on an object other than self")
                callee, sig = self.overrides[m]
            full = []
            for i, (pn, pt, pd) in enumerate(sig[1:]):
                if i < len(parts):
                    full.append(self.coerce_opt(parts[i][1], parts[i][2], pt))
                elif pn in kws:
                    pk, ck, tk = self.tx(kws[pn], env)
                    pre += pk
                    full.append(self.coerce_opt(ck, tk, pt))
                elif pd is not None:
                    pk, ck, tk = self.tx(pd, {})
                    full.append(self.coerce_opt(ck, tk, pt))
                else:
                    fail(e, f"missing argument {pn}")
            call = f"{callee} {c0} " + " ".join(full)
            if mon:
                tmp = self.fresh("v")
                return pre + [(tmp, call)], tmp, rty
            return pre, f"({call.strip()})", rty
        fail(e, f"method {m} on type {t0}")

    def tx_binop(self, e, env):
        (p1, c1, t1), (p2, c2, t2) = self.tx(e.left, env), self.tx(e.right, env)
        if t1 == "TL" and t2 == "TL":
            op = {ast.BitOr: "or", ast.Sub: "sub", ast.BitAnd: "and"}.get(type(e.op))
            if op:
                return p1 + p2, f"(TermList_{op} {c1} {c2})", "TL"
        if t1 == "B" and t2 == "B" and isinstance(e.op, ast.BitAnd):
            return p1 + p2, f"({c1} && {c2})", "B"
        fail(e, f"binary operator on {t1},{t2}")

    def tx_compare(self, e, env):
        if len(e.ops) != 1:
            fail(e, "chained comparison")
        op = e.ops[0]
        # len(X) != len(set(X))  -- duplicate test through hashing/equality of Var
        l, r = e.left, e.comparators[0]
        if (isinstance(op, ast.NotEq) and isinstance(l, ast.Call) and isinstance(l.func, ast.Name) and l.func.id == "len"
                and isinstance(r, ast.Call) and isinstance(r.func, ast.Name) and r.func.id == "len"
                and isinstance(r.args[0], ast.Call) and isinstance(r.args[0].func, ast.Name)
                and r.args[0].func.id == "set" and ast.dump(r.args[0].args[0]) == ast.dump(l.args[0])):
            p, c, t = self.tx(l.args[0], env)
            if t != "LV":
                fail(e, "duplicate test on a non-variable list")
            return p, f"(has_dup {c})", "B"
        (p1, c1, t1), (p2, c2, t2) = self.tx(e.left, env), self.tx(e.comparators[0], env)
        pre = p1 + p2
        if isinstance(op, (ast.In, ast.NotIn)):
            r = f"(py_in {c1} {c2})"
            return pre, r if isinstance(op, ast.In) else f"(negb {r})", "B"
        if t1 == "N" and t2 == "N":
            r = {ast.Eq: f"(Nat.eqb {c1} {c2})", ast.NotEq: f"(negb (Nat.eqb {c1} {c2}))",
                 ast.Gt: f"(Nat.ltb {c2} {c1})", ast.Lt: f"(Nat.ltb {c1} {c2})",
                 ast.GtE: f"(Nat.leb {c2} {c1})", ast.LtE: f"(Nat.leb {c1} {c2})"}.get(type(op))
            if r:
                return pre, r, "B"
        if isinstance(op, (ast.Eq, ast.NotEq)):
            if t1 != t2:
                fail(e, f"== between {t1} and {t2}")
            if t1 == "TL":
                r = f"(TermList_eq {c1} {c2})"
            elif t1 in {"V", "LV", "LT", "T"}:
                r = f"(py_eqb {c1} {c2})"
            else:
                fail(e, f"== on type {t1}")
            return pre, r if isinstance(op, ast.Eq) else f"(negb {r})", "B"
        if isinstance(op, ast.LtE) and t1 == "TL" and t2 == "TL":
            tmp = self.fresh("b")
            return pre + [(tmp, f"TermList_le {c1} {c2}")], tmp, "B"
        if isinstance(op, (ast.Is, ast.IsNot)) and t2 == "NONE" and t1.startswith("O"):
            r = f"(is_none {c1})"
            return pre, r if isinstance(op, ast.Is) else f"(negb {r})", "B"
        fail(e, f"comparison on {t1},{t2}")

    def tx_listcomp(self, e, env):
        if len(e.generators) != 1:
            fail(e, "nested comprehension")
        g = e.generators[0]
        if not isinstance(g.target, ast.Name):
            fail(e, "comprehension target")
        pi, ci, ti = self.tx(g.iter, env)
        elty = {"LV": "V", "LT": "T", "LA": "A"}.get(ti) or fail(e, f"comprehension over {ti}")
        env2 = dict(env)
        env2[g.target.id] = elty
        src = ci
        for cond in g.ifs:
            pc, cc, tc = self.tx(cond, env2)
            if pc:
                fail(e, "effect in comprehension")
            src = f"(filter (fun {g.target.id} => {self.truth(cc, tc, cond)}) {src})"
        pe, ce, te = self.tx(e.elt, env2)
        if pe:
            fail(e, "effect in comprehension")
        if ce == g.target.id:
            return pi, src, ti
        rty = {"T": "LT", "V": "LV"}.get(te) or fail(e, f"comprehension of {te}")
        return pi, f"(map (fun {g.target.id} => {ce}) {src})", rty

    # ---- statements
    def ret(self, c):
        return f"ret {c}" if self.monadic else c

    def emit_binds(self, pre, body, ind):
        out = ""
        for pat, m in pre:
            if not self.monadic:
                fail(self.f, f"monadic operation `{m}` in a function declared pure")
            out += f"{ind}{pat} <- {m} ;;\n"
        return out + body

    def assigned(self, stmts) -> List[str]:
        out: List[str] = []

        def add(n):
            if n not in out:
                out.append(n)

        for s in stmts:
            if isinstance(s, ast.Assign):
                for t in s.targets:
                    elts = t.elts if isinstance(t, ast.Tuple) else [t]
                    for n in elts:
                        if isinstance(n, ast.Name):
                            if n.id != "_":
                                add(n.id)
                        elif isinstance(n, ast.Attribute) and isinstance(n.value, ast.Name) and n.value.id == "self":
                            add("self_" + n.attr)
                        elif isinstance(n, ast.Subscript) and isinstance(n.value, ast.Name):
                            add(n.value.id)
                        else:
                            fail(n, "assignment target")
            elif isinstance(s, ast.AugAssign):
                add(s.target.id)
            elif isinstance(s, ast.AnnAssign):
                if isinstance(s.target, ast.Name):
                    add(s.target.id)
                else:
                    add("self_" + s.target.attr)
            elif isinstance(s, ast.Expr) and isinstance(s.value, ast.Call) and isinstance(s.value.func, ast.Attribute) \
                    and s.value.func.attr in {"append", "remove"} and isinstance(s.value.func.value, ast.Name):
                add(s.value.func.value.id)
            elif isinstance(s, ast.If):
                for n in self.assigned(s.body) + self.assigned(s.orelse):
                    add(n)
            elif isinstance(s, ast.Try):
                for n in self.assigned(s.body) + [x for h in s.handlers for x in self.assigned(h.body)]:
                    add(n)
            elif isinstance(s, ast.For):
                for n in self.assigned(s.body):
                    add(n)
        return out

    def terminates(self, stmts) -> bool:
        if not stmts:
            return False
        s = stmts[-1]
        if isinstance(s, (ast.Raise, ast.Return)):
            return True
        if isinstance(s, ast.If):
            return bool(s.orelse) and self.terminates(s.body) and self.terminates(s.orelse)
        return False

    def is_dropped(self, s) -> bool:
        if isinstance(s, ast.Expr):
            v = s.value
            if isinstance(v, ast.Constant) and (v.value is Ellipsis or isinstance(v.value, str)):
                return True
            if isinstance(v, ast.Call) and isinstance(v.func, ast.Attribute) and isinstance(v.func.value, ast.Name) \
                    and v.func.value.id == "logging":
                for a in v.args:
                    check_message_total(a)
                return True
        # `if not isinstance(other, type(self)): raise ...`
        if isinstance(s, ast.If) and not s.orelse and len(s.body) == 1 and isinstance(s.body[0], ast.Raise):
            t = s.test
            if isinstance(t, ast.UnaryOp) and isinstance(t.op, ast.Not) and isinstance(t.operand, ast.Call) \
                    and isinstance(t.operand.func, ast.Name) and t.operand.func.id == "isinstance":
                self.assumptions.append(f"{self.cls}.{self.f.name}: isinstance guard dropped (typed model)")
                return True
        return False

    def block(self, stmts, env, ind, k: Optional[Callable[[dict, str], str]]) -> str:
        """Coq text for stmts followed by continuation k (None = end of function)."""
        if not stmts:
            if k is None:
                return self.end_of_function(env, ind)
            return k(env, ind)
        s, rest = stmts[0], stmts[1:]
        nxt = lambda env2, ind2: self.block(rest, env2, ind2, k)  # noqa: E731
        if self.is_dropped(s):
            return nxt(env, ind)
        if isinstance(s, ast.Return):
            if rest:
                fail(s, "return not in tail position")
            if k is not None:
                fail(s, "return inside a joined branch")
            pre, c, t = self.tx(s.value, env)
            return self.emit_binds(pre, f"{ind}{self.ret(c)}", ind)
        if isinstance(s, ast.Raise):
            return self.tr_raise(s, ind)
        if isinstance(s, ast.AnnAssign):
            if s.value is None:
                fail(s, "annotated assignment form")
            ann = ast.unparse(s.annotation)
            if ann not in ANNOT:
                fail(s, f"unknown annotation {ann}")
            fake = ast.Assign(targets=[s.target], value=s.value, lineno=s.lineno)
            return self.tr_assign(fake, env, ind, nxt, hint=ANNOT[ann])
        if isinstance(s, ast.Assign):
            return self.tr_assign(s, env, ind, nxt)
        if isinstance(s, ast.AugAssign):
            if not isinstance(s.target, ast.Name):
                fail(s, "augmented assignment target")
            fake = ast.Assign(targets=[ast.Name(id=s.target.id, ctx=ast.Store())],
                              value=ast.BinOp(left=ast.Name(id=s.target.id, ctx=ast.Load()), op=s.op, right=s.value),
                              lineno=s.lineno)
            return self.tr_assign(fake, env, ind, nxt)
        if isinstance(s, ast.Expr):
            v = s.value
            if isinstance(v, ast.Call) and isinstance(v.func, ast.Attribute) and isinstance(v.func.value, ast.Name):
                tgt, m = v.func.value.id, v.func.attr
                if tgt in env and m == "append" and len(v.args) == 1:
                    pre, c, t = self.tx(v.args[0], env)
                    want = {"LST": "ST", "LT": "T", "LV": "V"}.get(env[tgt])
                    if want is None or (t != want and not (want == "ST" and t == "ST")):
                        fail(s, f"append of {t} to {env[tgt]}")
                    return self.emit_binds(pre, f"{ind}let {tgt} := ({tgt} ++ [{c}])%list in\n" + nxt(env, ind), ind)
                if tgt in env and m == "remove" and len(v.args) == 1 and env[tgt] == "LV":
                    pre, c, t = self.tx(v.args[0], env)
                    self.assumptions.append("list.remove(x) is applied only where x is known to be in the list "
                                            "(guarded by `x in l`); remove_first is total")
                    return self.emit_binds(pre, f"{ind}let {tgt} := remove_first {c} {tgt} in\n" + nxt(env, ind), ind)
            fail(s, "expression statement")
        if isinstance(s, ast.If):
            return self.tr_if(s, rest, env, ind, k)
        if isinstance(s, ast.Try):
            return self.tr_try(s, rest, env, ind, k)
        if isinstance(s, ast.For):
            return self.tr_for(s, env, ind, nxt)
        fail(s, "statement form")

    def end_of_function(self, env, ind):
        # function without explicit return: __init__ or a mutating method
        if self.selfty == "C" and self.fields:
            get = lambda f: self.fields.get(f, f"(c_{f} self)")  # noqa: E731
            rec = (f"{{| c_a := {get('a')}; c_g := {get('g')}; c_inputvars := {get('inputvars')}; "
                   f"c_outputvars := {get('outputvars')} |}}")
            return f"{ind}{self.ret(rec)}"
        if self.selfty == "TL" and "terms" in self.fields:
            return f"{ind}{self.ret(self.fields['terms'])}"
        fail(self.f, "function falls off the end without building a value")

    def tr_raise(self, s, ind):
        exc = s.exc
        if isinstance(exc, ast.Call) and isinstance(exc.func, ast.Name):
            name = exc.func.id
            for a in exc.args:
                check_message_total(a)
        elif isinstance(exc, ast.Name):
            name = exc.id
        else:
            fail(s, "raise form")
        if name not in ERRKIND:
            fail(s, f"exception class {name}")
        if not self.monadic:
            fail(s, "raise in a function declared pure")
        return f"{ind}raise {ERRKIND[name]}"

    def tr_assign(self, s, env, ind, nxt, hint=None):
        if len(s.targets) != 1:
            fail(s, "multiple assignment targets")
        tgt = s.targets[0]
        # x is None idiom handled in tr_if; here plain forms
        pre, c, t = self.tx(s.value, env)
        env2 = dict(env)
        if isinstance(tgt, ast.Name):
            if t == "EMPTY":
                # type from annotation-less empty list: infer from previous binding or by later use
                t = hint or env.get(tgt.id, EMPTY_HINT.get(tgt.id)) or fail(s, "type of empty list literal")
            elif hint and hint != t:
                fail(s, f"annotation {hint} vs inferred {t}")
            env2[tgt.id] = t
            # direct bind when the value is exactly the last prebind
            if pre and pre[-1][0] == c:
                pat, m = pre[-1]
                body = f"{ind}{tgt.id} <- {m} ;;\n" + nxt(env2, ind)
                return self.emit_binds(pre[:-1], body, ind)
            return self.emit_binds(pre, f"{ind}let {tgt.id} := {c} in\n" + nxt(env2, ind), ind)
        if isinstance(tgt, ast.Tuple) and all(isinstance(x, ast.Name) for x in tgt.elts):
            tys = t.split("*")
            if len(tys) != len(tgt.elts):
                fail(s, f"tuple arity vs type {t}")
            names = [x.id for x in tgt.elts]
            for n, ty in zip(names, tys):
                if n != "_":
                    env2[n] = ty
            pat = "'(" + ", ".join(names) + ")"
            if pre and pre[-1][0] == c:
                _, m = pre[-1]
                body = f"{ind}{pat} <- {m} ;;\n" + nxt(env2, ind)
                return self.emit_binds(pre[:-1], body, ind)
            return self.emit_binds(pre, f"{ind}let {pat} := {c} in\n" + nxt(env2, ind), ind)
        if isinstance(tgt, ast.Attribute) and isinstance(tgt.value, ast.Name) and tgt.value.id == "self":
            fld = tgt.attr
            local = "self_" + fld
            self.fields[fld] = local
            fty = {"a": "TL", "g": "TL", "inputvars": "LV", "outputvars": "LV", "terms": "LT"}.get(fld) \
                or fail(s, f"field {fld}")
            if t == "EMPTY":
                t = fty
            if t != fty:
                fail(s, f"field {fld} assigned a value of type {t}")
            env2[local] = fty
            if pre and pre[-1][0] == c:
                _, m = pre[-1]
                return self.emit_binds(pre[:-1], f"{ind}{local} <- {m} ;;\n" + nxt(env2, ind), ind)
            return self.emit_binds(pre, f"{ind}let {local} := {c} in\n" + nxt(env2, ind), ind)
        if isinstance(tgt, ast.Subscript):
            # l[l.index(x)] = y
            if (isinstance(tgt.value, ast.Name) and isinstance(tgt.slice, ast.Call)
                    and isinstance(tgt.slice.func, ast.Attribute) and tgt.slice.func.attr == "index"
                    and isinstance(tgt.slice.func.value, ast.Name) and tgt.slice.func.value.id == tgt.value.id
                    and env.get(tgt.value.id) == "LV"):
                px, cx, _ = self.tx(tgt.slice.args[0], env)
                l = tgt.value.id
                return self.emit_binds(pre + px, f"{ind}let {l} := replace_first {cx} {c} {l} in\n" + nxt(env, ind), ind)
        fail(s, "assignment target")

    def none_default_idiom(self, s, env):
        """`if X is None: X = E` / `if not X: X = E` on an optional parameter."""
        if s.orelse or len(s.body) != 1 or not isinstance(s.body[0], ast.Assign):
            return None
        a = s.body[0]
        if len(a.targets) != 1 or not isinstance(a.targets[0], ast.Name):
            return None
        x = a.targets[0].id
        if not env.get(x, "").startswith("O"):
            return None
        t = s.test
        inner = env[x][1:]
        if isinstance(t, ast.Compare) and isinstance(t.left, ast.Name) and t.left.id == x \
                and isinstance(t.ops[0], ast.Is) and isinstance(t.comparators[0], ast.Constant) \
                and t.comparators[0].value is None:
            _, c, _ = self.tx(a.value, {k: v for k, v in env.items() if k != x})
            return x, inner, f"match {x} with None => {c} | Some v_ => v_ end"
        if isinstance(t, ast.UnaryOp) and isinstance(t.op, ast.Not) and isinstance(t.operand, ast.Name) \
                and t.operand.id == x:
            _, c, _ = self.tx(a.value, {k: v for k, v in env.items() if k != x})
            return x, inner, f"match {x} with None => {c} | Some v_ => if nonempty v_ then v_ else {c} end"
        return None

    def tr_if(self, s, rest, env, ind, k):
        idiom = self.none_default_idiom(s, env)
        if idiom:
            x, inner, c = idiom
            env2 = dict(env)
            env2[x] = inner
            return f"{ind}let {x} := {c} in\n" + self.block(rest, env2, ind, k)
        pre, c, t = self.tx(s.test, env)
        cond = self.truth(c, t, s.test)
        tb, te = self.terminates(s.body), self.terminates(s.orelse)
        ind2 = ind + "  "
        cont = lambda env2, i2: self.block(rest, env2, i2, k)  # noqa: E731
        if tb and te:
            if rest:
                fail(s, "unreachable code after if")
            body = (f"{ind}if {cond} then\n" + self.block(s.body, env, ind2, None) + f"\n{ind}else\n"
                    + self.block(s.orelse, env, ind2, None))
            return self.emit_binds(pre, body, ind)
        if tb and not te:
            body = (f"{ind}if {cond} then\n" + self.block(s.body, env, ind2, None) + f"\n{ind}else\n"
                    + self.block(s.orelse, env, ind2, cont))
            return self.emit_binds(pre, body, ind)
        if te and not tb:
            body = (f"{ind}if {cond} then\n" + self.block(s.body, env, ind2, cont) + f"\n{ind}else\n"
                    + self.block(s.orelse, env, ind2, None))
            return self.emit_binds(pre, body, ind)
        # both fall through: join on the variables assigned in either branch
        return self.emit_binds(pre, self.join(f"if {cond} then", [s.body, s.orelse], ["else"], rest, env, ind, k), ind)

    def join(self, head, branches, seps, rest, env, ind, k, wrap=None):
        names = []
        for b in branches:
            for n in self.assigned(b):
                if n not in names:
                    names.append(n)
        # a joined variable must be defined on every fall-through path
        def defined_after(b, n):
            return n in env or n in self.definitely_assigned(b)
        jn = [n for n in names if all(self.terminates(b) or defined_after(b, n) for b in branches)]
        if not jn:
            fail(branches[0][0] if branches[0] else self.f, "join with no variables")
        tup = "(" + ", ".join(jn) + ")" if len(jn) > 1 else jn[0]
        pat = "'" + tup if len(jn) > 1 else jn[0]
        ind2 = ind + "    "
        envs = []

        def kk(env2, i2):
            envs.append(env2)
            return f"{i2}{self.ret(tup)}"

        texts = [self.block(b, env, ind2, kk) for b in branches]
        env3 = dict(env)
        for n in jn:
            tys = {e2[n] for e2 in envs if n in e2}
            if len(tys) != 1:
                fail(self.f, f"joined variable {n} has types {tys}")
            env3[n] = tys.pop()
        for n in jn:
            if n.startswith("self_"):
                self.fields[n[5:]] = n
        if wrap:
            expr = wrap(texts, ind)
        else:
            expr = f"{ind}  ({head}\n{texts[0]}"
            for sep, tx_ in zip(seps, texts[1:]):
                expr += f"\n{ind}   {sep}\n{tx_}"
            expr += ")"
        if self.monadic:
            return f"{ind}{pat} <-\n{expr} ;;\n" + self.block(rest, env3, ind, k)
        return f"{ind}let {pat} :=\n{expr} in\n" + self.block(rest, env3, ind, k)

    def definitely_assigned(self, stmts):
        out = set()
        for s in stmts:
            if isinstance(s, ast.If):
                if s.orelse:
                    a, b = self.definitely_assigned(s.body), self.definitely_assigned(s.orelse)
                    if self.terminates(s.body):
                        out |= b
                    elif self.terminates(s.orelse):
                        out |= a
                    else:
                        out |= a & b
            elif isinstance(s, ast.Try):
                a = self.definitely_assigned(s.body)
                for h in s.handlers:
                    a &= self.definitely_assigned(h.body)
                out |= a
            else:
                out |= set(self.assigned([s]))
        return out

    def tr_try(self, s, rest, env, ind, k):
        if s.orelse or s.finalbody or len(s.handlers) != 1:
            fail(s, "try form")
        h = s.handlers[0]
        if not (isinstance(h.type, ast.Name) and h.type.id == "ValueError" and h.name is None):
            fail(s, "except clause other than `except ValueError:`")
        # only the first statement of the body may raise
        for later in s.body[1:]:
            probe = Fn(self.cls, self.f, False, self.rtype, [])
            probe.fields = dict(self.fields)
            env_probe = dict(env)
            for n in self.assigned(s.body):
                env_probe.setdefault(n, env.get(n, "ST"))
            try:
                probe.block([later], self.env_after(s.body[:s.body.index(later)], env), "", lambda e, i: "")
            except Unsupported as ex:
                fail(later, f"statement after the first in a try body might raise ({ex})")

        def wrap(texts, ind_):
            return (f"{ind_}  (try_value_error\n{ind_}    (\n{texts[0]})\n{ind_}    (\n{texts[1]}))")

        return self.join(None, [s.body, h.body], [], rest, env, ind, k, wrap=wrap)

    def env_after(self, stmts, env):
        """types after executing stmts (best effort, used only for the purity probe)"""
        env2 = dict(env)
        try:
            self2 = Fn(self.cls, self.f, True, self.rtype, [])
            self2.fields = dict(self.fields)
            self2.tmp = 1000
            cap = {}

            def kk(e, i):
                cap.update(e)
                return ""

            self2.block(list(stmts), env2, "", kk)
            return cap or env2
        except Unsupported:
            return env2

    def tr_for(self, s, env, ind, nxt):
        if s.orelse or not isinstance(s.target, ast.Name):
            fail(s, "for form")
        pi, ci, ti = self.tx(s.iter, env)
        elty = {"LV": "V", "LT": "T", "LA": "A"}.get(ti) or fail(s, f"iteration over {ti}")
        accs = [n for n in self.assigned(s.body) if n in env]
        if not accs or set(self.assigned(s.body)) - set(accs):
            fail(s, "loop body assigns a variable not defined before the loop")
        tup = "(" + ", ".join(accs) + ")" if len(accs) > 1 else accs[0]
        pat = "'" + tup if len(accs) > 1 else accs[0]
        inner = Fn(self.cls, self.f, False, self.rtype, self.assumptions)
        inner.fields = dict(self.fields)
        inner.tmp = self.tmp + 100
        env2 = dict(env)
        env2[s.target.id] = elty
        body = inner.block(s.body, env2, ind + "      ", lambda e, i: f"{i}{tup}")
        txt = (f"{ind}let {pat} := fold_left (fun {pat if len(accs) == 1 else pat} {s.target.id} =>\n{body})\n"
               f"{ind}    {ci} {tup} in\n")
        return self.emit_binds(pi, txt + nxt(env, ind), ind)


EMPTY_HINT = {"tactics_used": "LST", "varlist": "LV", "terms": "LT", "vars_to_keep": "LV", "tactics_order": "LN",
              "additional_inputs": "LV"}
METHOD_SIGS: Dict[Tuple[str, str], list] = {}


def translate_function(cls, fdef, monadic, rtype, assumptions, implicit="", name=None, overrides=None) -> str:
    fn = Fn(cls, fdef, monadic, rtype, assumptions)
    fn.overrides = dict(overrides or {})
    params = fn.param_types()
    env = {n: t for n, t, _ in params}
    name = name or (coqname(cls, fdef.name) if cls else fdef.name)
    if cls == "IoContract" and fdef.name == "__init__":
        params = params[1:]
        env.pop("self")
    if cls == "TermList" and fdef.name == "__init__":
        params = params[1:]
        env.pop("self")
    def attempt(fd):
        fn2 = Fn(cls, fd, monadic, rtype, assumptions)
        fn2.overrides = dict(overrides or {})
        return fn2.block(list(fd.body), dict(env), "  ", None)
    try:
        body = with_fallback(fdef, attempt)
    except Unsupported as ex:
        if not monadic:
            raise
        body = function_stub(CURRENT_OUTFILE[0], f"{cls}.{fdef.name}" if cls else fdef.name, ex)
    sig = " ".join(f"({n} : {COQTY[t]})" for n, t, _ in params)
    rt = {"C": "contract", "B": "bool", "LV": "list var", "TL": "list term", "C*LST": "(contract * list stats)",
          "KEY": "(list var * list var * list term * list term)", "LA": "list A"}[rtype]
    rt = f"M {rt}" if monadic else rt
    return f"Definition {name} {implicit}{sig} : {rt} :=\n{body}.\n"


def strip_doc(fdef):
    if fdef.body and isinstance(fdef.body[0], ast.Expr) and isinstance(fdef.body[0].value, ast.Constant) \
            and isinstance(fdef.body[0].value.value, str):
        fdef.body = fdef.body[1:]
    return fdef


def class_def(mod, name):
    for n in mod.body:
        if isinstance(n, ast.ClassDef) and n.name == name:
            return n
    raise Unsupported(f"class {name} not found")


def methods(cdef):
    out = {}
    for n in cdef.body:
        if isinstance(n, ast.FunctionDef):
            out[n.name] = n
        elif isinstance(n, (ast.Expr, ast.Pass)):
            continue
        else:
            fail(n, f"class-level statement in {cdef.name}")
    return out


def is_abstract(f):
    return any(isinstance(d, ast.Name) and d.id == "abstractmethod" for d in f.decorator_list)


def norm_dump(node) -> str:
    node = ast.parse(ast.unparse(node))
    for n in ast.walk(node):
        if isinstance(n, (ast.FunctionDef, ast.ClassDef, ast.Module)):
            strip_doc(n)
    return ast.dump(node)


HEADER = """(* GENERATED by /verif/translator/py2coq.py from {src} — do not edit.
   source sha256: {sha} *)
From Coq Require Import List String Bool Arith ZArith.
Import ListNotations.
Require Import Py.
Open Scope py_scope.
"""


def gen_lists(src_path) -> str:
    src = open(src_path).read()
    mod = ast.parse(src)
    out = HEADER.format(src="src/pacti/utils/lists.py", sha=hashlib.sha256(src.encode()).hexdigest())
    out += "Set Implicit Arguments.\nSection Lists.\nContext {A : Type} `{PyEq A}.\n\n"
    seen = []
    for n in mod.body:
        if isinstance(n, ast.FunctionDef):
            strip_doc(n)
            seen.append(n.name)
            if len(n.body) != 1 or not isinstance(n.body[0], ast.Return):
                fail(n, "lists.py function is not a single return")
            fn = Fn(None, n, False, "LA", [])
            env = {a.arg: "LA" for a in n.args.args}
            e = n.body[0].value
            if n.name == "list_union":
                # list1 + [comprehension]
                if not (isinstance(e, ast.BinOp) and isinstance(e.op, ast.Add)):
                    fail(e, "list_union shape")
                (_, c1, _), (_, c2, _) = fn.tx(e.left, env), fn.tx(e.right, env)
                body, rt = f"({c1} ++ {c2})%list", "list A"
            elif n.name == "lists_equal":
                fn.rtype = "B"
                # inner calls are to the functions defined above in the same section
                _, body, _ = fn.tx(e, env)
                rt = "bool"
            else:
                _, body, _ = fn.tx(e, env)
                rt = "list A"
            sig = " ".join(f"({a.arg} : list A)" for a in n.args.args)
            out += f"Definition {n.name} {sig} : {rt} :=\n  {body}.\n\n"
        elif isinstance(n, (ast.Import, ast.ImportFrom, ast.Expr)):
            continue
        else:
            fail(n, "top-level statement in lists.py")
    if seen != ["list_intersection", "list_diff", "list_union", "lists_equal"]:
        raise Unsupported(f"lists.py defines {seen}")
    out += "End Lists.\n"
    return out


def gen_algebra(src_path, errors_path) -> Tuple[str, List[str]]:
    src = open(src_path).read()
    mod = ast.parse(src)
    assumptions: List[str] = []
    # --- exception hierarchy
    emod = ast.parse(open(errors_path).read())
    inc = class_def(emod, "IncompatibleArgsError")
    if [ast.unparse(b) for b in inc.bases] != ["ValueError"]:
        raise Unsupported("IncompatibleArgsError is expected to subclass ValueError (is_value_error in Py.v)")
    # --- imports used by the module must be the list functions we translate
    out = HEADER.format(src="src/pacti/iocontract/iocontract.py", sha=hashlib.sha256(src.encode()).hexdigest())
    out += "Require Import ListsGen.\n\nSection Algebra.\nContext `{Domain}.\n\n"
    # --- Var: hand-modelled as string; check the class still is what Py.v assumes
    var_c = class_def(mod, "Var")
    vm = methods(var_c)
    exp_eq = "def __eq__(self, other: object) -> bool:\n    if not isinstance(other, type(self)):\n        raise ValueError()\n    return self.name == other.name"
    exp_hash = "def __hash__(self) -> int:\n    return hash(self.name)"
    if ast.unparse(strip_doc(vm["__eq__"])) != exp_eq or ast.unparse(strip_doc(vm["__hash__"])) != exp_hash:
        raise Unsupported("Var.__eq__/__hash__ differ from the name-equality model in Py.v")
    # --- TermList
    tl_c = class_def(mod, "TermList")
    tm = methods(tl_c)
    for name, f in tm.items():
        strip_doc(f)
        if name in TL_SKIP:
            continue
        if is_abstract(f):
            if name not in TL_ABSTRACT:
                raise Unsupported(f"unexpected abstract TermList method {name}")
            continue
        if name not in TL_METHODS:
            raise Unsupported(f"unexpected concrete TermList method {name}")
    for name in TL_ABSTRACT:
        if name not in tm or not is_abstract(tm[name]):
            raise Unsupported(f"TermList.{name} is expected to be abstract (a Domain primitive)")
    for name in TL_METHODS:
        if name not in tm:
            raise Unsupported(f"TermList.{name} missing")
    order = ["__init__", "vars", "__eq__", "get_terms_with_vars", "copy", "__and__", "__or__", "__sub__", "__le__",
             "rename_variable"]
    for name in order:
        f = tm[name]
        f.decorator_list = [d for d in f.decorator_list if not (isinstance(d, ast.Name) and d.id == "property")]
        mon, rty = TL_METHODS[name]
        fn_params = Fn("TermList", f, mon, rty, assumptions).param_types()
        METHOD_SIGS[("TermList", name)] = fn_params
        out += translate_function("TermList", f, mon, rty, assumptions) + "\n"
    # --- contract record
    out += ("Record contract : Type := { c_a : list term; c_g : list term; c_inputvars : list var; "
            "c_outputvars : list var }.\n\n")
    io_c = class_def(mod, "IoContract")
    im = methods(io_c)
    for name, f in im.items():
        strip_doc(f)
        f.decorator_list = [d for d in f.decorator_list if not (isinstance(d, ast.Name) and d.id == "property")]
        if f.decorator_list:
            raise Unsupported(f"decorator on IoContract.{name}")
        if name in C_SKIP:
            continue
        if name not in C_METHODS:
            raise Unsupported(f"unexpected IoContract method {name}")
    for name in C_METHODS:
        if name not in im:
            raise Unsupported(f"IoContract.{name} missing")
    for name, f in im.items():
        if name in C_METHODS:
            mon, rty = C_METHODS[name]
            METHOD_SIGS[("IoContract", name)] = Fn("IoContract", f, mon, rty, assumptions).param_types()
    corder = ["__init__", "simplify", "vars", "__eq__", "__hash__", "rename_variable", "copy", "can_compose_with",
              "can_quotient_by", "shares_io_with", "refines", "__le__", "compose_tactics", "compose",
              "quotient_tactics", "quotient", "merge", "contains_environment", "contains_implementation"]
    assert set(corder) == set(C_METHODS)
    for name in corder:
        mon, rty = C_METHODS[name]
        out += translate_function("IoContract", im[name], mon, rty, assumptions) + "\n"
    out += "End Algebra.\n"
    return out, sorted(set(assumptions))


def gen_consts(poly_path, pc_path) -> str:
    """Module constants and wrapper defaults of the polyhedral instantiation."""
    out = "(* GENERATED by /verif/translator/py2coq.py — module constants *)\nFrom Coq Require Import List.\nImport ListNotations.\n"
    for label, path in (("polyhedra", poly_path), ("polyhedral_iocontract", pc_path)):
        mod = ast.parse(open(path).read())
        val = None
        for n in mod.body:
            if isinstance(n, ast.Assign) and len(n.targets) == 1 and isinstance(n.targets[0], ast.Name) \
                    and n.targets[0].id == "TACTICS_ORDER":
                val = ast.literal_eval(n.value)
        if not (isinstance(val, list) and all(isinstance(x, int) and 0 <= x < 100 for x in val)):
            raise Unsupported(f"TACTICS_ORDER in {label}")
        out += f"Definition TACTICS_ORDER_{label} : list nat := [{'; '.join(map(str, val))}].\n"
    # numeric module constants (a float literal is the exact rational it denotes)
    from fractions import Fraction
    import os as _os
    ser_path = _os.path.join(_os.path.dirname(poly_path), "serializer.py")
    wanted = [(poly_path, "REFINEMENT_TOLERANCE"), (ser_path, "float_closeness_relative_tolerance"),
              (ser_path, "float_closeness_absolute_tolerance")]
    out += "From Coq Require Import QArith.\n"
    for path, name in wanted:
        mod = ast.parse(open(path).read())
        val = None
        for n in mod.body:
            tgt = None
            if isinstance(n, ast.Assign) and len(n.targets) == 1 and isinstance(n.targets[0], ast.Name):
                tgt = n.targets[0].id
            elif isinstance(n, ast.AnnAssign) and isinstance(n.target, ast.Name) and n.value is not None:
                tgt = n.target.id
            if tgt == name:
                val = ast.literal_eval(n.value)
        if not isinstance(val, (int, float)) or isinstance(val, bool) or val != val or val in (float("inf"), float("-inf")):
            raise Unsupported(f"numeric module constant {name} in {path}")
        fr = Fraction(float(val))
        num = f"({fr.numerator})" if fr.numerator < 0 else str(fr.numerator)
        out += f"Definition {name} : Q := Qmake {num} {fr.denominator}.\n"
    return out


# ================================================================ PolyhedralTerm  (gen/TermGen.v)
# A second, self-contained generator for the pure methods of
# pacti.terms.polyhedra.polyhedra.PolyhedralTerm.  Target vocabulary: coq/base/PyDict.v (one named
# primitive per Python construct).  Differences with the algebra generator above:
# * dict / float values, for-loops (with break), dict comprehensions, in-place updates of local objects;
# * whether a method is monadic is INFERRED from its body (d[k], d.pop(k), `/`, raise, or a call to a
#   monadic method), so that a change which adds a raising construct to a pure method changes the
#   type of the generated function and breaks the proofs instead of the translator;
# * in-place updates (`obj.variables[k] = v`, `obj.variables.pop(k)`, `d[k] = v`, `l.append(x)`) are
#   rendered as rebinding of an immutable value.  That is sound only if no other name refers to the
#   updated object.  Checked syntactically: the updated name must be *owned*, i.e. its latest
#   assignment in the same function is `X.copy()`, `PolyhedralTerm(...)` (both build a new dict:
#   __init__ is itself translated and checked to store a dict literal it filled itself), `{}`, `[]`
#   or a dict comprehension, and it has not been copied to another name since.

PT_CLASS = "PolyhedralTerm"
PT_METHODS = ["__init__", "vars", "contains_var", "get_coefficient", "__eq__", "copy", "__add__", "get_polarity",
              "get_sign", "get_matching_vars", "remove_variable", "rename_variable", "multiply",
              "substitute_variable", "isolate_variable"]
PT_SKIP = ["__str__", "__hash__", "__repr__", "to_symbolic", "to_term", "term_to_polytope", "polytope_to_term",
           "solve_for_variables"]
PT_OPNAME = {"__init__": "init", "__eq__": "eq", "__add__": "add"}
PT_ANNOT = {"Dict[Var, numeric]": "D", "numeric": "F", "object": "T", "Var": "V", "bool": "B", "PolyhedralTerm": "T",
            "Dict[Var, bool]": "DB", "int": "F", "List[Var]": "LV", "float": "F"}
PT_COQTY = {"V": "var", "F": "Q", "B": "bool", "T": "pterm", "D": "pvars", "DB": "bdict", "LV": "list var",
            "KV": "list var"}
PT_VOCAB = {
    "qzero", "qadd", "qsub", "qmul", "qdiv", "qneg", "qabs", "qle", "qlt", "qge", "qgt", "q_eqb", "q_neb", "np_equal",
    "py_float", "py_div", "assoc", "has_key", "dict_set", "dict_pop", "keys", "dict_empty", "dict_keys", "py_list",
    "dict_get", "dict_pop_m", "keyview_eqb", "bdict", "bassoc", "bdict_keys", "bdict_get", "list_empty",
    "list_append", "set_variables", "ctl", "Continue", "Break", "for_list", "for_list_m", "for_items", "for_items_m",
    "dict_comp", "dict_comp_m", "ret", "raise", "bind", "py_in", "py_eqb", "negb", "eqb", "mkT", "tvars", "tconst",
    "pterm", "pvars", "var", "true", "false", "list_union", "list_diff", "list_intersection", "M", "Q", "bool", "list",
    "ValueErr", "Escape", "err", "inl", "inr", "fst", "snd", "pair", "nil", "cons", "app",
}
COQ_KEYWORDS = {"match", "end", "with", "fun", "let", "in", "if", "then", "else", "return", "fix", "cofix", "forall",
                "exists", "exists2", "as", "at", "using", "where", "for", "struct", "Type", "Set", "Prop", "SProp",
                "IF", "mod"}


class NeedMonad(Exception):
    """raised while translating in pure mode when a construct that may raise is met"""


def pt_cid(name: str) -> str:
    """Coq identifier for a Python local"""
    import re
    if re.match(r"^[a-z]_\d+$", name) or name.startswith(PT_CLASS + "_") or name.startswith("self_"):
        raise Unsupported(f"local name {name} collides with generated names")
    if name in COQ_KEYWORDS or name in PT_VOCAB:
        return name + "_"
    return name


def pt_name(meth: str) -> str:
    return f"{PT_CLASS}_{PT_OPNAME.get(meth, meth)}"


def qlit(v) -> str:
    from fractions import Fraction
    if isinstance(v, bool) or not isinstance(v, (int, float)) or v != v or v in (float("inf"), float("-inf")):
        raise Unsupported(f"numeric literal {v!r}")
    fr = Fraction(v)
    return f"({fr.numerator} # {fr.denominator})"


class Ctx:
    """what happens when a block falls off its end / breaks, and whether `return` is allowed"""

    def __init__(self, fall, brk=None, ret_ok=False):
        self.fall, self.brk, self.ret_ok = fall, brk, ret_ok


class TermFn:
    """Translate one method of PolyhedralTerm."""

    def __init__(self, fdef: ast.FunctionDef, sigs: dict, done: dict, assumptions: List[str]):
        self.f = fdef
        self.sigs = sigs          # method -> [(param, type, default ast)]  (without self), all methods
        self.done = done          # method -> (monadic?, return type) for the methods already generated
        self.assumptions = assumptions
        self.monadic = False
        self.tmp = 0
        self.fields: Dict[str, str] = {}
        self.rtype = None

    # ---------------------------------------------------------------- helpers
    def fresh(self, base="t"):
        self.tmp += 1
        return f"{base}_{self.tmp}"

    def ret(self, c):
        return f"ret {c}" if self.monadic else c

    def need_monad(self, what):
        if not self.monadic:
            raise NeedMonad(what)

    def emit_binds(self, pre, body, ind):
        out = ""
        for pat, m in pre:
            self.need_monad(m)
            out += f"{ind}{pat} <- {m} ;;\n"
        return out + body

    def sub(self, thunk):
        """translate a sub-block: pure if possible, otherwise monadic (only inside a monadic function).
        Returns (text, was_monadic)."""
        if not self.monadic:
            return thunk(), False
        saved_tmp, saved_ass = self.tmp, list(self.assumptions)
        self.monadic = False
        try:
            return thunk(), False
        except NeedMonad:
            self.tmp = saved_tmp
            self.assumptions[:] = saved_ass
            self.monadic = True
            return thunk(), True
        finally:
            self.monadic = True

    @staticmethod
    def owned(env):
        return env.get("%owned", frozenset())

    @staticmethod
    def with_owned(env, name, flag):
        env2 = dict(env)
        o = set(env.get("%owned", frozenset()))
        (o.add if flag else o.discard)(name)
        env2["%owned"] = frozenset(o)
        return env2

    # ---------------------------------------------------------------- expressions
    # returns (prebinds [(name, monadic expr)], coq expr, type, fresh?)
    def tx(self, e, env):
        p, c, t, _ = self.txf(e, env)
        return p, c, t

    def txf(self, e, env):
        if isinstance(e, ast.Name):
            if e.id not in env or e.id.startswith("%"):
                fail(e, "unbound name")
            return [], pt_cid(e.id), env[e.id], False
        if isinstance(e, ast.Constant):
            if e.value is True:
                return [], "true", "B", False
            if e.value is False:
                return [], "false", "B", False
            if isinstance(e.value, (int, float)):
                return [], qlit(e.value), "F", False
            fail(e, "constant")
        if isinstance(e, ast.Dict):
            if e.keys:
                fail(e, "non-empty dict literal")
            return [], "dict_empty", "D", True
        if isinstance(e, ast.List):
            if e.elts:
                fail(e, "non-empty list literal")
            return [], "list_empty", "LV", True
        if isinstance(e, ast.Attribute):
            p, c, t = self.tx(e.value, env)
            if t == "T" and isinstance(e.value, ast.Name) and e.value.id == "self" and self.f.name == "__init__":
                fail(e, "reading a field of self inside __init__")
            if t == "T" and e.attr == "variables":
                return p, f"(tvars {c})", "D", False
            if t == "T" and e.attr == "constant":
                return p, f"(tconst {c})", "F", False
            if t == "T" and e.attr == "vars":
                pp, cc, tt = self.call_method(e, "vars", c, [], {}, env)
                return p + pp, cc, tt, True
            fail(e, f"attribute {e.attr} of type {t}")
        if isinstance(e, ast.Subscript):
            if not isinstance(e.ctx, ast.Load):
                fail(e, "subscript context")
            (p1, c1, t1), (p2, c2, t2) = self.tx(e.value, env), self.tx(e.slice, env)
            if t2 != "V" or t1 not in {"D", "DB"}:
                fail(e, f"subscript {t1}[{t2}]")
            tmp = self.fresh()
            prim = "dict_get" if t1 == "D" else "bdict_get"
            return p1 + p2 + [(tmp, f"{prim} {c1} {c2}")], tmp, "F" if t1 == "D" else "B", False
        if isinstance(e, ast.Call):
            return self.tx_call(e, env)
        if isinstance(e, ast.BinOp):
            (p1, c1, t1), (p2, c2, t2) = self.tx(e.left, env), self.tx(e.right, env)
            if t1 == "F" and t2 == "F":
                op = {ast.Add: "qadd", ast.Sub: "qsub", ast.Mult: "qmul"}.get(type(e.op))
                if op:
                    return p1 + p2, f"({op} {c1} {c2})", "F", False
                if isinstance(e.op, ast.Div):
                    tmp = self.fresh()
                    return p1 + p2 + [(tmp, f"py_div {c1} {c2}")], tmp, "F", False
            if t1 == "T" and t2 == "T" and isinstance(e.op, ast.Add):
                pp, cc, tt = self.call_method(e, "__add__", c1, [(c2, t2)], {}, env)
                return p1 + p2 + pp, cc, tt, True
            fail(e, f"binary operator on {t1},{t2}")
        if isinstance(e, ast.UnaryOp):
            if isinstance(e.op, ast.USub) and isinstance(e.operand, ast.Constant) \
                    and isinstance(e.operand.value, (int, float)) and not isinstance(e.operand.value, bool):
                return [], qlit(-e.operand.value), "F", False
            p, c, t = self.tx(e.operand, env)
            if isinstance(e.op, ast.Not) and t == "B":
                return p, f"(negb {c})", "B", False
            if isinstance(e.op, ast.USub) and t == "F":
                return p, f"(qneg {c})", "F", False
            fail(e, f"unary operator on {t}")
        if isinstance(e, ast.BoolOp):
            return self.tx_boolop(e, env)
        if isinstance(e, ast.Compare):
            return self.tx_compare(e, env)
        if isinstance(e, ast.DictComp):
            return self.tx_dictcomp(e, env)
        fail(e, "expression form")

    def inline_m(self, pre, c):
        """one-line monadic expression: binds, then the value"""
        self.need_monad(c)
        if pre and pre[-1][0] == c:
            return "".join(f"{n} <- {m} ;; " for n, m in pre[:-1]) + pre[-1][1]
        return "".join(f"{n} <- {m} ;; " for n, m in pre) + f"ret {c}"

    def tx_boolop(self, e, env):
        parts = [self.tx(v, env) for v in e.values]
        for _, _, t in parts:
            if t != "B":
                fail(e, f"and/or on a value of type {t} (only bool operands are supported)")
        is_and = isinstance(e.op, ast.And)
        if not any(p for p, _, _ in parts[1:]):
            op = "&&" if is_and else "||"
            return parts[0][0], "(" + f" {op} ".join(c for _, c, _ in parts) + ")", "B", False
        # short circuit: operands after the first are evaluated only if needed
        pn, cn, _ = parts[-1]
        acc = self.inline_m(pn, cn)
        for p, c, _ in reversed(parts[1:-1]):
            inner = f"if {c} then ({acc}) else ret false" if is_and else f"if {c} then ret true else ({acc})"
            acc = "".join(f"{n} <- {m} ;; " for n, m in p) + inner
        p0, c0, _ = parts[0]
        tmp = self.fresh()
        expr = f"(if {c0} then ({acc}) else ret false)" if is_and else f"(if {c0} then ret true else ({acc}))"
        return p0 + [(tmp, expr)], tmp, "B", False

    def tx_compare(self, e, env):
        if len(e.ops) != 1:
            fail(e, "chained comparison")
        op = e.ops[0]
        (p1, c1, t1), (p2, c2, t2) = self.tx(e.left, env), self.tx(e.comparators[0], env)
        pre = p1 + p2
        neg = isinstance(op, (ast.NotIn, ast.NotEq))
        r = None
        if isinstance(op, (ast.In, ast.NotIn)):
            if t1 == "V" and t2 in {"LV", "KV"}:
                r = f"(py_in {c1} {c2})"
            elif t1 == "V" and t2 == "D":
                r = f"(has_key {c1} {c2})"
        elif isinstance(op, (ast.Eq, ast.NotEq)):
            if t1 == t2 == "V":
                r = f"(py_eqb {c1} {c2})"
            elif t1 == t2 == "F":
                return pre, f"({'q_neb' if neg else 'q_eqb'} {c1} {c2})", "B", False
            elif t1 == t2 == "B":
                r = f"(Bool.eqb {c1} {c2})"
            elif t1 == t2 == "KV":
                r = f"(keyview_eqb {c1} {c2})"
            elif t1 == t2 == "T":
                pp, cc, _ = self.call_method(e, "__eq__", c1, [(c2, t2)], {}, env)
                pre, r = pre + pp, cc
        elif t1 == t2 == "F":
            prim = {ast.GtE: "qge", ast.LtE: "qle", ast.Gt: "qgt", ast.Lt: "qlt"}.get(type(op))
            if prim:
                return pre, f"({prim} {c1} {c2})", "B", False
        if r is None:
            fail(e, f"comparison {type(op).__name__} on {t1},{t2}")
        return pre, f"(negb {r})" if neg else r, "B", False

    def tx_dictcomp(self, e, env):
        if len(e.generators) != 1:
            fail(e, "nested comprehension")
        g = e.generators[0]
        if g.is_async:
            fail(e, "async comprehension")
        src = self.items_source(g.iter, env) or fail(e, "dict comprehension over something else than d.items()")
        pi, ci = src
        if not (isinstance(g.target, ast.Tuple) and len(g.target.elts) == 2
                and all(isinstance(x, ast.Name) for x in g.target.elts)):
            fail(e, "comprehension target")
        kn, vn = (x.id for x in g.target.elts)
        env2 = dict(env)
        env2[kn], env2[vn] = "V", "F"
        lam = f"fun {pt_cid(kn)} {pt_cid(vn)} =>"
        conds = []
        for cond in g.ifs:
            pc, cc, tc = self.tx(cond, env2)
            if pc or tc != "B":
                fail(cond, "comprehension condition must be a bool expression that cannot raise")
            conds.append(cc)
        cond = " && ".join(conds) if conds else "true"
        pk, ck, tk = self.tx(e.key, env2)
        if pk or tk != "V":
            fail(e.key, "comprehension key must be a Var expression that cannot raise")
        pv, cv, tv = self.tx(e.value, env2)
        if tv != "F":
            fail(e.value, f"comprehension value of type {tv}")
        if pv:
            tmp = self.fresh("d")
            val = self.inline_m(pv, cv)
            return pi + [(tmp, f"dict_comp_m {ci} ({lam} {cond}) ({lam} {ck}) ({lam} {val})")], tmp, "D", True
        return pi, f"(dict_comp {ci} ({lam} {cond}) ({lam} {ck}) ({lam} {cv}))", "D", True

    def items_source(self, it, env):
        """`X.items()` with X a {Var: float} dict -> (prebinds, coq expr of the association list)"""
        if isinstance(it, ast.Call) and isinstance(it.func, ast.Attribute) and it.func.attr == "items" \
                and not it.args and not it.keywords:
            p, c, t = self.tx(it.func.value, env)
            if t == "D":
                return p, c
        return None

    def call_method(self, node, m, c0, args, kws, env):
        """call of method m on the term c0; args [(coq, type)], kws {name: (coq, type)}"""
        if m not in self.sigs:
            fail(node, f"method {m} of {PT_CLASS} is not among the translated methods")
        if m not in self.done:
            fail(node, f"call to {m}, which is not generated yet (recursion or a cycle between methods)")
        mon, rty = self.done[m]
        sig = self.sigs[m]
        if len(args) > len(sig) or set(kws) - {pn for pn, _, _ in sig}:
            fail(node, f"arguments of {m}")
        full = []
        for i, (pn, pt, pd) in enumerate(sig):
            if i < len(args):
                if pn in kws:
                    fail(node, f"argument {pn} given twice")
                c, t = args[i]
            elif pn in kws:
                c, t = kws[pn]
            elif pd is not None:
                pp, c, t = self.tx(pd, {})
                if pp:
                    fail(node, "default value")
            else:
                fail(node, f"missing argument {pn} of {m}")
            if t != pt:
                fail(node, f"argument {pn} of {m}: expected {pt}, got {t}")
            full.append(c)
        call = " ".join([pt_name(m), c0] + full) if m != "__init__" else " ".join([pt_name(m)] + full)
        if mon:
            tmp = self.fresh()
            return [(tmp, call)], tmp, rty
        return [], f"({call})", rty

    def tx_call(self, e, env):
        f = e.func
        if any(k.arg is None for k in e.keywords) or any(isinstance(a, ast.Starred) for a in e.args):
            fail(e, "*args / **kwargs")
        # evaluation order: positional arguments, then keyword arguments, left to right
        if isinstance(f, ast.Name):
            if f.id in env:
                fail(e, "call of a local")
            parts = [self.tx(a, env) for a in e.args]
            kparts = {k.arg: self.tx(k.value, env) for k in e.keywords}
            pre = [b for p, _, _ in parts for b in p] + [b for p, _, _ in kparts.values() for b in p]
            tys = [t for _, _, t in parts]
            if f.id == PT_CLASS:
                pp, cc, tt = self.call_method(e, "__init__", "", [(c, t) for _, c, t in parts],
                                              {k: (c, t) for k, (_, c, t) in kparts.items()}, env)
                return pre + pp, cc, tt, True
            if kparts:
                fail(e, f"keyword arguments in a call of {f.id}")
            if f.id == "float" and tys == ["F"]:
                return pre, f"(py_float {parts[0][1]})", "F", False
            if f.id == "list" and tys in (["KV"], ["LV"]):
                return pre, f"(py_list {parts[0][1]})", "LV", True
            if f.id in LIST_FUNS and tys == ["LV", "LV"]:
                return pre, f"({f.id} {parts[0][1]} {parts[1][1]})", "LV", True
            fail(e, f"call to {f.id} on {tys}")
        if not isinstance(f, ast.Attribute):
            fail(e, "call form")
        if isinstance(f.value, ast.Name) and f.value.id not in env:
            mod = f.value.id
            if mod == "np" and f.attr == "equal" and len(e.args) == 2 and not e.keywords:
                (p1, c1, t1), (p2, c2, t2) = self.tx(e.args[0], env), self.tx(e.args[1], env)
                if t1 == t2 == "F":
                    return p1 + p2, f"(np_equal {c1} {c2})", "B", False
            fail(e, f"call to {mod}.{f.attr}")
        p0, c0, t0 = self.tx(f.value, env)
        m = f.attr
        if t0 in {"D", "DB"} and m == "keys" and not e.args and not e.keywords:
            return p0, f"({'dict_keys' if t0 == 'D' else 'bdict_keys'} {c0})", "KV", False
        if t0 == "T":
            if m in {"__init__"} or m.startswith("__"):
                fail(e, f"explicit call of {m}")
            if m == "vars":
                fail(e, "vars is a property")
            parts = [self.tx(a, env) for a in e.args]
            kparts = {k.arg: self.tx(k.value, env) for k in e.keywords}
            pre = p0 + [b for p, _, _ in parts for b in p] + [b for p, _, _ in kparts.values() for b in p]
            pp, cc, tt = self.call_method(e, m, c0, [(c, t) for _, c, t in parts],
                                          {k: (c, t) for k, (_, c, t) in kparts.items()}, env)
            return pre + pp, cc, tt, True
        fail(e, f"method {m} on type {t0}")

    # ---------------------------------------------------------------- statements
    def is_dropped(self, s, env) -> bool:
        if isinstance(s, ast.Expr):
            v = s.value
            if isinstance(v, ast.Constant) and isinstance(v.value, str):
                return True
            if isinstance(v, ast.Call) and isinstance(v.func, ast.Attribute) and isinstance(v.func.value, ast.Name) \
                    and v.func.value.id == "logging" and v.func.attr == "debug" and "logging" not in env:
                for a in v.args:
                    check_message_total(a)
                if v.keywords:
                    fail(s, "keyword argument of logging.debug")
                return True
        # `if not isinstance(other, type(self)): raise ...` on a parameter the model types as a term
        if isinstance(s, ast.If) and not s.orelse and len(s.body) == 1 and isinstance(s.body[0], ast.Raise):
            t = s.test
            if isinstance(t, ast.UnaryOp) and isinstance(t.op, ast.Not) and isinstance(t.operand, ast.Call) \
                    and ast.unparse(t.operand.func) == "isinstance" and len(t.operand.args) == 2 \
                    and isinstance(t.operand.args[0], ast.Name) and env.get(t.operand.args[0].id) == "T" \
                    and ast.unparse(t.operand.args[1]) == "type(self)":
                self.assumptions.append(f"{PT_CLASS}.{self.f.name}: `isinstance({t.operand.args[0].id}, type(self))` "
                                        "guard dropped (the model is typed: the argument is a term)")
                return True
        return False

    def str_guard(self, s, env):
        """`if isinstance(x, str): raise ... else: S` with x a Var in the typed model -> S"""
        t = s.test
        if isinstance(t, ast.Call) and ast.unparse(t.func) == "isinstance" and len(t.args) == 2 \
                and isinstance(t.args[0], ast.Name) and env.get(t.args[0].id) == "V" \
                and ast.unparse(t.args[1]) == "str" and len(s.body) == 1 and isinstance(s.body[0], ast.Raise):
            self.assumptions.append(f"{PT_CLASS}.{self.f.name}: `isinstance({t.args[0].id}, str)` is False in the typed "
                                    "model (dict keys are Var); the raising branch is dropped")
            return list(s.orelse)
        return None

    def terminates(self, stmts) -> bool:
        if not stmts:
            return False
        s = stmts[-1]
        if isinstance(s, (ast.Raise, ast.Return, ast.Break)):
            return True
        if isinstance(s, ast.If):
            return bool(s.orelse) and self.terminates(s.body) and self.terminates(s.orelse)
        return False

    def assigned(self, stmts) -> List[str]:
        """local names (re)bound by the statements, in order of first occurrence"""
        out: List[str] = []

        def add(n):
            if n not in out:
                out.append(n)

        def target(n):
            if isinstance(n, ast.Name):
                add(n.id)
            elif isinstance(n, ast.Tuple):
                for x in n.elts:
                    target(x)
            elif isinstance(n, ast.Subscript):
                base = n.value
                if isinstance(base, ast.Attribute):
                    base = base.value
                if isinstance(base, ast.Name):
                    add(base.id)
                else:
                    fail(n, "assignment target")
            elif isinstance(n, ast.Attribute) and isinstance(n.value, ast.Name):
                add("self_" + n.attr if n.value.id == "self" else n.value.id)
            else:
                fail(n, "assignment target")

        for s in stmts:
            if isinstance(s, ast.Assign):
                for t in s.targets:
                    target(t)
            elif isinstance(s, (ast.AugAssign, ast.AnnAssign)):
                target(s.target)
            elif isinstance(s, ast.Expr) and isinstance(s.value, ast.Call) and isinstance(s.value.func, ast.Attribute):
                base = s.value.func.value
                if isinstance(base, ast.Attribute):
                    base = base.value
                if isinstance(base, ast.Name) and s.value.func.attr in {"append", "pop"}:
                    add(base.id)
            elif isinstance(s, ast.If):
                for n in self.assigned(s.body) + self.assigned(s.orelse):
                    add(n)
            elif isinstance(s, ast.For):
                # the loop variables are local to the loop in the model (a later use is an unbound name)
                for n in self.assigned(s.body):
                    add(n)
        return out

    def block(self, stmts, env, ind, ctx: Ctx) -> str:
        if not stmts:
            return ctx.fall(env, ind)
        s, rest = stmts[0], list(stmts[1:])
        if self.is_dropped(s, env):
            return self.block(rest, env, ind, ctx)
        if isinstance(s, ast.Return):
            if rest:
                fail(s, "statements after return")
            if not ctx.ret_ok:
                fail(s, "return inside a loop or inside an if whose branches are joined")
            if s.value is None:
                fail(s, "bare return")
            pre, c, t = self.tx(s.value, env)
            if t != self.rtype:
                fail(s, f"return of type {t} in a function declared {self.rtype}")
            if pre and pre[-1][0] == c:
                self.need_monad(c)
                return self.emit_binds(pre[:-1], f"{ind}{pre[-1][1]}", ind)
            return self.emit_binds(pre, f"{ind}{self.ret(c)}", ind)
        if isinstance(s, ast.Raise):
            if rest:
                fail(s, "statements after raise")
            return self.tr_raise(s, ind)
        if isinstance(s, ast.Break):
            if rest:
                fail(s, "statements after break")
            if ctx.brk is None:
                fail(s, "break outside a loop body (or inside joined branches)")
            return ctx.brk(env, ind)
        if isinstance(s, ast.Assign):
            return self.tr_assign(s, rest, env, ind, ctx)
        if isinstance(s, ast.AugAssign):
            return self.tr_augassign(s, rest, env, ind, ctx)
        if isinstance(s, ast.Expr):
            return self.tr_expr_stmt(s, rest, env, ind, ctx)
        if isinstance(s, ast.If):
            return self.tr_if(s, rest, env, ind, ctx)
        if isinstance(s, ast.For):
            return self.tr_for(s, rest, env, ind, ctx)
        fail(s, "statement form")

    def tr_raise(self, s, ind):
        exc = s.exc
        if s.cause is not None:
            fail(s, "raise ... from")
        if isinstance(exc, ast.Call) and isinstance(exc.func, ast.Name) and not exc.keywords:
            name = exc.func.id
            for a in exc.args:
                check_message_total(a)
        elif isinstance(exc, ast.Name):
            name = exc.id
        else:
            fail(s, "raise form")
        if name not in ERRKIND:
            fail(s, f"exception class {name}")
        self.need_monad("raise")
        return f"{ind}raise {ERRKIND[name]}"

    def bind_value(self, name, pre, c, ind):
        """text binding the Coq name to the value (pre, c)"""
        if pre and pre[-1][0] == c:
            return self.emit_binds(pre[:-1], "", ind) + self.emit_binds([(name, pre[-1][1])], "", ind)
        return self.emit_binds(pre, f"{ind}let {name} := {c} in\n", ind)

    def require_owned(self, node, name, env, what):
        if name not in self.owned(env):
            fail(node, f"in-place {what} of `{name}`, which is not known to be a fresh object of this function "
                       "(not obtained from .copy(), a constructor call, a literal or a comprehension)")

    def subscript_target(self, tgt, env):
        """`d[k]` with d a local dict, or `obj.variables[k]` with obj a local term.
        Returns (name, coq of the dict, rebuild: new dict -> coq of the new value of name, prebinds, coq key)."""
        pk, ck, tk = self.tx(tgt.slice, env)
        if tk != "V":
            fail(tgt, f"dict key of type {tk}")
        base = tgt.value
        if isinstance(base, ast.Name) and env.get(base.id) == "D":
            n = pt_cid(base.id)
            self.require_owned(tgt, base.id, env, "update")
            return base.id, n, (lambda d: d), pk, ck
        if isinstance(base, ast.Attribute) and base.attr == "variables" and isinstance(base.value, ast.Name) \
                and env.get(base.value.id) == "T":
            n = pt_cid(base.value.id)
            self.require_owned(tgt, base.value.id, env, "update")
            return base.value.id, f"(tvars {n})", (lambda d: f"set_variables {n} {d}"), pk, ck
        fail(tgt, "subscript assignment target")

    def tr_assign(self, s, rest, env, ind, ctx):
        if len(s.targets) != 1:
            fail(s, "multiple assignment targets")
        tgt = s.targets[0]
        if isinstance(tgt, ast.Name):
            if tgt.id == "self" or tgt.id.startswith("%"):
                fail(s, "assignment to self")
            pre, c, t, fresh = self.txf(s.value, env)
            env2 = dict(env)
            env2[tgt.id] = t
            env2 = self.with_owned(env2, tgt.id, fresh and t in {"T", "D", "LV"})
            if isinstance(s.value, ast.Name):
                # a second name for the same object: neither may be updated in place any more
                env2 = self.with_owned(env2, s.value.id, False)
            return self.bind_value(pt_cid(tgt.id), pre, c, ind) + self.block(rest, env2, ind, ctx)
        if isinstance(tgt, ast.Attribute) and isinstance(tgt.value, ast.Name) and tgt.value.id == "self":
            if self.f.name != "__init__":
                fail(s, "assignment to a field of self outside __init__")
            fld = tgt.attr
            fty = {"variables": "D", "constant": "F"}.get(fld) or fail(s, f"field {fld}")
            if fld in self.fields:
                fail(s, f"field {fld} assigned twice")
            pre, c, t = self.tx(s.value, env)
            if t != fty:
                fail(s, f"field {fld} assigned a value of type {t}")
            if fld == "variables":
                # the stored dict must be one this function built (so that the new object shares no
                # dict with the argument): that is what makes copy() and the constructor "fresh"
                if not (isinstance(s.value, ast.Name) and s.value.id in self.owned(env)):
                    fail(s, "self.variables must be assigned a dict built by __init__ itself")
            local = "self_" + fld
            self.fields[fld] = local
            env2 = dict(env)
            env2[local] = fty
            if isinstance(s.value, ast.Name):
                env2 = self.with_owned(env2, s.value.id, False)
            return self.bind_value(local, pre, c, ind) + self.block(rest, env2, ind, ctx)
        if isinstance(tgt, ast.Subscript):
            # Python evaluates the right-hand side first, then the container and the key
            pre, c, t = self.tx(s.value, env)
            if t != "F":
                fail(s, f"dict value of type {t}")
            name, cd, rebuild, pk, ck = self.subscript_target(tgt, env)
            new = rebuild(f"(dict_set {cd} {ck} {c})")
            return self.emit_binds(pre + pk, f"{ind}let {pt_cid(name)} := {new} in\n", ind) \
                + self.block(rest, env, ind, ctx)
        fail(s, "assignment target")

    def tr_augassign(self, s, rest, env, ind, ctx):
        tgt = s.target
        opn = {ast.Add: "qadd", ast.Sub: "qsub", ast.Mult: "qmul"}.get(type(s.op)) or fail(s, "augmented operator")
        if isinstance(tgt, ast.Subscript):
            # d[k] op= e : evaluates d, k, loads d[k] (KeyError if absent), then e, then stores
            name, cd, rebuild, pk, ck = self.subscript_target(tgt, env)
            old = self.fresh()
            pre, c, t = self.tx(s.value, env)
            if t != "F":
                fail(s, f"dict value of type {t}")
            new = rebuild(f"(dict_set {cd} {ck} ({opn} {old} {c}))")
            binds = pk + [(old, f"dict_get {cd} {ck}")] + pre
            return self.emit_binds(binds, f"{ind}let {pt_cid(name)} := {new} in\n", ind) \
                + self.block(rest, env, ind, ctx)
        if isinstance(tgt, ast.Name) and env.get(tgt.id) == "F":
            pre, c, t = self.tx(s.value, env)
            if t != "F":
                fail(s, f"augmented assignment with a value of type {t}")
            n = pt_cid(tgt.id)
            return self.emit_binds(pre, f"{ind}let {n} := ({opn} {n} {c}) in\n", ind) + self.block(rest, env, ind, ctx)
        fail(s, "augmented assignment target")

    def tr_expr_stmt(self, s, rest, env, ind, ctx):
        v = s.value
        if isinstance(v, ast.Call) and isinstance(v.func, ast.Attribute) and not v.keywords and len(v.args) == 1:
            m, base = v.func.attr, v.func.value
            if m == "append" and isinstance(base, ast.Name) and env.get(base.id) == "LV":
                self.require_owned(s, base.id, env, "append")
                pre, c, t = self.tx(v.args[0], env)
                if t != "V":
                    fail(s, f"append of {t} to a list of Var")
                n = pt_cid(base.id)
                return self.emit_binds(pre, f"{ind}let {n} := list_append {n} {c} in\n", ind) \
                    + self.block(rest, env, ind, ctx)
            if m == "pop":
                # d.pop(k) as a statement (the popped value is discarded)
                fake = ast.Subscript(value=base, slice=v.args[0], ctx=ast.Store())
                ast.copy_location(fake, s)
                name, cd, rebuild, pk, ck = self.subscript_target(fake, env)
                tmp = self.fresh("d")
                return self.emit_binds(pk + [(tmp, f"dict_pop_m {cd} {ck}")],
                                       f"{ind}let {pt_cid(name)} := {rebuild(tmp)} in\n", ind) \
                    + self.block(rest, env, ind, ctx)
        fail(s, "expression statement")

    def tr_if(self, s, rest, env, ind, ctx):
        repl = self.str_guard(s, env)
        if repl is not None:
            return self.block(repl + rest, env, ind, ctx)
        pre, c, t = self.tx(s.test, env)
        if t != "B":
            fail(s.test, f"truthiness of a value of type {t}")
        body, orelse = list(s.body), list(s.orelse)
        tb, te = self.terminates(body), self.terminates(orelse)
        ind2 = ind + "  "
        if (tb and te) and rest:
            fail(s, "unreachable code after if")
        if tb or te or not rest:
            # no join: whichever branch falls through continues with the rest
            then_txt = self.block(body + ([] if tb else rest), env, ind2, ctx)
            else_txt = self.block(orelse + ([] if te else rest), env, ind2, ctx)
            return self.emit_binds(pre, f"{ind}if {c} then\n{then_txt}\n{ind}else\n{else_txt}", ind)
        # both branches fall through and something follows: join on the variables they assign
        names = [n for n in self.assigned(body + orelse) if n in env]
        if not names or set(self.assigned(body + orelse)) - set(names):
            fail(s, "if-branches (re)bind a name that is not defined before the if")
        cn = [pt_cid(n) for n in names]
        tup = "(" + ", ".join(cn) + ")" if len(cn) > 1 else cn[0]
        pat = "'" + tup if len(cn) > 1 else cn[0]
        envs = []

        def thunk():
            del envs[:]

            def fall(env2, i2):
                envs.append(env2)
                return f"{i2}{self.ret(tup)}"

            jctx = Ctx(fall)
            ind3 = ind + "    "
            return (f"{ind}  (if {c} then\n" + self.block(body, env, ind3, jctx) + f"\n{ind}   else\n"
                    + self.block(orelse, env, ind3, jctx) + ")")

        txt, mon = self.sub(thunk)
        env3 = dict(env)
        for n in names:
            tys = {e2[n] for e2 in envs}
            if tys != {env[n]}:
                fail(s, f"joined variable {n} changes type: {tys}")
        own = self.owned(env)
        for e2 in envs:
            own = own & self.owned(e2)
        env3["%owned"] = own
        head = f"{ind}{pat} <-\n{txt} ;;\n" if mon else f"{ind}let {pat} :=\n{txt} in\n"
        return self.emit_binds(pre, head, ind) + self.block(rest, env3, ind, ctx)

    def tr_for(self, s, rest, env, ind, ctx):
        if s.orelse:
            fail(s, "for ... else")
        env2 = dict(env)
        src = self.items_source(s.iter, env)
        if src is not None:
            pi, ci = src
            if not (isinstance(s.target, ast.Tuple) and len(s.target.elts) == 2
                    and all(isinstance(x, ast.Name) for x in s.target.elts)):
                fail(s, "target of a loop over d.items()")
            kn, vn = (x.id for x in s.target.elts)
            env2[kn], env2[vn] = "V", "F"
            loopvars, prim = f"{pt_cid(kn)} {pt_cid(vn)}", "for_items"
            targets = [kn, vn]
        else:
            pi, ci, ti = self.tx(s.iter, env)
            if ti not in {"LV", "KV"} or not isinstance(s.target, ast.Name):
                fail(s, f"iteration over {ti}")
            env2[s.target.id] = "V"
            loopvars, prim = pt_cid(s.target.id), "for_list"
            targets = [s.target.id]
            # the iterated list must not be updated by the body
        body_assigned = [n for n in self.assigned(list(s.body))]
        if set(body_assigned) & set(targets):
            fail(s, "loop body rebinds the loop variable")
        for t_ in targets:
            if t_ in env:
                fail(s, f"loop variable {t_} shadows a local (it would stay bound after the loop)")
        for n in ast.walk(s.iter):
            if isinstance(n, ast.Name) and n.id in body_assigned:
                fail(s, "loop body updates the object it iterates over")
        accs = [n for n in body_assigned if n in env]
        if not accs or set(body_assigned) - set(accs):
            fail(s, "loop body binds a name that is not defined before the loop")
        cn = [pt_cid(n) for n in accs]
        tup = "(" + ", ".join(cn) + ")" if len(cn) > 1 else cn[0]
        pat = "'" + tup if len(cn) > 1 else cn[0]
        envs = []

        def thunk():
            del envs[:]

            def fall(e3, i3):
                envs.append(e3)
                return f"{i3}{self.ret(f'(Continue {tup})')}"

            def brk(e3, i3):
                envs.append(e3)
                return f"{i3}{self.ret(f'(Break {tup})')}"

            return self.block(list(s.body), env2, ind + "    ", Ctx(fall, brk))

        body, mon = self.sub(thunk)
        for n in accs:
            tys = {e3[n] for e3 in envs}
            if tys != {env[n]}:
                fail(s, f"loop variable {n} changes type: {tys}")
        env3 = dict(env)
        own = self.owned(env)
        for e3 in envs:
            own = own & self.owned(e3)
        env3["%owned"] = own
        call = f"{prim}{'_m' if mon else ''} {ci} {tup} (fun {pat} {loopvars} =>\n{body})"
        txt = f"{ind}{pat} <- {call} ;;\n" if mon else f"{ind}let {pat} := {call} in\n"
        return self.emit_binds(pi, txt, ind) + self.block(rest, env3, ind, ctx)

    # ---------------------------------------------------------------- whole function
    def end_of_function(self, env, ind):
        if self.f.name == "__init__":
            if set(self.fields) != {"variables", "constant"}:
                fail(self.f, f"__init__ assigns fields {sorted(self.fields)}")
            return f"{ind}{self.ret('(mkT self_variables self_constant)')}"
        fail(self.f, "function falls off the end (returns None)")

    def translate(self, params, rtype) -> Tuple[str, bool]:
        self.rtype = rtype
        env = {n: t for n, t, _ in params}
        env["%owned"] = frozenset()
        if self.f.name != "__init__":
            env["self"] = "T"

        def run():
            self.tmp = 0
            self.fields = {}
            return self.block(list(self.f.body), env, "  ", Ctx(self.end_of_function, None, True))

        saved = list(self.assumptions)
        self.monadic = False
        try:
            return run(), False
        except NeedMonad:
            self.assumptions[:] = saved
            self.monadic = True
            return run(), True


def pt_calls(fdef) -> List[str]:
    """names of methods/attributes used on any object in the body (over-approximation of the call graph)"""
    out = []
    for n in ast.walk(fdef):
        if isinstance(n, ast.Attribute):
            out.append(n.attr)
        elif isinstance(n, ast.Call) and isinstance(n.func, ast.Name) and n.func.id == PT_CLASS:
            out.append("__init__")
        elif isinstance(n, ast.BinOp) and isinstance(n.op, ast.Add):
            out.append("__add__")
        elif isinstance(n, ast.Compare) and any(isinstance(o, (ast.Eq, ast.NotEq)) for o in n.ops):
            out.append("__eq__")
    return out


def gen_term(poly_path) -> Tuple[str, List[str]]:
    src = open(poly_path).read()
    mod = ast.parse(src)
    assumptions: List[str] = []
    # --- what the module-level names used by the methods mean
    imported = {}
    for n in mod.body:
        if isinstance(n, ast.ImportFrom):
            for a in n.names:
                imported[a.asname or a.name] = f"{n.module}.{a.name}"
        elif isinstance(n, ast.Import):
            for a in n.names:
                imported[a.asname or a.name] = a.name
        elif isinstance(n, (ast.Assign, ast.AugAssign, ast.AnnAssign, ast.Delete)):
            for t in (n.targets if isinstance(n, (ast.Assign, ast.Delete)) else [n.target]):
                if PT_CLASS in ast.unparse(t) and not isinstance(t, ast.Name):
                    raise Unsupported(f"module-level statement touching {PT_CLASS}: {ast.unparse(n)[:80]}")
        elif isinstance(n, ast.Expr) and isinstance(n.value, ast.Call) and PT_CLASS in ast.unparse(n.value) \
                and "setattr" in ast.unparse(n.value):
            raise Unsupported(f"module-level setattr on {PT_CLASS}")
    for name, want in (("np", "numpy"), ("logging", "logging"), ("list_union", "pacti.utils.lists.list_union"),
                       ("list_diff", "pacti.utils.lists.list_diff"),
                       ("list_intersection", "pacti.utils.lists.list_intersection"), ("Var", "pacti.iocontract.Var"),
                       ("Term", "pacti.iocontract.Term")):
        if imported.get(name) != want:
            raise Unsupported(f"module-level name {name} is {imported.get(name)}, expected {want}")
    toplevel_defs = [n.name for n in mod.body if isinstance(n, (ast.FunctionDef, ast.ClassDef))]
    for name in ("np", "logging", "list_union", "list_diff", "list_intersection", "Var", "float", "list", "isinstance",
                 "str", "type"):
        if name in toplevel_defs or any(isinstance(n, ast.Assign) and any(isinstance(t, ast.Name) and t.id == name
                                                                          for t in n.targets) for n in mod.body):
            raise Unsupported(f"module-level redefinition of {name}")
    numeric = [n for n in mod.body if isinstance(n, ast.Assign) and len(n.targets) == 1
               and isinstance(n.targets[0], ast.Name) and n.targets[0].id == "numeric"]
    if len(numeric) != 1 or ast.unparse(numeric[0].value) != "Union[int, float]":
        raise Unsupported("`numeric` is expected to be Union[int, float]")
    if toplevel_defs.count(PT_CLASS) != 1:
        raise Unsupported(f"class {PT_CLASS} defined {toplevel_defs.count(PT_CLASS)} times")
    cdef = class_def(mod, PT_CLASS)
    if [ast.unparse(b) for b in cdef.bases] != ["Term"] or cdef.keywords or cdef.decorator_list:
        raise Unsupported(f"{PT_CLASS} is expected to be a plain subclass of Term")
    ms = {}
    for n in cdef.body:
        if isinstance(n, ast.FunctionDef):
            if n.name in ms:
                raise Unsupported(f"{PT_CLASS}.{n.name} defined twice")
            ms[n.name] = n
        elif isinstance(n, ast.Expr) and isinstance(n.value, ast.Constant) and isinstance(n.value.value, str):
            continue
        else:
            fail(n, f"class-level statement in {PT_CLASS}")
    for name in PT_METHODS:
        if name not in ms:
            raise Unsupported(f"{PT_CLASS}.{name} missing")
    for name, f in ms.items():
        decos = [ast.unparse(d) for d in f.decorator_list]
        if name in PT_SKIP:
            continue
        if name not in PT_METHODS:
            raise Unsupported(f"unexpected method {PT_CLASS}.{name} (neither translated nor in the skip list)")
        if decos != (["property"] if name == "vars" else []):
            raise Unsupported(f"decorators of {PT_CLASS}.{name}: {decos}")
        a = f.args
        if a.vararg or a.kwarg or a.kwonlyargs or a.posonlyargs or not a.args or a.args[0].arg != "self":
            raise Unsupported(f"signature of {PT_CLASS}.{name}")
        strip_doc(f)
    skipped = [m for m in PT_SKIP if m in ms]
    assumptions.append(f"{PT_CLASS}: methods NOT translated (string/hash/sympy/numpy helpers, hand-modelled or out of "
                       f"scope): {', '.join(sorted(skipped))}")
    assumptions.append(f"{PT_CLASS}: int and float are one numeric type (exact rationals); float(x) is the identity; "
                       "NaN/inf/rounding are not modelled")
    assumptions.append(f"{PT_CLASS}: in-place updates of objects obtained from .copy()/constructor/literal in the same "
                       "function are rendered as rebinding (checked: the updated name is owned and not aliased)")
    # --- signatures
    sigs, rtypes = {}, {}
    for name in PT_METHODS:
        f = ms[name]
        params = []
        a = f.args
        defaults = [None] * (len(a.args) - len(a.defaults)) + list(a.defaults)
        for arg, d in list(zip(a.args, defaults))[1:]:
            ann = ast.unparse(arg.annotation) if arg.annotation is not None else None
            if ann not in PT_ANNOT:
                fail(arg, f"annotation {ann} of parameter {arg.arg} of {name}")
            if d is not None and not (isinstance(d, ast.Constant) and isinstance(d.value, bool)):
                fail(arg, "default value")
            params.append((arg.arg, PT_ANNOT[ann], d))
        sigs[name] = params
        rann = ast.unparse(f.returns) if f.returns is not None else None
        if name == "__init__":
            if rann not in (None, "None"):
                fail(f, "return annotation of __init__")
            rtypes[name] = "T"
        else:
            if rann not in PT_ANNOT:
                fail(f, f"return annotation {rann} of {name}")
            rtypes[name] = PT_ANNOT[rann]
    # --- generation order: callees first (ties in the fixed order PT_METHODS); recursion is not supported
    deps = {m: [c for c in dict.fromkeys(pt_calls(ms[m])) if c in PT_METHODS and c != m] for m in PT_METHODS}
    for m in PT_METHODS:
        if m in [c for c in pt_calls(ms[m]) if c not in ("__eq__", "__add__")] and m != "vars":
            raise Unsupported(f"{PT_CLASS}.{m} refers to itself")
    order, left = [], list(PT_METHODS)
    while left:
        ready = [m for m in left if all(d in order for d in deps[m])]
        if not ready:
            raise Unsupported(f"cyclic references between methods {left}")
        order.append(ready[0])
        left.remove(ready[0])
    cls_src = ast.get_source_segment(src, cdef) or ""
    out = (f"(* GENERATED by /verif/translator/py2coq.py from src/pacti/terms/polyhedra/polyhedra.py, class {PT_CLASS}"
           " — do not edit.\n"
           f"   sha256 of the class source: {hashlib.sha256(cls_src.encode()).hexdigest()}\n"
           f"   translated: {', '.join(order)}\n"
           f"   NOT translated (skipped on purpose): {', '.join(sorted(skipped))}\n"
           "   vocabulary: base/PyDict.v.  Monadic (M _) exactly where the body contains d[k], d.pop(k), `/`, raise\n"
           "   or a call of a monadic method.  In-place updates of local objects are rebindings (see PyDict.v). *)\n"
           "From Coq Require Import List String Bool QArith.\nImport ListNotations.\n"
           "Require Import Py ListsGen Sem PyDict.\nOpen Scope py_scope.\nLocal Open Scope Q_scope.\n\n")
    done: Dict[str, Tuple[bool, str]] = {}
    for name in order:
        f = ms[name]
        fn = TermFn(f, sigs, done, assumptions)
        body, mon = fn.translate(sigs[name], rtypes[name])
        ps = ([] if name == "__init__" else [("self", "T")]) + [(n, t) for n, t, _ in sigs[name]]
        sig = " ".join(f"({pt_cid(n) if n != 'self' else n} : {PT_COQTY[t]})" for n, t in ps)
        rt = PT_COQTY[rtypes[name]]
        if " " in rt:
            rt = f"({rt})"
        pysig = ast.unparse(f).split("\n")[0 if name != "vars" else 1]
        out += f"(* {pysig} *)\nDefinition {pt_name(name)} {sig} : {'M ' + rt if mon else rt} :=\n{body}.\n\n"
        done[name] = (mon, rtypes[name])
    return out, sorted(set(assumptions))


STUB = """(* TRANSLATOR-UNSUPPORTED: the current source of this module is outside the translated subset:
   {msg}
   The line below does not compile on purpose: every obligation that depends on this file is reported as
   no longer checked (obligations that do not depend on it are unaffected). *)
Translator_unsupported_construct_in_the_source_see_comment_above.
"""


# ================================================================ NestedTermList / IoContractCompound / wrappers
# A third generator: gen/CompoundGen.v (pacti/iocontract/compundiocontract.py, classes NestedTermList and
# IoContractCompound over the abstract term-list primitives of base/PyLoop.v:TLDomain) and gen/WrapGen.v (the thin
# wrappers of pacti/contracts/polyhedral_iocontract.py:PolyhedralIoContract over the translated algebra).
# proofs/CompoundGenNested.v, CompoundGenContract.v and WrapGenFacts.v prove every generated function EQUAL to the
# hand model (model/Compound.v, model/PolyDomain.v).  Supported on top of the subset of the first generator:
# * for-loops (also over enumerate(...)) with break / continue / return at any nesting depth (for_list[_m] when the
#   body has no return, for_ret[_m] otherwise); names first bound inside a loop or a branch are local to it (a later
#   use is an unbound name: fail closed);
# * try: <one raising call> ; <statements that cannot raise>  except ValueError [as e]: <handler ending in
#   continue/break/return/raise>  ->  try_bind;
# * and/or and chained comparisons with short-circuit evaluation of raising operands; all()/any() over a generator;
#   list and set comprehensions with conditions; tuple indexing t[0]/t[1]; Var(x) and v.name in the name model;
# * super().m(...) and self.m(...) with the method resolution of the subclass (dynamic dispatch into overrides).

class TV:
    """type of an un-annotated empty list literal, fixed by its first typed use"""

    def __init__(self):
        self.t = None


def rt(t):
    return t.t if isinstance(t, TV) and t.t else t


N_COQTY = {
    "TL": "tlist", "LTL": "list tlist", "NTL": "list tlist", "B": "bool", "N": "nat", "V": "var", "LV": "list var",
    "BEH": "behavior_t", "K": "kcontract", "C": "contract", "S": "string", "LS": "list string",
    "OLS": "option (list string)", "SS": "(string * string)", "LSS": "list (string * string)",
    "OLV": "option (list var)", "OLN": "option (list nat)", "LN": "list nat", "SETS": "list string",
    "C*LST": "(contract * list stats)", "ONUM": "option num", "ONUM*ONUM": "(option num * option num)",
}
N_ELEM = {"LTL": "TL", "LV": "V", "LS": "S", "LSS": "SS", "LN": "N", "SETS": "S"}
N_LISTOF = {"TL": "LTL", "V": "LV", "S": "LS", "SS": "LSS", "N": "LN"}
N_VOCAB = {
    "tlist", "behavior_t", "tl_or", "tl_is_empty", "tl_le", "tl_simplify", "tl_contains_behavior", "tl_copy",
    "tl_vars", "kcontract", "kc_a", "kc_g", "kc_inputvars", "kc_outputvars", "contract", "c_a", "c_g", "c_inputvars",
    "c_outputvars", "Next", "Stop", "Return", "Done", "Returned", "for_ret", "for_ret_m", "for_list", "for_list_m",
    "Continue", "Break", "enumerate", "enumerate_from", "try_bind", "py_all", "py_any", "all_m", "any_m", "Var",
    "var_name", "var", "ret", "raise", "bind", "py_in", "py_eqb", "negb", "true", "false", "list_union", "list_diff",
    "list_intersection", "lists_equal", "has_dup", "nonempty", "len", "map", "filter", "fst", "snd", "tt", "unit",
    "M", "bool", "list", "nat", "string", "option", "Some", "None", "ValueErr", "IncompatibleArgs", "inl", "inr", "num",
    "stats", "term", "app", "nil", "cons", "is_none", "opt_list", "mmap", "step", "outcome", "ctl", "S", "O", "pair",
}
END_TRY = ast.Pass()     # marker: end of the statements of a try body (see NFn.tr_try)


def n_cid(name: str) -> str:
    import re
    if re.match(r"^[a-z]_\d+$", name) or name.endswith("_") \
            or name in {"self_nested_termlist", "self_a", "self_g", "self_inputvars", "self_outputvars"} \
            or name.startswith(("NestedTermList_", "IoContractCompound_", "PolyhedralIoContract_", "IoContract_",
                                "TermList_", "TACTICS_ORDER")):
        raise Unsupported(f"local name {name} collides with generated names")
    if name in COQ_KEYWORDS or name in N_VOCAB:
        return name + "_"
    return name


class NCtx:
    """what falling off the end / break / continue / return mean where a block is translated"""

    def __init__(self, fall, brk=None, cont=None, ret=None):
        self.fall, self.brk, self.cont, self.ret = fall, brk, cont, ret


class World:
    """the class being translated: how its objects, fields, methods and constructor are rendered"""

    def __init__(self, cls, selfty, annot):
        self.cls, self.selfty, self.annot = cls, selfty, annot
        self.fields = {}      # (type, attr) -> (format of the read, type)
        self.props = {}       # (type, attr) -> (format, type)            properties and pure attribute-like reads
        self.sigs = {}        # (type, method) -> (coq name, monadic, [(param, type, default)], return type)
        self.ctor = {}        # type -> (coq name, monadic, params, type)     type(self)(...)
        self.supers = {}      # method -> (coq name, monadic, params, return type)   super().m(...)
        self.consts = {}      # module constant -> (coq name, type)
        self.init_fields = []  # __init__: [(field, type)] in record order
        self.init_build = None  # format of the constructed value from the field locals


class NFn:
    """Translate one method."""

    def __init__(self, world: World, fdef: ast.FunctionDef, monadic: bool, rtype: str, assumptions: List[str]):
        self.w, self.f, self.monadic, self.rtype, self.assumptions = world, fdef, monadic, rtype, assumptions
        self.tmp = 0
        self.noraise = 0
        self.fields: Dict[str, str] = {}
        self.where = f"{world.cls}.{fdef.name}"

    # ---------------------------------------------------------------- helpers
    def fresh(self, base="t"):
        self.tmp += 1
        return f"{base}_{self.tmp}"

    def mret(self, c):
        return f"ret {c}" if self.monadic else c

    # in-place `l.append(x)` is rendered as rebinding, which is sound only if no other name refers to the list:
    # env["%owned"] = the local lists built by this function ([] / comprehension / list function / .copy()) that
    # have not been given a second name, stored in an object or passed to a call since
    @staticmethod
    def owned(env):
        return env.get("%owned", frozenset())

    @staticmethod
    def with_owned(env, name, flag):
        env2 = dict(env)
        o = set(env.get("%owned", frozenset()))
        (o.add if flag else o.discard)(name)
        env2["%owned"] = frozenset(o)
        return env2

    def escaped(self, env, node, keep=()):
        """env after evaluating node: names passed to a call / stored in a tuple are no longer exclusively owned"""
        out = env
        for n in ast.walk(node):
            args = []
            if isinstance(n, ast.Call):
                args = list(n.args) + [k.value for k in n.keywords]
            elif isinstance(n, (ast.Tuple, ast.List, ast.Return)):
                args = list(getattr(n, "elts", [])) + ([n.value] if isinstance(n, ast.Return) and n.value else [])
            for a in args:
                if isinstance(a, ast.Name) and a.id in self.owned(out) and a.id not in keep:
                    out = self.with_owned(out, a.id, False)
        return out

    def meet_owned(self, env, envs):
        own = self.owned(env)
        for e2 in envs:
            own = own & self.owned(e2)
        env2 = dict(env)
        env2["%owned"] = own
        return env2

    @staticmethod
    def is_fresh_list(value):
        if isinstance(value, ast.List) and not value.elts:
            return True
        if isinstance(value, ast.ListComp):
            return True
        if isinstance(value, ast.Call) and isinstance(value.func, ast.Name) and value.func.id in LIST_FUNS:
            return True
        return False

    def emit_binds(self, pre, body, ind):
        out = ""
        for pat, m in pre:
            if not self.monadic:
                fail(self.f, f"operation that may raise (`{m}`) in {self.where}, which is declared pure")
            if self.noraise:
                fail(self.f, f"operation that may raise (`{m}`) after the guarded call inside a try body")
            out += f"{ind}{pat} <- {m} ;;\n"
        return out + body

    def inline_m(self, pre, c):
        if not self.monadic:
            fail(self.f, f"operation that may raise in {self.where}, which is declared pure")
        if self.noraise and pre:
            fail(self.f, "operation that may raise after the guarded call inside a try body")
        if pre and pre[-1][0] == c:
            return "".join(f"{n} <- {m} ;; " for n, m in pre[:-1]) + pre[-1][1]
        return "".join(f"{n} <- {m} ;; " for n, m in pre) + f"ret {c}"

    def unify(self, t, want, node):
        """make the type t (possibly an open TV) equal to want"""
        if isinstance(t, TV) and t.t is None:
            if want not in N_ELEM:
                fail(node, f"empty list literal used at type {want}")
            t.t = want
            return True
        return rt(t) == want

    def coerce(self, c, t, want, node, what):
        t = rt(t)
        if isinstance(t, TV):
            if want.startswith("O") and want[1:] in N_ELEM:
                self.unify(t, want[1:], node)
                return f"(Some {c})"
            self.unify(t, want, node)
            return c
        if t == want or (t == "NTL" and want == "LTL") or (t == "LTL" and want == "NTL"):
            return c
        if want.startswith("O"):
            if t == "NONE":
                return "None"
            if t == want[1:]:
                return f"(Some {c})"
        if (t, want) in {("OLV", "OLS"), ("LV", "LS")}:
            self.assumptions.append(f"{self.where}: a list of Var is passed where a list of str is annotated; sound "
                                    "in the name model because Var(v) = Var(str(v)) = v")
            return c
        fail(node, f"{what}: expected {want}, got {t}")

    def truth(self, c, t, node):
        t = rt(t)
        if t == "B":
            return c
        if t in N_ELEM or t == "NTL":
            return f"(nonempty {c})"
        fail(node, f"truthiness of a value of type {t}")

    # ---------------------------------------------------------------- expressions
    def tx(self, e, env):
        if isinstance(e, ast.Name):
            if e.id in env and not e.id.startswith("%"):
                return [], n_cid(e.id), env[e.id]
            if e.id in self.w.consts:
                return [], self.w.consts[e.id][0], self.w.consts[e.id][1]
            fail(e, "unbound name")
        if isinstance(e, ast.Constant):
            if e.value is True:
                return [], "true", "B"
            if e.value is False:
                return [], "false", "B"
            if e.value is None:
                return [], "None", "NONE"
            if isinstance(e.value, int) and e.value >= 0:
                return [], str(e.value), "N"
            fail(e, "constant")
        if isinstance(e, ast.List):
            if e.elts:
                fail(e, "non-empty list literal")
            return [], "[]", TV()
        if isinstance(e, ast.Attribute):
            return self.tx_attr(e, env)
        if isinstance(e, ast.Subscript):
            p, c, t = self.tx(e.value, env)
            if rt(t) == "SS" and isinstance(e.slice, ast.Constant) and e.slice.value in (0, 1) \
                    and not isinstance(e.slice.value, bool):
                return p, f"({'fst' if e.slice.value == 0 else 'snd'} {c})", "S"
            fail(e, f"subscript on a value of type {rt(t)}")
        if isinstance(e, ast.Call):
            return self.tx_call(e, env)
        if isinstance(e, ast.BinOp):
            (p1, c1, t1), (p2, c2, t2) = self.tx(e.left, env), self.tx(e.right, env)
            t1, t2 = rt(t1), rt(t2)
            if t1 == t2 == "TL" and isinstance(e.op, ast.BitOr):
                return p1 + p2, f"(tl_or {c1} {c2})", "TL"
            if t1 == t2 == "N" and isinstance(e.op, ast.Add):
                return p1 + p2, f"({c1} + {c2})", "N"
            fail(e, f"binary operator on {t1},{t2}")
        if isinstance(e, ast.UnaryOp) and isinstance(e.op, ast.Not):
            p, c, t = self.tx(e.operand, env)
            return p, f"(negb {self.truth(c, t, e)})", "B"
        if isinstance(e, ast.BoolOp):
            parts = [self.tx(v, env) for v in e.values]
            return self.short_circuit(e, [(p, self.truth(c, t, e)) for p, c, t in parts], isinstance(e.op, ast.And))
        if isinstance(e, ast.Compare):
            return self.tx_compare(e, env)
        if isinstance(e, (ast.ListComp, ast.SetComp)):
            return self.tx_comp(e, env)
        if isinstance(e, ast.Tuple) and isinstance(e.ctx, ast.Load):
            parts = [self.tx(v, env) for v in e.elts]
            pre = [b for p, _, _ in parts for b in p]
            return pre, "(" + ", ".join(c for _, c, _ in parts) + ")", "*".join(rt(t) for _, _, t in parts)
        fail(e, "expression form")

    def short_circuit(self, node, parts, is_and):
        """parts: [(prebinds, bool coq expr)]; operands after the first are evaluated only if needed"""
        if not any(p for p, _ in parts[1:]):
            op = "&&" if is_and else "||"
            if len(parts) == 1:
                return parts[0][0], parts[0][1], "B"
            return parts[0][0], "(" + f" {op} ".join(c for _, c in parts) + ")", "B"
        pn, cn = parts[-1]
        acc = self.inline_m(pn, cn)
        for p, c in reversed(parts[1:-1]):
            inner = f"if {c} then ({acc}) else ret false" if is_and else f"if {c} then ret true else ({acc})"
            if self.noraise and p:
                fail(node, "operation that may raise after the guarded call inside a try body")
            acc = "".join(f"{n} <- {m} ;; " for n, m in p) + inner
        p0, c0 = parts[0]
        tmp = self.fresh("b")
        expr = f"(if {c0} then ({acc}) else ret false)" if is_and else f"(if {c0} then ret true else ({acc}))"
        return p0 + [(tmp, expr)], tmp, "B"

    def tx_attr(self, e, env):
        a = e.attr
        if isinstance(e.value, ast.Name) and e.value.id == "self" and self.f.name == "__init__":
            if a in self.fields:
                return [], self.fields[a], env[self.fields[a]]
            fail(e, "reading a field of self inside __init__ before it is assigned")
        p, c, t = self.tx(e.value, env)
        t = rt(t)
        for table in (self.w.fields, self.w.props):
            if (t, a) in table:
                fmt, ty = table[(t, a)]
                return p, fmt.format(c), ty
        fail(e, f"attribute {a} of type {t}")

    def pair_compare(self, node, op, c1, t1, c2, t2):
        t1, t2 = rt(t1), rt(t2)
        if isinstance(op, (ast.In, ast.NotIn)):
            if t2 in N_ELEM and N_ELEM[t2] == t1 and t1 in {"V", "S", "N"}:
                r = f"(py_in {c1} {c2})"
                return [], r if isinstance(op, ast.In) else f"(negb {r})"
            fail(node, f"`in` on {t1},{t2}")
        if t1 == t2 == "N":
            r = {ast.Eq: f"(Nat.eqb {c1} {c2})", ast.NotEq: f"(negb (Nat.eqb {c1} {c2}))",
                 ast.Gt: f"(Nat.ltb {c2} {c1})", ast.Lt: f"(Nat.ltb {c1} {c2})",
                 ast.GtE: f"(Nat.leb {c2} {c1})", ast.LtE: f"(Nat.leb {c1} {c2})"}.get(type(op))
            if r:
                return [], r
        if isinstance(op, (ast.Is, ast.IsNot)) and t2 == "NONE" and isinstance(t1, str) and t1.startswith("O"):
            r = f"(is_none {c1})"
            return [], r if isinstance(op, ast.Is) else f"(negb {r})"
        if isinstance(op, (ast.Eq, ast.NotEq)) and t1 == t2:
            neg = isinstance(op, ast.NotEq)
            if t1 in {"V", "LV", "S", "LS", "B"}:
                r = {"B": f"(Bool.eqb {c1} {c2})"}.get(t1, f"(py_eqb {c1} {c2})")
                return [], f"(negb {r})" if neg else r
            if (t1, "__eq__") in self.w.sigs:
                name, mon, _, _ = self.w.sigs[(t1, "__eq__")]
                tmp = self.fresh("b")
                return [(tmp, f"{name} {c1} {c2}")], f"(negb {tmp})" if neg else tmp
        if isinstance(op, ast.LtE) and t1 == t2:
            if t1 == "TL":
                tmp = self.fresh("b")
                return [(tmp, f"tl_le {c1} {c2}")], tmp
            if (t1, "__le__") in self.w.sigs:
                name, mon, _, _ = self.w.sigs[(t1, "__le__")]
                tmp = self.fresh("b")
                return [(tmp, f"{name} {c1} {c2}")], tmp
        fail(node, f"comparison {type(op).__name__} on {t1},{t2}")

    def tx_compare(self, e, env):
        # len(X) != len(set(X))  -- duplicate test through hashing/equality of Var
        l, r = e.left, e.comparators[0]
        if (len(e.ops) == 1 and isinstance(e.ops[0], ast.NotEq) and isinstance(l, ast.Call)
                and isinstance(l.func, ast.Name) and l.func.id == "len" and isinstance(r, ast.Call)
                and isinstance(r.func, ast.Name) and r.func.id == "len" and len(r.args) == 1
                and isinstance(r.args[0], ast.Call) and isinstance(r.args[0].func, ast.Name)
                and r.args[0].func.id == "set" and len(r.args[0].args) == 1 and len(l.args) == 1
                and ast.dump(r.args[0].args[0]) == ast.dump(l.args[0])):
            p, c, t = self.tx(l.args[0], env)
            if rt(t) != "LV":
                fail(e, "duplicate test on something else than a list of Var")
            return p, f"(has_dup {c})", "B"
        operands = [e.left] + list(e.comparators)
        if len(operands) > 2:
            for mid in operands[1:-1]:
                if not isinstance(mid, ast.Name):
                    fail(e, "chained comparison whose middle operand is not a plain name (it is evaluated once)")
        vals = [self.tx(o, env) for o in operands]
        if len(operands) > 2 and any(p for p, _, _ in vals):
            fail(e, "chained comparison with raising operands")
        parts = []
        for i, op in enumerate(e.ops):
            (p1, c1, t1), (p2, c2, t2) = vals[i], vals[i + 1]
            pp, c = self.pair_compare(e, op, c1, t1, c2, t2)
            parts.append(((p1 + p2 if i == 0 else []) + pp, c))
        return self.short_circuit(e, parts, True)

    def comp_source(self, e, env):
        if len(e.generators) != 1:
            fail(e, "nested comprehension")
        g = e.generators[0]
        if g.is_async or not isinstance(g.target, ast.Name):
            fail(e, "comprehension target")
        pi, ci, ti = self.tx(g.iter, env)
        elty = N_ELEM.get(rt(ti)) or fail(e, f"comprehension over a value of type {rt(ti)}")
        if g.target.id in env:
            fail(e, f"comprehension variable {g.target.id} shadows a local")
        env2 = dict(env)
        env2[g.target.id] = elty
        x = n_cid(g.target.id)
        src = ci
        for cond in g.ifs:
            pc, cc, tc = self.tx(cond, env2)
            if pc:
                fail(cond, "comprehension condition that may raise")
            src = f"(filter (fun {x} => {self.truth(cc, tc, cond)}) {src})"
        return pi, src, rt(ti), x, elty, env2

    def tx_comp(self, e, env):
        pi, src, ti, x, elty, env2 = self.comp_source(e, env)
        pe, ce, te = self.tx(e.elt, env2)
        if pe:
            fail(e, "comprehension element that may raise")
        te = rt(te)
        if isinstance(e, ast.SetComp):
            if te != "S":
                fail(e, f"set comprehension of {te}")
            self.assumptions.append(f"{self.where}: a set of str is modelled as a list (only `in` is applied to it)")
            rty = "SETS"
        else:
            rty = N_LISTOF.get(te) or fail(e, f"comprehension of {te}")
        if ce == x:
            return pi, src, rty if isinstance(e, ast.SetComp) else ti
        return pi, f"(map (fun {x} => {ce}) {src})", rty

    def fill_args(self, node, what, params, parts, kparts):
        """arguments of a call in the order of the signature; evaluation order = positional then keywords"""
        if len(parts) > len(params) or set(kparts) - {pn for pn, _, _ in params}:
            fail(node, f"arguments of {what}")
        full = []
        for i, (pn, pt, pd) in enumerate(params):
            if i < len(parts):
                if pn in kparts:
                    fail(node, f"argument {pn} given twice")
                _, c, t = parts[i]
            elif pn in kparts:
                _, c, t = kparts[pn]
            elif pd is not None:
                if not (isinstance(pd, ast.Constant) and (pd.value is None or isinstance(pd.value, bool))):
                    fail(node, f"default value of {pn}")
                _, c, t = self.tx(pd, {})
            else:
                fail(node, f"missing argument {pn} of {what}")
            full.append(self.coerce(c, t, pt, node, f"argument {pn} of {what}"))
        return full

    def do_call(self, node, entry, recv, parts, kparts, pre):
        name, mon, params, rty = entry
        full = self.fill_args(node, name, params, parts, kparts)
        call = " ".join([name] + ([recv] if recv is not None else []) + full)
        if mon:
            tmp = self.fresh("v")
            return pre + [(tmp, call)], tmp, rty
        return pre, f"({call})", rty

    def tx_call(self, e, env):
        f = e.func
        if any(k.arg is None for k in e.keywords) or any(isinstance(a, ast.Starred) for a in e.args):
            fail(e, "*args / **kwargs")
        if isinstance(f, ast.Name) and f.id in ("all", "any") and f.id not in env:
            if len(e.args) != 1 or e.keywords or not isinstance(e.args[0], ast.GeneratorExp):
                fail(e, f"{f.id}() on something else than a generator expression")
            g = e.args[0]
            pi, src, ti, x, elty, env2 = self.comp_source(g, env)
            pe, ce, te = self.tx(g.elt, env2)
            cb = self.truth(ce, te, g)
            if pe:
                tmp = self.fresh("b")
                prim = "all_m" if f.id == "all" else "any_m"
                return pi + [(tmp, f"{prim} {src} (fun {x} => {self.inline_m(pe, cb)})")], tmp, "B"
            prim = "py_all" if f.id == "all" else "py_any"
            return pi, f"({prim} {src} (fun {x} => {cb}))", "B"
        parts = [self.tx(a, env) for a in e.args]
        kparts = {k.arg: self.tx(k.value, env) for k in e.keywords}
        pre = [b for p, _, _ in parts for b in p] + [b for p, _, _ in kparts.values() for b in p]
        tys = [rt(t) for _, _, t in parts]
        if isinstance(f, ast.Name):
            if f.id in env:
                fail(e, "call of a local")
            if kparts:
                fail(e, f"keyword arguments in a call of {f.id}")
            if f.id in LIST_FUNS or f.id == "lists_equal":
                if len(parts) != 2:
                    fail(e, f"arguments of {f.id}")
                t1, t2 = parts[0][2], parts[1][2]
                if isinstance(rt(t1), TV) and not isinstance(rt(t2), TV):
                    self.unify(t1, rt(t2), e)
                if isinstance(rt(t2), TV) and not isinstance(rt(t1), TV):
                    self.unify(t2, rt(t1), e)
                if rt(t1) != rt(t2) or rt(t1) not in {"LV", "LS", "LN"}:
                    fail(e, f"{f.id} on {rt(t1)},{rt(t2)}")
                ty = "B" if f.id == "lists_equal" else rt(t1)
                return pre, f"({f.id} {parts[0][1]} {parts[1][1]})", ty
            if f.id == "len" and len(parts) == 1 and (tys[0] in N_ELEM or tys[0] == "NTL"):
                return pre, f"(len {parts[0][1]})", "N"
            if f.id == "Var" and len(parts) == 1 and tys[0] in {"S", "V"}:
                c = parts[0][1] if tys[0] == "S" else f"(var_name {parts[0][1]})"
                return pre, f"(Var {c})", "V"
            fail(e, f"call to {f.id} on {tys}")
        if isinstance(f, ast.Call) and isinstance(f.func, ast.Name) and f.func.id == "type" and len(f.args) == 1 \
                and isinstance(f.args[0], ast.Name) and f.args[0].id == "self" and not f.keywords:
            _, _, t = self.tx(f.args[0], env)
            if rt(t) not in self.w.ctor:
                fail(e, f"type(self)(...) for self of type {rt(t)}")
            return self.do_call(e, self.w.ctor[rt(t)], None, parts, kparts, pre)
        if not isinstance(f, ast.Attribute):
            fail(e, "call form")
        m = f.attr
        if isinstance(f.value, ast.Call) and isinstance(f.value.func, ast.Name) and f.value.func.id == "super" \
                and not f.value.args and not f.value.keywords:
            if m not in self.w.supers:
                fail(e, f"super().{m}")
            return self.do_call(e, self.w.supers[m], "self", parts, kparts, pre)
        if isinstance(f.value, ast.Name) and f.value.id not in env:
            fail(e, f"call to {f.value.id}.{m}")
        p0, c0, t0 = self.tx(f.value, env)
        t0 = rt(t0)
        pre = p0 + pre
        if m == "copy" and t0 in {"LV", "LS", "LN"} and not parts and not kparts:
            return pre, c0, t0
        if (t0, m) in self.w.sigs:
            return self.do_call(e, self.w.sigs[(t0, m)], c0, parts, kparts, pre)
        fail(e, f"method {m} on a value of type {t0}")

    # ---------------------------------------------------------------- statements
    def is_dropped(self, s, env) -> bool:
        if isinstance(s, ast.Expr):
            v = s.value
            if isinstance(v, ast.Constant) and isinstance(v.value, str):
                return True
            if isinstance(v, ast.Call) and isinstance(v.func, ast.Attribute) and isinstance(v.func.value, ast.Name) \
                    and v.func.value.id == "logging" and v.func.attr == "debug" and "logging" not in env:
                for a in v.args:
                    check_message_total(a)
                if v.keywords:
                    fail(s, "keyword argument of logging.debug")
                return True
        if isinstance(s, ast.If) and not s.orelse and len(s.body) == 1 and isinstance(s.body[0], ast.Raise):
            t = s.test
            if isinstance(t, ast.UnaryOp) and isinstance(t.op, ast.Not) and isinstance(t.operand, ast.Call) \
                    and ast.unparse(t.operand.func) == "isinstance" and len(t.operand.args) == 2 \
                    and isinstance(t.operand.args[0], ast.Name) and rt(env.get(t.operand.args[0].id)) == self.w.selfty \
                    and ast.unparse(t.operand.args[1]) == "type(self)":
                self.assumptions.append(f"{self.where}: `isinstance({t.operand.args[0].id}, type(self))` guard dropped "
                                        "(the model is typed)")
                return True
        return False

    def terminates(self, stmts) -> bool:
        if not stmts:
            return False
        s = stmts[-1]
        if isinstance(s, (ast.Raise, ast.Return, ast.Break, ast.Continue)):
            return True
        if isinstance(s, ast.If):
            return bool(s.orelse) and self.terminates(s.body) and self.terminates(s.orelse)
        return False

    def assigned(self, stmts) -> List[str]:
        out: List[str] = []

        def add(n):
            if n not in out:
                out.append(n)

        def target(n):
            if isinstance(n, ast.Name):
                add(n.id)
            elif isinstance(n, ast.Tuple):
                for x in n.elts:
                    target(x)
            elif isinstance(n, ast.Attribute) and isinstance(n.value, ast.Name) and n.value.id == "self":
                add("self_" + n.attr)
            else:
                fail(n, "assignment target")

        for s in stmts:
            if isinstance(s, ast.Assign):
                for t in s.targets:
                    target(t)
            elif isinstance(s, (ast.AugAssign, ast.AnnAssign)):
                target(s.target)
            elif isinstance(s, ast.Expr) and isinstance(s.value, ast.Call) and isinstance(s.value.func, ast.Attribute) \
                    and s.value.func.attr == "append":
                target(s.value.func.value)
            elif isinstance(s, ast.If):
                for n in self.assigned(s.body) + self.assigned(s.orelse):
                    add(n)
            elif isinstance(s, ast.For):
                for n in self.assigned(s.body):
                    add(n)
            elif isinstance(s, ast.Try):
                for n in self.assigned(s.body) + [x for h in s.handlers for x in self.assigned(h.body)]:
                    add(n)
        return out

    def block(self, stmts, env, ind, ctx: NCtx) -> str:
        if not stmts:
            return ctx.fall(env, ind)
        s, rest = stmts[0], list(stmts[1:])
        if s is END_TRY:
            saved, self.noraise = self.noraise, 0
            try:
                return self.block(rest, env, ind, ctx)
            finally:
                self.noraise = saved
        if self.is_dropped(s, env):
            return self.block(rest, env, ind, ctx)
        if isinstance(s, ast.Return):
            if [x for x in rest if x is not END_TRY]:
                fail(s, "statements after return")
            if ctx.ret is None:
                fail(s, "return inside branches that are joined")
            if s.value is None:
                fail(s, "bare return")
            pre, c, t = self.tx(s.value, env)
            c = self.coerce(c, t, self.rtype, s, "returned value")
            return self.emit_binds(pre, ctx.ret(env, ind, c), ind)
        if isinstance(s, ast.Raise):
            if [x for x in rest if x is not END_TRY]:
                fail(s, "statements after raise")
            return self.tr_raise(s, env, ind)
        if isinstance(s, (ast.Break, ast.Continue)):
            if [x for x in rest if x is not END_TRY]:
                fail(s, "statements after break/continue")
            k = ctx.brk if isinstance(s, ast.Break) else ctx.cont
            if k is None:
                fail(s, "break/continue outside a loop body (or inside branches that are joined)")
            return k(env, ind)
        if isinstance(s, ast.AnnAssign):
            if s.value is None:
                fail(s, "annotated assignment without a value")
            ann = ast.unparse(s.annotation)
            if ann not in self.w.annot:
                fail(s, f"unknown annotation {ann}")
            return self.tr_assign(s.target, s.value, rest, env, ind, ctx, hint=self.w.annot[ann], node=s)
        if isinstance(s, ast.Assign):
            if len(s.targets) != 1:
                fail(s, "multiple assignment targets")
            return self.tr_assign(s.targets[0], s.value, rest, env, ind, ctx, node=s)
        if isinstance(s, ast.Expr):
            return self.tr_expr_stmt(s, rest, env, ind, ctx)
        if isinstance(s, ast.If):
            return self.tr_if(s, rest, env, ind, ctx)
        if isinstance(s, ast.For):
            return self.tr_for(s, rest, env, ind, ctx)
        if isinstance(s, ast.Try):
            return self.tr_try(s, rest, env, ind, ctx)
        fail(s, "statement form")

    def tr_raise(self, s, env, ind):
        exc = s.exc
        if s.cause is not None:
            if not (isinstance(s.cause, ast.Name) and env.get(s.cause.id) == "EXC"):
                fail(s, "raise ... from something else than the caught exception")
            self.assumptions.append(f"{self.where}: `raise X from e` raises X; the cause chain is not modelled")
        if isinstance(exc, ast.Call) and isinstance(exc.func, ast.Name) and not exc.keywords:
            name = exc.func.id
            for a in exc.args:
                check_message_total(a)
            if exc.args:
                self.assumptions.append(f"{self.where}: exception messages are dropped (checked to be built from total "
                                        "operations); the exception TYPE is kept")
        elif isinstance(exc, ast.Name):
            name = exc.id
        else:
            fail(s, "raise form")
        if name not in ERRKIND or name in env:
            fail(s, f"exception class {name}")
        if not self.monadic:
            fail(s, f"raise in {self.where}, which is declared pure")
        if self.noraise:
            fail(s, "raise after the guarded call inside a try body (it would be caught by the handler)")
        return f"{ind}raise {ERRKIND[name]}"

    def bind_value(self, name, pre, c, ind):
        if pre and pre[-1][0] == c:
            return self.emit_binds(pre[:-1], "", ind) + self.emit_binds([(name, pre[-1][1])], "", ind)
        return self.emit_binds(pre, f"{ind}let {name} := {c} in\n", ind)

    def tr_assign(self, tgt, value, rest, env, ind, ctx, hint=None, node=None):
        pre, c, t = self.tx(value, env)
        if hint is not None:
            if isinstance(rt(t), TV):
                self.unify(t, hint, node)
            elif rt(t) != hint:
                fail(node, f"annotation {hint} vs inferred {rt(t)}")
        if rt(t) == "NONE":
            fail(node, "assignment of None")
        env2 = dict(env)
        if isinstance(tgt, ast.Name):
            if tgt.id == "self" or tgt.id in self.w.consts:
                fail(node, f"assignment to {tgt.id}")
            if tgt.id in env and not isinstance(rt(env[tgt.id]), TV) and not isinstance(rt(t), TV) \
                    and rt(env[tgt.id]) != rt(t):
                fail(node, f"{tgt.id} changes type from {rt(env[tgt.id])} to {rt(t)}")
            if tgt.id in env and isinstance(rt(t), TV) and not isinstance(rt(env[tgt.id]), TV):
                self.unify(t, rt(env[tgt.id]), node)
            env2[tgt.id] = t
            env2 = self.escaped(env2, value)
            env2 = self.with_owned(env2, tgt.id, self.is_fresh_list(value))
            if isinstance(value, ast.Name):
                env2 = self.with_owned(env2, value.id, False)      # a second name for the same object
            return self.bind_value(n_cid(tgt.id), pre, c, ind) + self.block(rest, env2, ind, ctx)
        if isinstance(tgt, ast.Attribute) and isinstance(tgt.value, ast.Name) and tgt.value.id == "self":
            if self.f.name != "__init__":
                fail(node, "assignment to a field of self outside __init__")
            fld = tgt.attr
            fty = dict(self.w.init_fields).get(fld) or fail(node, f"field {fld}")
            if fld in self.fields:
                fail(node, f"field {fld} assigned twice")
            c = self.coerce(c, t, fty, node, f"field {fld}")
            local = "self_" + fld
            self.fields[fld] = local
            env2[local] = fty
            env2 = self.escaped(env2, value)
            env2 = self.with_owned(env2, local, self.is_fresh_list(value))
            if isinstance(value, ast.Name):
                env2 = self.with_owned(env2, value.id, False)      # the object is now also reachable from self
            return self.bind_value(local, pre, c, ind) + self.block(rest, env2, ind, ctx)
        fail(node, "assignment target")

    def tr_expr_stmt(self, s, rest, env, ind, ctx):
        v = s.value
        if isinstance(v, ast.Call) and isinstance(v.func, ast.Attribute) and v.func.attr == "append" \
                and not v.keywords and len(v.args) == 1:
            base = v.func.value
            if isinstance(base, ast.Name) and base.id in env:
                name, key = n_cid(base.id), base.id
            elif isinstance(base, ast.Attribute) and isinstance(base.value, ast.Name) and base.value.id == "self" \
                    and self.f.name == "__init__" and base.attr in self.fields:
                name = key = self.fields[base.attr]
            else:
                fail(s, "append to something else than a local list")
            if key not in self.owned(env):
                fail(s, f"in-place append to `{key}`, which is not known to be a list built by this function and "
                        "referred to by no other name (the caller's object would be mutated)")
            pre, c, t = self.tx(v.args[0], env)
            lt = env[key]
            want = N_LISTOF.get(rt(t)) or fail(s, f"append of a value of type {rt(t)}")
            if isinstance(rt(lt), TV):
                self.unify(lt, want, s)
            elif rt(lt) != want:
                fail(s, f"append of {rt(t)} to {rt(lt)}")
            self.assumptions.append(f"{self.where}: l.append(x) on a list built in the same function is rendered as "
                                    "rebinding l := l ++ [x]")
            return self.emit_binds(pre, f"{ind}let {name} := ({name} ++ [{c}])%list in\n", ind) \
                + self.block(rest, self.escaped(env, v.args[0]), ind, ctx)
        fail(s, "expression statement")

    def none_default_idiom(self, s, env):
        """`if X is None: X = E` on an optional parameter"""
        if s.orelse or len(s.body) != 1 or not isinstance(s.body[0], ast.Assign):
            return None
        a = s.body[0]
        if len(a.targets) != 1 or not isinstance(a.targets[0], ast.Name):
            return None
        x = a.targets[0].id
        tx_ = rt(env.get(x))
        if not (isinstance(tx_, str) and tx_.startswith("O")):
            return None
        t = s.test
        if not (isinstance(t, ast.Compare) and isinstance(t.left, ast.Name) and t.left.id == x and len(t.ops) == 1
                and isinstance(t.ops[0], ast.Is) and isinstance(t.comparators[0], ast.Constant)
                and t.comparators[0].value is None):
            return None
        inner = tx_[1:]
        p, c, tv = self.tx(a.value, {k: v for k, v in env.items() if k != x})
        if p:
            fail(s, "default value that may raise")
        c = self.coerce(c, tv, inner, s, f"default of {x}")
        return x, inner, f"match {n_cid(x)} with None => {c} | Some v_ => v_ end"

    def tup(self, names):
        cn = [n if n.startswith("self_") else n_cid(n) for n in names]
        if not cn:
            return "tt", "_", "_"
        if len(cn) == 1:
            return cn[0], cn[0], cn[0]
        t = "(" + ", ".join(cn) + ")"
        return t, "'" + t, t          # value, binder pattern, match pattern

    def tr_if(self, s, rest, env, ind, ctx, pretest=None):
        if pretest is None:
            idiom = self.none_default_idiom(s, env)
            if idiom:
                x, inner, c = idiom
                env2 = dict(env)
                env2[x] = inner
                return f"{ind}let {n_cid(x)} := {c} in\n" + self.block(rest, env2, ind, ctx)
            pre, c, t = self.tx(s.test, env)
        else:
            pre, (c, t) = [], pretest
        cond = self.truth(c, t, s.test)
        env = self.escaped(env, s.test)
        body, orelse = list(s.body), list(s.orelse)
        tb, te = self.terminates(body), self.terminates(orelse)
        ind2 = ind + "  "
        real_rest = [x for x in rest if x is not END_TRY]
        if tb and te and real_rest:
            fail(s, "unreachable code after if")
        if tb or te or not real_rest:
            then_txt = self.block(body + ([] if tb else rest), env, ind2, ctx)
            else_txt = self.block(orelse + ([] if te else rest), env, ind2, ctx)
            return self.emit_binds(pre, f"{ind}if {cond} then\n{then_txt}\n{ind}else\n{else_txt}", ind)
        # both branches fall through and something follows: join on the (already defined) names they assign
        names = [n for n in self.assigned(body + orelse) if n in env]
        val, pat, _ = self.tup(names)
        envs = []

        def fall(env2, i2):
            envs.append(env2)
            return f"{i2}{self.mret(val)}"

        jctx = NCtx(fall)
        ind3 = ind + "    "
        txt = (f"{ind}  (if {cond} then\n" + self.block(body, env, ind3, jctx) + f"\n{ind}   else\n"
               + self.block(orelse, env, ind3, jctx) + ")")
        env3 = dict(env)
        for n in names:
            tys = {rt(e2[n]) for e2 in envs}
            if len(tys) != 1 or isinstance(next(iter(tys)), TV):
                fail(s, f"joined variable {n} has types {tys}")
            env3[n] = tys.pop()
        env3 = self.meet_owned(env3, envs)
        head = f"{ind}{pat} <-\n{txt} ;;\n" if self.monadic else f"{ind}let {pat} :=\n{txt} in\n"
        return self.emit_binds(pre, head, ind) + self.block(rest, env3, ind, ctx)

    def tr_for(self, s, rest, env, ind, ctx):
        if s.orelse:
            fail(s, "for ... else")
        env2 = dict(env)
        it = s.iter
        if isinstance(it, ast.Call) and isinstance(it.func, ast.Name) and it.func.id == "enumerate" \
                and "enumerate" not in env and len(it.args) == 1 and not it.keywords:
            pi, ci, ti = self.tx(it.args[0], env)
            elty = N_ELEM.get(rt(ti)) or fail(s, f"iteration over a value of type {rt(ti)}")
            if not (isinstance(s.target, ast.Tuple) and len(s.target.elts) == 2
                    and all(isinstance(x, ast.Name) for x in s.target.elts)):
                fail(s, "target of a loop over enumerate(...)")
            targets = [x.id for x in s.target.elts]
            env2[targets[0]], env2[targets[1]] = "N", elty
            ci = f"(enumerate {ci})"
            loopvars = f"'({n_cid(targets[0])}, {n_cid(targets[1])})"
        else:
            pi, ci, ti = self.tx(it, env)
            elty = N_ELEM.get(rt(ti)) or fail(s, f"iteration over a value of type {rt(ti)}")
            if not isinstance(s.target, ast.Name):
                fail(s, "loop target")
            targets = [s.target.id]
            env2[s.target.id] = elty
            loopvars = n_cid(s.target.id)
        env, env2 = self.escaped(env, s.iter), self.escaped(env2, s.iter)
        body_assigned = self.assigned(list(s.body))
        if set(body_assigned) & set(targets):
            fail(s, "loop body rebinds the loop variable")
        for t_ in targets:
            if t_ in env:
                fail(s, f"loop variable {t_} shadows a local (it would stay bound after the loop)")
        for n in ast.walk(s.iter):
            if isinstance(n, ast.Name) and n.id in body_assigned:
                fail(s, "loop body updates the object it iterates over")
            if isinstance(n, ast.Attribute) and isinstance(n.value, ast.Name) and n.value.id == "self" \
                    and "self_" + n.attr in body_assigned:
                fail(s, "loop body updates the object it iterates over")
        accs = [n for n in body_assigned if n in env]       # names bound first inside the body are local to it
        val, pat, mpat = self.tup(accs)
        has_ret = any(isinstance(n, ast.Return) for st in s.body for n in ast.walk(st))
        if has_ret and ctx.ret is None:
            fail(s, "return inside a loop inside branches that are joined")
        kn, kb = ("Next", "Stop") if has_ret else ("Continue", "Break")
        envs = []

        def leave(kind):
            def k(e3, i3):
                envs.append(e3)
                return f"{i3}{self.mret(f'({kind} {val})')}"
            return k

        def retk(e3, i3, c):
            return f"{i3}{self.mret(f'(Return {c})')}"

        body = self.block(list(s.body), env2, ind + "    ", NCtx(leave(kn), leave(kb), leave(kn), retk if has_ret else None))
        for n in accs:
            for e3 in envs:
                if rt(e3[n]) != rt(env[n]):
                    fail(s, f"loop variable {n} changes type")
        env = self.meet_owned(env, envs)
        prim = ("for_ret" if has_ret else "for_list") + ("_m" if self.monadic else "")
        call = f"{prim} {ci} {val} (fun {pat} {loopvars} =>\n{body})"
        if not has_ret:
            txt = f"{ind}{pat} <- {call} ;;\n" if self.monadic else f"{ind}let {pat} := {call} in\n"
            return self.emit_binds(pi, txt, ind) + self.block(rest, env, ind, ctx)
        after = self.block(rest, env, ind + "    ", ctx)
        retv = ctx.ret(env, ind + "    ", "v_")
        arms = f"{ind}| Done {mpat} =>\n{after}\n{ind}| Returned v_ =>\n{retv}\n{ind}end"
        if self.monadic:
            r = self.fresh("r")
            return self.emit_binds(pi, f"{ind}{r} <- {call} ;;\n{ind}match {r} with\n{arms}", ind)
        return self.emit_binds(pi, f"{ind}match {call} with\n{arms}", ind)

    def tr_try(self, s, rest, env, ind, ctx):
        if s.orelse or s.finalbody or len(s.handlers) != 1 or not s.body:
            fail(s, "try form")
        h = s.handlers[0]
        if not (isinstance(h.type, ast.Name) and h.type.id == "ValueError" and "ValueError" not in env):
            fail(s, "except clause other than `except ValueError`")
        if not self.monadic:
            fail(s, f"try in {self.where}, which is declared pure")
        if self.noraise:
            fail(s, "try inside a try body")
        if not self.terminates(list(h.body)):
            fail(s, "the handler of a try must end in continue/break/return/raise")
        env_h = dict(env)
        if h.name is not None:
            if h.name in env:
                fail(s, f"exception name {h.name} shadows a local")
            env_h[h.name] = "EXC"
        first, others = s.body[0], list(s.body[1:])
        ind2 = ind + "    "
        self.noraise += 1
        try:
            if isinstance(first, ast.Assign) and len(first.targets) == 1 and isinstance(first.targets[0], ast.Name):
                pre, c, t = self.tx_guarded(first.value, env)
                name = first.targets[0].id
                if name in self.w.consts or name == "self":
                    fail(first, f"assignment to {name}")
                env2 = dict(env)
                env2[name] = t
                env2 = self.with_owned(self.escaped(env2, first.value), name, False)
                ktxt = self.block(others + [END_TRY] + rest, env2, ind2, ctx)
                kname = n_cid(name)
            elif isinstance(first, ast.If):
                pre, c, t = self.tx_guarded(first.test, env)
                ktxt = self.tr_if(first, others + [END_TRY] + rest, env, ind2, ctx, pretest=(c, t))
                kname = c
            else:
                fail(first, "the first statement of a try body must be `x = <one raising call>` or `if <one raising "
                            "call>:`")
        finally:
            self.noraise -= 1
        htxt = self.block(list(h.body), env_h, ind2, ctx)
        return f"{ind}try_bind ({pre[0][1]})\n{ind}  (fun {kname} =>\n{ktxt})\n{ind}  (\n{htxt})"

    def tx_guarded(self, e, env):
        """the one raising operation of a try body: exactly one monadic call whose result is the value"""
        saved, self.noraise = self.noraise, 0
        try:
            pre, c, t = self.tx(e, env)
        finally:
            self.noraise = saved
        if len(pre) != 1 or pre[0][0] != c:
            fail(e, "a try body must start with exactly one call of an operation that may raise")
        return pre, c, t

    # ---------------------------------------------------------------- whole function
    def end_of_function(self, env, ind):
        if self.f.name == "__init__":
            want = [f for f, _ in self.w.init_fields]
            if sorted(self.fields) != sorted(want):
                fail(self.f, f"__init__ assigns fields {sorted(self.fields)}, expected {sorted(want)}")
            return f"{ind}{self.mret(self.w.init_build.format(**{f: 'self_' + f for f in want}))}"
        fail(self.f, "function falls off the end (returns None)")

    def translate(self, params) -> str:
        env = {n: t for n, t, _ in params}
        env["%owned"] = frozenset()
        if self.f.name != "__init__":
            env["self"] = self.w.selfty
        return self.block(list(self.f.body), env, "  ",
                          NCtx(self.end_of_function, None, None, lambda e, i, c: f"{i}{self.mret(c)}"))


def n_signature(world: World, cls: str, f: ast.FunctionDef, rtype_annot: Dict[str, str]):
    a = f.args
    if a.vararg or a.kwarg or a.kwonlyargs or a.posonlyargs or not a.args or a.args[0].arg != "self":
        raise Unsupported(f"signature of {cls}.{f.name}")
    defaults = [None] * (len(a.args) - len(a.defaults)) + list(a.defaults)
    params = []
    for arg, d in list(zip(a.args, defaults))[1:]:
        ann = ast.unparse(arg.annotation) if arg.annotation is not None else None
        ty = world.selfty if ann == "object" else world.annot.get(ann)
        if ty is None:
            fail(arg, f"annotation {ann} of parameter {arg.arg} of {cls}.{f.name}")
        if d is not None and not (isinstance(d, ast.Constant) and (d.value is None or isinstance(d.value, bool))):
            fail(arg, "default value")
        if d is not None and d.value is None and not ty.startswith("O"):
            fail(arg, "None default of a non-optional parameter")
        params.append((arg.arg, ty, d))
    rann = ast.unparse(f.returns) if f.returns is not None else None
    if f.name == "__init__":
        if rann not in (None, "None"):
            fail(f, "return annotation of __init__")
        rty = world.selfty
    else:
        rty = rtype_annot.get(rann) or fail(f, f"return annotation {rann} of {cls}.{f.name}")
    return params, rty


def n_define(world: World, prefix: str, f: ast.FunctionDef, params, rty, monadic, assumptions, selfname="self") -> str:
    try:
        body = with_fallback(f, lambda fd: NFn(world, fd, monadic, rty, assumptions).translate(params))
    except Unsupported as ex:
        if not monadic:
            raise
        body = function_stub(CURRENT_OUTFILE[0], f"{prefix}.{f.name}", ex)
    ps = ([] if f.name == "__init__" else [(selfname, world.selfty)]) + [(n_cid(n), t) for n, t, _ in params]
    sig = " ".join(f"({n} : {N_COQTY[t]})" for n, t in ps)
    rt_ = N_COQTY[rty]
    pysig = ast.unparse(f).split("\n")
    pysig = next(l for l in pysig if l.startswith("def "))
    name = f"{prefix}_{N_OPNAME.get(f.name, f.name)}"
    return f"(* {pysig} *)\nDefinition {name} {sig} : {'M (' + rt_ + ')' if monadic else rt_} :=\n{body}.\n\n"


N_OPNAME = {"__init__": "init", "__eq__": "eq", "__le__": "le"}


def n_class_methods(cdef, cls, translated, skipped, props=("vars",)):
    ms = {}
    for n in cdef.body:
        if isinstance(n, ast.FunctionDef):
            if n.name in ms:
                raise Unsupported(f"{cls}.{n.name} defined twice")
            ms[n.name] = n
        elif isinstance(n, ast.Expr) and isinstance(n.value, ast.Constant) and isinstance(n.value.value, str):
            continue
        else:
            fail(n, f"class-level statement in {cls}")
    for name in translated:
        if name not in ms:
            raise Unsupported(f"{cls}.{name} missing")
    for name, f in ms.items():
        if name in skipped:
            continue
        if name not in translated:
            raise Unsupported(f"unexpected method {cls}.{name} (neither translated nor in the skip list)")
        decos = [ast.unparse(d) for d in f.decorator_list]
        if decos != (["property"] if name in props else []):
            raise Unsupported(f"decorators of {cls}.{name}: {decos}")
        strip_doc(f)
    return ms


def n_imports(mod):
    imported = {}
    for n in mod.body:
        if isinstance(n, ast.ImportFrom):
            for a in n.names:
                imported[a.asname or a.name] = f"{n.module}.{a.name}"
        elif isinstance(n, ast.Import):
            for a in n.names:
                imported[a.asname or a.name] = a.name
    return imported


def n_no_redefinition(mod, names, classes):
    defs = [n.name for n in mod.body if isinstance(n, (ast.FunctionDef, ast.ClassDef))]
    for name in names:
        if name in defs or any(isinstance(n, (ast.Assign, ast.AnnAssign, ast.AugAssign)) and any(
                isinstance(t, ast.Name) and t.id == name
                for t in (n.targets if isinstance(n, ast.Assign) else [n.target])) for n in mod.body):
            raise Unsupported(f"module-level redefinition of {name}")
    for c in classes:
        if defs.count(c) != 1:
            raise Unsupported(f"class {c} defined {defs.count(c)} times")
    for n in mod.body:
        if isinstance(n, ast.Expr) and isinstance(n.value, ast.Call) and "setattr" in ast.unparse(n.value):
            raise Unsupported("module-level setattr")
        if isinstance(n, (ast.Assign, ast.AugAssign, ast.AnnAssign, ast.Delete)):
            for t in (n.targets if isinstance(n, (ast.Assign, ast.Delete)) else [n.target]):
                if not isinstance(t, ast.Name):
                    raise Unsupported(f"module-level statement {ast.unparse(n)[:80]}")


NT_CLASS, KC_CLASS = "NestedTermList", "IoContractCompound"
NT_METHODS = ["__init__", "__le__", "__eq__", "vars", "copy", "simplify", "intersect", "contains_behavior"]
NT_MONADIC = {"__init__": True, "__le__": True, "__eq__": True, "vars": False, "copy": True, "simplify": True,
              "intersect": True, "contains_behavior": True}
KC_METHODS = ["__init__", "__eq__", "merge"]
N_SKIP = ["__str__", "__repr__"]
W_CLASS = "PolyhedralIoContract"
W_METHODS = ["rename_variables", "compose_tactics", "compose", "quotient_tactics", "quotient", "get_variable_bounds"]
W_SKIP = ["to_machine_dict", "to_dict", "from_strings", "from_dict", "optimize"]


def gen_compound(path, pc_path) -> Tuple[str, List[str]]:
    src = open(path).read()
    mod = ast.parse(src)
    assumptions: List[str] = []
    imported = n_imports(mod)
    for name, want in (("logging", "logging"), ("list_union", "pacti.utils.lists.list_union"),
                       ("list_diff", "pacti.utils.lists.list_diff"),
                       ("list_intersection", "pacti.utils.lists.list_intersection"),
                       ("Var", "pacti.iocontract.iocontract.Var"),
                       ("TermList_t", "pacti.iocontract.iocontract.TermList_t")):
        if imported.get(name) != want:
            raise Unsupported(f"compundiocontract.py: module-level name {name} is {imported.get(name)}, expected {want}")
    n_no_redefinition(mod, ["logging", "list_union", "list_diff", "list_intersection", "Var", "len", "set", "list",
                            "enumerate", "isinstance", "type", "all", "any", "ValueError"], [NT_CLASS, KC_CLASS])
    nt_c, kc_c = class_def(mod, NT_CLASS), class_def(mod, KC_CLASS)
    if nt_c.bases or nt_c.keywords or nt_c.decorator_list:
        raise Unsupported(f"{NT_CLASS} is expected to be a plain class")
    if [ast.unparse(b) for b in kc_c.bases] != ["Generic[NestedTermlist_t]"] or kc_c.keywords or kc_c.decorator_list:
        raise Unsupported(f"{KC_CLASS} is expected to derive from Generic[NestedTermlist_t] only")
    nm = n_class_methods(nt_c, NT_CLASS, NT_METHODS, N_SKIP)
    km = n_class_methods(kc_c, KC_CLASS, KC_METHODS, N_SKIP)
    # --- the subclasses used with polyhedra must not change the constructors (type(self)(...) is rendered as the
    #     constructor of the base class)
    pmod = ast.parse(open(pc_path).read())
    np_c, pk_c = class_def(pmod, "NestedPolyhedra"), class_def(pmod, "PolyhedralIoContractCompound")
    if [ast.unparse(b) for b in np_c.bases] != [NT_CLASS] or [ast.unparse(b) for b in pk_c.bases] != [KC_CLASS]:
        raise Unsupported("bases of NestedPolyhedra / PolyhedralIoContractCompound")
    npm = n_class_methods(np_c, "NestedPolyhedra", ["__init__"], [])
    want_init = "super().__init__(nested_termlist, force_empty_intersection)"
    init = npm["__init__"]
    if [a.arg for a in init.args.args] != ["self", "nested_termlist", "force_empty_intersection"] or init.args.defaults \
            or len(init.body) != 1 or ast.unparse(init.body[0]) != want_init:
        raise Unsupported("NestedPolyhedra.__init__ is expected to delegate to NestedTermList.__init__ unchanged")
    pkm = {n.name: n for n in pk_c.body if isinstance(n, ast.FunctionDef)}
    if sorted(pkm) != ["from_strings", "to_dict"]:
        raise Unsupported(f"PolyhedralIoContractCompound defines {sorted(pkm)}; expected only from_strings and to_dict "
                          "(no override of the translated methods)")
    assumptions.append("compound: type(self)(...) is the constructor of NestedTermList / IoContractCompound (checked: "
                       "NestedPolyhedra.__init__ only delegates; PolyhedralIoContractCompound overrides nothing translated)")
    assumptions.append(f"compound: methods NOT translated (printing): "
                       f"{', '.join(sorted(set(N_SKIP) & (set(nm) | set(km))))} of {NT_CLASS} / {KC_CLASS}")
    assumptions.append("compound: the term-list type is abstract (class TLDomain of base/PyLoop.v): |, is_empty, <=, "
                       "simplify(context), contains_behavior, copy, vars are primitives; a NestedTermList object is the "
                       "list stored in its only field nested_termlist")
    annot = {"List[TermList_t]": "LTL", "bool": "B", "NestedTermlist_t": "NTL", "Dict[Var, numeric]": "BEH",
             "List[Var]": "LV", "IoContractCompound_t": "K"}
    rannot = {"bool": "B", "NestedTermlist_t": "NTL", "List[Var]": "LV", "IoContractCompound_t": "K"}
    numeric = [n for n in mod.body if isinstance(n, ast.Assign) and len(n.targets) == 1
               and isinstance(n.targets[0], ast.Name) and n.targets[0].id == "numeric"]
    if len(numeric) != 1 or ast.unparse(numeric[0].value) != "Union[int, float]":
        raise Unsupported("`numeric` is expected to be Union[int, float]")
    prims = {
        ("TL", "is_empty"): ("tl_is_empty", True, [], "B"),
        ("TL", "simplify"): ("tl_simplify", True, [("context", "TL", None)], "TL"),
        ("TL", "contains_behavior"): ("tl_contains_behavior", True, [("behavior", "BEH", None)], "B"),
        ("TL", "copy"): ("tl_copy", False, [], "TL"),
    }
    cls_src = (ast.get_source_segment(src, nt_c) or "") + (ast.get_source_segment(src, kc_c) or "")
    out = ("(* GENERATED by /verif/translator/py2coq.py from src/pacti/iocontract/compundiocontract.py — do not edit.\n"
           f"   sha256 of the two class sources: {hashlib.sha256(cls_src.encode()).hexdigest()}\n"
           f"   translated: {NT_CLASS}.({', '.join(NT_METHODS)}); {KC_CLASS}.({', '.join(KC_METHODS)})\n"
           f"   NOT translated (skipped on purpose: printing only): __str__ / __repr__ of both classes\n"
           "   vocabulary: base/PyLoop.v (loops with break/continue/return, try_bind, enumerate, the abstract term-list\n"
           "   primitives TLDomain) and base/PyDict.v (for_list, for_list_m).  Exception messages are dropped, types kept. *)\n"
           "From Coq Require Import List String Bool Arith.\nImport ListNotations.\n"
           "Require Import Py ListsGen PyDict PyLoop.\nOpen Scope py_scope.\n\n"
           "Section Compound.\nContext `{TLDomain}.\n\n")
    # --- NestedTermList
    w = World(NT_CLASS, "NTL", annot)
    w.fields[("NTL", "nested_termlist")] = ("{0}", "LTL")
    w.props[("TL", "vars")] = ("(tl_vars {0})", "LV")
    w.sigs.update(prims)
    w.init_fields = [("nested_termlist", "LTL")]
    w.init_build = "{nested_termlist}"
    for name in NT_METHODS:
        f = nm[name]
        params, rty = n_signature(w, NT_CLASS, f, rannot)
        mon = NT_MONADIC[name]
        out += n_define(w, NT_CLASS, f, params, rty, mon, assumptions)
        coq = f"{NT_CLASS}_{N_OPNAME.get(name, name)}"
        if name == "__init__":
            w.ctor["NTL"] = (coq, mon, params, "NTL")
        elif name == "vars":
            w.props[("NTL", "vars")] = (f"({coq} {{0}})", "LV")
        else:
            w.sigs[("NTL", name)] = (coq, mon, params, rty)
    # --- IoContractCompound
    out += ("Record kcontract : Type := { kc_a : list tlist; kc_g : list tlist; kc_inputvars : list var; "
            "kc_outputvars : list var }.\n\n")
    wk = World(KC_CLASS, "K", annot)
    wk.fields.update({("K", "a"): ("(kc_a {0})", "NTL"), ("K", "g"): ("(kc_g {0})", "NTL"),
                      ("K", "inputvars"): ("(kc_inputvars {0})", "LV"), ("K", "outputvars"): ("(kc_outputvars {0})", "LV")})
    wk.props.update(w.props)
    wk.sigs.update(w.sigs)
    wk.init_fields = [("a", "NTL"), ("g", "NTL"), ("inputvars", "LV"), ("outputvars", "LV")]
    wk.init_build = "{{| kc_a := {a}; kc_g := {g}; kc_inputvars := {inputvars}; kc_outputvars := {outputvars} |}}"
    for name in KC_METHODS:
        f = km[name]
        params, rty = n_signature(wk, KC_CLASS, f, rannot)
        out += n_define(wk, KC_CLASS, f, params, rty, True, assumptions)
        coq = f"{KC_CLASS}_{N_OPNAME.get(name, name)}"
        if name == "__init__":
            wk.ctor["K"] = (coq, True, params, "K")
        else:
            wk.sigs[("K", name)] = (coq, True, params, rty)
    out += "End Compound.\n"
    return out, sorted(set(assumptions))


def gen_wrap(pc_path, io_path) -> Tuple[str, List[str]]:
    """the thin wrappers of PolyhedralIoContract; must run after gen_algebra (METHOD_SIGS)"""
    src = open(pc_path).read()
    mod = ast.parse(src)
    assumptions: List[str] = []
    imported = n_imports(mod)
    for name, want in (("IoContract", "pacti.iocontract.IoContract"), ("Var", "pacti.iocontract.Var")):
        if imported.get(name) != want:
            raise Unsupported(f"polyhedral_iocontract.py: module-level name {name} is {imported.get(name)}, expected {want}")
    n_no_redefinition(mod, ["IoContract", "Var", "len", "set", "list", "enumerate", "isinstance", "type", "all", "any",
                            "super", "ValueError"], [W_CLASS])
    for n in mod.body:      # TACTICS_ORDER must be assigned once (its value is read by gen_consts)
        pass
    if sum(1 for n in ast.walk(mod) if isinstance(n, ast.Name) and n.id == "TACTICS_ORDER"
           and isinstance(n.ctx, (ast.Store, ast.Del))) != 1:
        raise Unsupported("TACTICS_ORDER is expected to be assigned exactly once")
    if any(isinstance(n, ast.Global) for n in ast.walk(mod)):
        raise Unsupported("global statement in polyhedral_iocontract.py")
    cdef = class_def(mod, W_CLASS)
    if [ast.unparse(b) for b in cdef.bases] != ["IoContract"] or cdef.keywords or cdef.decorator_list:
        raise Unsupported(f"{W_CLASS} is expected to be a plain subclass of IoContract")
    ms = {}
    for n in cdef.body:
        if isinstance(n, ast.FunctionDef):
            if n.name in ms:
                raise Unsupported(f"{W_CLASS}.{n.name} defined twice")
            ms[n.name] = n
        elif isinstance(n, ast.Expr) and isinstance(n.value, ast.Constant) and isinstance(n.value.value, str):
            continue
        else:
            fail(n, f"class-level statement in {W_CLASS}")
    for name in W_METHODS + ["optimize"]:
        if name not in ms:
            raise Unsupported(f"{W_CLASS}.{name} missing")
    for name, f in ms.items():
        if name in W_SKIP:
            continue
        if name not in W_METHODS:
            raise Unsupported(f"unexpected method {W_CLASS}.{name} (neither translated nor in the skip list); an "
                              "override of an IoContract method would change what the translated algebra means")
        if f.decorator_list:
            raise Unsupported(f"decorators of {W_CLASS}.{name}")
        strip_doc(f)
    assumptions.append(f"{W_CLASS}: methods NOT translated (string parsing / JSON / LP glue, hand-modelled in "
                       f"model/Json.v, model/ParseAll.v, model/PolyDomain.v): {', '.join(sorted(set(W_SKIP) & set(ms)))}")
    assumptions.append(f"{W_CLASS}: Var(x) is the identity on names (var = string; Var.__init__ stores str(x)); "
                       "get_variable_bounds is translated over an abstract `optimize` (a section variable)")
    # --- the base class, for super() and dynamic dispatch
    imod = ast.parse(open(io_path).read())
    im = {n.name: n for n in class_def(imod, "IoContract").body if isinstance(n, ast.FunctionDef)}
    overridden = [m for m in ms if m in im]
    for m in overridden:
        if m in W_SKIP:
            raise Unsupported(f"{W_CLASS}.{m} overrides an IoContract method but is in the skip list")
    annot = {"List[Tuple[str, str]]": "LSS", "PolyhedralIoContract": "C", "Optional[List[str]]": "OLS", "bool": "B",
             "Optional[List[int]]": "OLN", "Optional[List[Var]]": "OLV", "str": "S"}
    rannot = {"PolyhedralIoContract": "C", "Tuple[PolyhedralIoContract, List[TacticStatistics]]": "C*LST",
              "Tuple[Optional[numeric], Optional[numeric]]": "ONUM*ONUM", "Optional[numeric]": "ONUM"}
    w = World(W_CLASS, "C", annot)
    w.props.update({("C", "vars"): ("(IoContract_vars {0})", "LV"), ("V", "name"): ("(var_name {0})", "S"),
                    ("C", "inputvars"): ("(c_inputvars {0})", "LV"), ("C", "outputvars"): ("(c_outputvars {0})", "LV")})
    w.consts["TACTICS_ORDER"] = ("TACTICS_ORDER_polyhedral_iocontract", "LN")

    def base_entry(m):
        mon, rty = C_METHODS[m]
        if ("IoContract", m) not in METHOD_SIGS:
            raise Unsupported(f"signature of IoContract.{m} unknown (iocontract.py was not translated)")
        sig = METHOD_SIGS[("IoContract", m)]
        return (f"IoContract_{OPNAME.get(m, m)}", mon, [(pn, pt, pd) for pn, pt, pd in sig[1:]], rty)

    for m in ("copy", "rename_variable"):
        if m in overridden:
            raise Unsupported(f"{W_CLASS} overrides {m}")
        w.sigs[("C", m)] = base_entry(m)
    # self.optimize(...) : abstract
    oparams, orty = n_signature(w, W_CLASS, ms["optimize"], rannot)
    if [(n, t) for n, t, _ in oparams] != [("expr", "S"), ("maximize", "B")] or orty != "ONUM":
        raise Unsupported("signature of PolyhedralIoContract.optimize")
    w.sigs[("C", "optimize")] = ("PolyhedralIoContract_optimize", True, oparams, "ONUM")
    sha = hashlib.sha256((ast.get_source_segment(src, cdef) or "").encode()).hexdigest()
    out = ("(* GENERATED by /verif/translator/py2coq.py from src/pacti/contracts/polyhedral_iocontract.py, class "
           f"{W_CLASS} — do not edit.\n   sha256 of the class source: {sha}\n"
           f"   translated: {', '.join(W_METHODS)}\n"
           f"   NOT translated (skipped on purpose: string parsing / JSON / LP glue): {', '.join(sorted(W_SKIP))}\n"
           "   super().m(...) is IoContract.m executed on a PolyhedralIoContract: where IoContract.m calls a method\n"
           "   that this class overrides, IoContract.m is translated again with the override (PolyhedralIoContract_super_m). *)\n"
           "From Coq Require Import List String Bool Arith.\nImport ListNotations.\n"
           "Require Import Py ListsGen ConstGen AlgebraGen PyDict PyLoop.\nOpen Scope py_scope.\n\n"
           "Section Wrap.\nContext `{Domain}.\n"
           "(* PolyhedralIoContract.optimize is not translated (string parsing + LP); get_variable_bounds is generic in it *)\n"
           "Context {num : Type} (PolyhedralIoContract_optimize : contract -> string -> bool -> M (option num)).\n\n")
    own_sigs = {}
    for name in W_METHODS:
        params, rty = n_signature(w, W_CLASS, ms[name], rannot)
        own_sigs[name] = (params, rty)
    for name in W_METHODS:
        f = ms[name]
        params, rty = own_sigs[name]
        # super().m(...) targets used by this method
        for n in ast.walk(f):
            if isinstance(n, ast.Call) and isinstance(n.func, ast.Attribute) and isinstance(n.func.value, ast.Call) \
                    and isinstance(n.func.value.func, ast.Name) and n.func.value.func.id == "super":
                m = n.func.attr
                if m in w.supers:
                    continue
                if m not in im or m not in C_METHODS:
                    fail(n, f"super().{m}: not a translated method of IoContract")
                base = im[m]
                selfcalls, foreign = set(), set()
                for c in ast.walk(base):
                    if isinstance(c, ast.Call) and isinstance(c.func, ast.Attribute) and c.func.attr in overridden:
                        if isinstance(c.func.value, ast.Name) and c.func.value.id == "self":
                            selfcalls.add(c.func.attr)
                        elif not (isinstance(c.func.value, ast.Call) and ast.unparse(c.func.value) == "super()"):
                            foreign.add(c.func.attr)
                if foreign:
                    fail(base, f"IoContract.{m} calls the overridden {sorted(foreign)} on an object other than self")
                if not selfcalls:
                    w.supers[m] = base_entry(m)
                    continue
                overrides = {}
                for sc in sorted(selfcalls):
                    if f"{W_CLASS}_{sc}" not in out:
                        fail(base, f"IoContract.{m} dispatches to {W_CLASS}.{sc}, which is not generated yet")
                    sp, _ = own_sigs[sc]
                    overrides[sc] = (f"{W_CLASS}_{sc}", [("self", "C", None)] + list(sp))
                    assumptions.append(f"{W_CLASS}: IoContract.{m} runs with self.{sc} resolved to the override "
                                       f"{W_CLASS}.{sc} (dynamic dispatch); it may pass Var objects where the override "
                                       "annotates str (Var(str(v)) = v in the name model)")
                mon, brty = C_METHODS[m]
                strip_doc(base)
                cname = f"{W_CLASS}_super_{OPNAME.get(m, m)}"
                out += (f"(* IoContract.{m} as executed on a {W_CLASS}: self.{'/'.join(sorted(selfcalls))} is the override *)\n"
                        + translate_function("IoContract", base, mon, brty, assumptions, name=cname, overrides=overrides)
                        + "\n")
                be = base_entry(m)
                w.supers[m] = (cname, be[1], be[2], be[3])
        out += n_define(w, W_CLASS, f, params, rty, True, assumptions)
        w.sigs[("C", name)] = (f"{W_CLASS}_{name}", True, params, rty)
    out += "End Wrap.\n"
    return out, sorted(set(assumptions))


def main(repo, outdir):
    """Each output file is generated on its own: a source outside the translated subset poisons only its own
    output file (and so only the proof obligations that import it), never silently keeps a stale one."""
    import os
    res, failures = {}, []
    assumptions = set()

    def guard(name, thunk):
        CURRENT_OUTFILE[0] = name
        try:
            out = thunk()
        except Unsupported as ex:
            failures.append((name, str(ex)))
            res[name] = STUB.format(msg=str(ex).replace("*)", "* )"))
            return
        except Exception as ex:  # noqa: BLE001  a generator that crashes on this source fails closed like one that refuses it
            import traceback
            msg = f"the generator stopped with {type(ex).__name__}: {ex} ({traceback.format_exc().strip().splitlines()[-3].strip()[:200]})"
            failures.append((name, msg))
            res[name] = STUB.format(msg=msg.replace("*)", "* )"))
            return
        if isinstance(out, tuple):
            res[name] = out[0]
            assumptions.update(out[1])
        else:
            res[name] = out
    guard("ListsGen.v", lambda: gen_lists(f"{repo}/src/pacti/utils/lists.py"))
    guard("AlgebraGen.v", lambda: gen_algebra(f"{repo}/src/pacti/iocontract/iocontract.py", f"{repo}/src/pacti/utils/errors.py"))
    guard("ConstGen.v", lambda: gen_consts(f"{repo}/src/pacti/terms/polyhedra/polyhedra.py",
                                           f"{repo}/src/pacti/contracts/polyhedral_iocontract.py"))
    guard("TermGen.v", lambda: gen_term(f"{repo}/src/pacti/terms/polyhedra/polyhedra.py"))
    pc = f"{repo}/src/pacti/contracts/polyhedral_iocontract.py"
    guard("CompoundGen.v", lambda: gen_compound(f"{repo}/src/pacti/iocontract/compundiocontract.py", pc))
    # after gen_algebra: uses the signatures of the IoContract methods (METHOD_SIGS)
    guard("WrapGen.v", lambda: gen_wrap(pc, f"{repo}/src/pacti/iocontract/iocontract.py"))
    import py2coq_json  # generator for the JSON / dictionary side, in its own module: translator/py2coq_json.py
    guard("JsonGen.v", lambda: py2coq_json.gen_json(repo))
    import py2coq_compjson  # PolyhedralIoContractCompound.to_dict / from_strings: translator/py2coq_compjson.py
    guard("JsonCompoundGen.v", lambda: py2coq_compjson.gen_compjson(repo))
    import py2coq_syntax  # generator for the syntax layer (C09): translator/py2coq_syntax.py
    guard("SyntaxGen.v", lambda: py2coq_syntax.gen_syntax(repo))
    from py2coq_termlist import gen_termlist      # generator for PolyhedralTermList: translator/py2coq_termlist.py
    guard("TermListGen.v", lambda: gen_termlist(repo))
    import py2coq_printer  # generator for the string printer (serializer.py, to_str_list): translator/py2coq_printer.py
    guard("PrinterGen.v", lambda: py2coq_printer.gen_printer(repo))
    from py2coq_poly import gen_poly              # generator for the LP / numpy functions: translator/py2coq_poly.py
    guard("PolyGen.v", lambda: gen_poly(repo))
    import py2coq_plots  # generator for the vertex routine of utils/plots.py (C18): translator/py2coq_plots.py
    guard("PlotsGen.v", lambda: py2coq_plots.gen_plots(repo))
    from py2coq_tlp import gen_tlp                # generator for _get_tlp_context / _context_reduction / solve_for_variables: translator/py2coq_tlp.py
    guard("TlpGen.v", lambda: gen_tlp(repo))
    import py2coq_grammar  # generator for the STRUCTURE of the pyparsing grammar (C09): translator/py2coq_grammar.py
    guard("GrammarGen.v", lambda: py2coq_grammar.gen_grammar(repo))
    import py2coq_heap  # generator for the heap-level effect program (C13): translator/py2coq_heap.py
    guard("HeapGen.v", lambda: py2coq_heap.gen_heap(repo))
    changed = []
    for name, txt in res.items():
        p = os.path.join(outdir, name)
        old = open(p).read() if os.path.exists(p) else None
        if old != txt:
            with open(p, "w") as fh:
                fh.write(txt)
            changed.append(name)
    return changed, sorted(assumptions), failures


if __name__ == "__main__":
    ch, ass, fails = main(sys.argv[1], sys.argv[2])
    print("changed:", ch)
    for name, msg in fails:
        print(f"TRANSLATOR-UNSUPPORTED[{name}]: {msg}")
    for outfile, qual, msg in sorted(set(FUNCTION_STUBS)):
        if outfile not in [n for n, _ in fails]:
            print(f"TRANSLATOR-UNSUPPORTED[{outfile}:{qual}]: {msg} (this function only: emitted as a typed stub)")
    for a in ass:
        print("assumption:", a)
